/-
  Gen/Cxx/AnyPredicate.lean — REGENERATED from /repo by tools/cxx2lean.py on every check.  Do not edit.
  The definition is the syntax-directed translation of the C++ function named in its doc comment (statement
  for statement; loops, tests, early exits and their order are those of the source).
  `TrompModel/Tie/*.lean` proves it equal to the hand-written model definition.
-/
import TrompModel.Model.CxxBase
namespace Tromp.Cxx

/-- `lambdas::any_predicate::operator()` — translated from include/trompeloeil/matcher/any.hpp:27 -/
def any_predicate : Bool := Id.run do
  return true

end Tromp.Cxx
