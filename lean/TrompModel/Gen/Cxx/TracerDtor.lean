/-
  Gen/Cxx/TracerDtor.lean — REGENERATED from /repo by tools/cxx2lean.py on every check.  Do not edit.
  The definition is the syntax-directed translation of the C++ function named in its doc comment (statement
  for statement; loops, tests, early exits and their order are those of the source).
  `TrompModel/Tie/*.lean` proves it equal to the hand-written model definition.
-/
import TrompModel.Model.CxxBase
namespace Tromp.Cxx

/-- `tracer::~tracer` — translated from include/trompeloeil/mock.hpp:777 -/
def tracer_dtor (this_ : Nat) (chain0 : List Nat) : List Nat := Id.run do
  let mut chain := chain0
  chain := chain.erase this_
  return chain

end Tromp.Cxx
