/-
  Gen/Cxx.lean — REGENERATED from /repo by tools/cxx2lean.py on every check.  Do not edit.
  Each definition is the syntax-directed translation of the C++ function named in its doc comment
  (statement for statement; loops, tests, early exits and their order are those of the source).
  `TrompModel/Tie/*.lean` proves each of them equal to the hand-written model definition.
-/
import TrompModel.Model.CxxBase
namespace Tromp.Cxx

/-- `trompeloeil::find` — translated from include/trompeloeil/mock.hpp:2326 -/
def find {α : Type} (matches_ : α → Bool) (sequence_cost : α → Nat) (list : List α) : Option α := Id.run do
  let mut first_match : Option α := none
  let mut lowest_cost : Nat := topU
  for i in list do
    if matches_ i then
      let cost : Nat := sequence_cost i
      if (cost == 0) then
        return some i
      if (first_match.isNone || (cost < lowest_cost)) then
        first_match := some i
        lowest_cost := cost
  return first_match

/-- `sequence_type::cost` — translated from include/trompeloeil/sequence.hpp:217 -/
def cost {α : Type} [DecidableEq α] (is_satisfied : α → Bool) (m : α) (matchers : List α) : Nat := Id.run do
  let mut sequence_cost : Nat := 0
  for e in matchers do
    if (e == m) then
      return sequence_cost
    if (!is_satisfied e) then
      return topU
    sequence_cost := sequence_cost + 1
  return topU

/-- `sequence_type::retire_until` — translated from include/trompeloeil/sequence.hpp:238 -/
def retire_until {α : Type} [DecidableEq α] (m : α) (matchers0 : List α) : List α := Id.run do
  let mut matchers := matchers0
  let mut pending : Bool := false
  for e in matchers do
    if (e == m) then
      pending := true
      break
  if (!pending) then
    return matchers
  for first in matchers do
    if (first == m) then
      return matchers
    matchers := matchers.tail
  return matchers

/-- `sequence_type::is_completed` — translated from include/trompeloeil/sequence.hpp:189 -/
def is_completed {α : Type} (is_satisfied : α → Bool) (matchers : List α) : Bool := Id.run do
  for matcher in matchers do
    if (!is_satisfied matcher) then
      return false
  return true

/-- `sequence_matchers<N>::order` — translated from include/trompeloeil/sequence.hpp:393 -/
def order {α : Type} (cost_of : α → Nat) (matchers : List α) : Nat := Id.run do
  let mut highest_order : Nat := 0
  for m in matchers do
    let cost : Nat := cost_of m
    if (cost > highest_order) then
      highest_order := cost
  return highest_order

/-- `sequence_type::validate_match` — translated from include/trompeloeil/sequence.hpp:259 -/
def validate_match {α : Type} [DecidableEq α] (is_satisfied is_optional : α → Bool) (matcher : α) (matchers : List α) : Option (List (Tok α)) := Id.run do
  let mut report : Option (List (Tok α)) := none
  if (cost is_satisfied matcher matchers != topU) then
    return report
  if matchers.isEmpty then
    let mut os : List (Tok α) := []
    os := os ++ [Tok.lit "Sequence mismatch for sequence \"", Tok.seqName, Tok.lit "\" with matching call of ", Tok.matchName, Tok.lit " at ", Tok.loc, Tok.lit ". Sequence \"", Tok.seqName, Tok.lit "\" has no more pending expectations\n"]
    report := some os
    return report
  let mut first : Bool := true
  let mut os : List (Tok α) := []
  os := os ++ [Tok.lit "Sequence mismatch for sequence \"", Tok.seqName, Tok.lit "\" with matching call of ", Tok.matchName, Tok.lit " at ", Tok.loc, Tok.lit ".\n"]
  for m in matchers do
    if (first || (!is_optional m)) then
      if first then
        os := os ++ [Tok.lit "Sequence \"", Tok.seqName, Tok.lit "\" has "]
      else
        os := os ++ [Tok.lit "and has "]
      os := os ++ [Tok.expectation m]
      if is_optional m then
        os := os ++ [Tok.lit " first in line\n"]
      else
        os := os ++ [Tok.lit " as first required expectation\n"]
        break
    first := false
  report := some os
  return report

/-- `sequence_type::~sequence_type` — translated from include/trompeloeil/sequence.hpp:313 -/
def seq_dtor {α : Type} (matchers0 retired0 : List α) : Option (Sev × List (Tok α)) × List α × List α := Id.run do
  let mut matchers := matchers0
  let mut retired_matchers := retired0
  let mut report : Option (Sev × List (Tok α)) := none
  let mut touched : Bool := false
  let mut os : List (Tok α) := []
  for m in matchers do
    if (!touched) then
      os := os ++ [Tok.lit "Sequence expectations not met at destruction of sequence object \"", Tok.seqName, Tok.lit "\":"]
      touched := true
    os := os ++ [Tok.lit "\n  missing "]
    os := os ++ [Tok.expectation m]
    matchers := matchers.tail
  retired_matchers := []
  if touched then
    os := os ++ [Tok.lit "\n"]
    report := some (Sev.nonfatal, os)
  return (report, matchers, retired_matchers)

end Tromp.Cxx
