/-
  Tie/Params.lean — tie theorems for parameter matching and the parameter listings of reports (C01, C15):
  `match_parameters` (the `all_true = all_true && param_matches(get<I>(t), get<I>(u))` pack fold), `print_mismatch` (one
  "Expected _N" per rejecting position), `missed_value` / `stream_params` (one "param _N" line per position).
  Regenerated: Gen/Cxx/{MatchParameters,PrintMismatchOne,PrintMismatchAll,MissedValue,StreamParams}.lean.
  A pack expansion inside an initializer list is evaluated for the positions 0 … N-1 in that order; the vocabulary reads
  it as a loop over the positions.
-/
import TrompModel.Gen.Cxx.MatchParameters
import TrompModel.Gen.Cxx.PrintMismatchOne
import TrompModel.Gen.Cxx.PrintMismatchAll
import TrompModel.Gen.Cxx.MissedValue
import TrompModel.Gen.Cxx.StreamParams
import TrompModel.Tie.Base

namespace Tromp.Tie

theorem match_parameters_loop {π : Type} (pm : π → Bool) (l : List π) (b : Bool) :
    runLoop (fun pr (s : Bool) => (ForInStep.yield (s && pm pr) : Id _)) l b = (b && l.all pm) := by
  induction l generalizing b with
  | nil => simp [runLoop]
  | cons x xs ih => simp [runLoop, ih, Id.run, Bool.and_assoc]

/-- `match_parameters`: every position's matcher accepts its argument. -/
theorem match_parameters_eq {π : Type} (pm : π → Bool) (pairs : List π) :
    Cxx.match_parameters pm pairs = pairs.all pm := by
  unfold Cxx.match_parameters
  simp only [Id.run, forIn_eq_runLoop, bind, pure]
  rw [match_parameters_loop]; simp

/-- in the model's terms: `paramsOk` (Model/Algo.lean). -/
theorem match_parameters_tie (ps : List (Int → Bool)) (as : List Int) :
    Cxx.match_parameters (fun (pa : (Int → Bool) × Int) => pa.1 pa.2) (List.zip ps as) = paramsOk ps as := by
  rw [match_parameters_eq]
  induction ps generalizing as with
  | nil => simp [paramsOk]
  | cons p ps ih =>
    cases as with
    | nil => simp [paramsOk]
    | cons a as => simp [paramsOk, ih]

theorem print_mismatch_one_eq (ok : Bool) (num : Nat) (os : List PTok) :
    Cxx.print_mismatch_one ok num os = if ok then os else os ++ [PTok.expected num] := by
  cases ok <;> simp [Cxx.print_mismatch_one, Id.run] <;> rfl

theorem print_mismatch_loop (l : List (Nat × Bool)) (os : List PTok) :
    runLoop (fun pr (s : List PTok) => (ForInStep.yield (Cxx.print_mismatch_one pr.2 pr.1 s) : Id _)) l os =
      os ++ l.filterMap (fun pr => if pr.2 then none else some (PTok.expected pr.1)) := by
  induction l generalizing os with
  | nil => simp [runLoop]
  | cons x xs ih =>
    rw [runLoop]
    simp only [Id.run]
    rw [ih, print_mismatch_one_eq, List.filterMap_cons]
    cases x.2 <;> simp

/-- `print_mismatch`: exactly the rejecting positions are listed, in order, each once. -/
theorem print_mismatch_all_eq (pairs : List (Nat × Bool)) :
    Cxx.print_mismatch_all pairs = pairs.filterMap (fun pr => if pr.2 then none else some (PTok.expected pr.1)) := by
  unfold Cxx.print_mismatch_all
  simp only [Id.run, forIn_eq_runLoop, bind, pure]
  rw [print_mismatch_loop]; simp

/-- position, "does the matcher at this position accept the argument". -/
def posPairs : List (Int → Bool) → List Int → Nat → List (Nat × Bool)
  | p :: ps, a :: as, k => (k, p a) :: posPairs ps as (k + 1)
  | _, _, _ => []

/-- in the model's terms: `failingParams` (Model/Algo.lean) — the `Why.params` of a "Tried" entry. -/
theorem print_mismatch_tie (ps : List (Int → Bool)) (as : List Int) (k : Nat) :
    Cxx.print_mismatch_all (posPairs ps as k) = (failingParams ps as k).map PTok.expected := by
  rw [print_mismatch_all_eq]
  induction ps generalizing as k with
  | nil => simp [posPairs, failingParams]
  | cons p ps ih =>
    cases as with
    | nil => simp [posPairs, failingParams]
    | cons a as =>
      simp only [posPairs, failingParams, List.filterMap_cons]
      cases p a <;> simp [ih]

theorem missed_value_eq (i : Nat) (os : List PTok) : Cxx.missed_value i os = os ++ [PTok.param i] := rfl

/-- `stream_params`: one line per position, in order. -/
theorem stream_params_eq (pairs : List Nat) : Cxx.stream_params pairs = pairs.map PTok.param := by
  unfold Cxx.stream_params
  simp only [Id.run, forIn_eq_runLoop, bind, pure, missed_value_eq]
  have := runLoop_append (fun i : Nat => [PTok.param i]) pairs []
  simp only [List.nil_append, flatMap_single] at this
  exact this

end Tromp.Tie
