/-
  Tie/MockFunc.lean — tie theorem(s) for the regenerated translation Gen/Cxx/MockFunc.lean (tools/cxx2lean.py).
-/
import TrompModel.Gen.Cxx.MockFunc
import TrompModel.Tie.Base

namespace Tromp.Tie
open World

/-- **`mock_func`**: `find`, then either the (no-return) mismatch report or: trace agent created, parameters
    traced *before* `run_actions`, then the return value; an exception from either is traced and re-thrown. -/
theorem mock_func_order (found : Bool) :
    Cxx.mock_func found =
      if found then
        [Act.stmt "find(e.active, param_value)", Act.stmt "trace_agent ta{i->loc, i->name, tracer_obj()}", Act.stmt "try, on any exception: ta.trace_exception(); throw;", Act.stmt "ta.trace_params(param_value)", Act.stmt "i->run_actions(param_value, e.saturated)", Act.stmt "return i->return_value(ta, param_value)"]
      else [Act.stmt "find(e.active, param_value)", Act.stmt "report_mismatch(e.active, e.saturated, func_name + std::string(\" with signature \") + sig_name, param_value)"] := by
  cases found <;> rfl

end Tromp.Tie
