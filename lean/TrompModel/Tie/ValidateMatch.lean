/-
  Tie/ValidateMatch.lean — tie theorems: the regenerated translation (Gen/Cxx) equals the hand-written model definition.
  See tools/cxx2lean.py and DESIGN.md §12.
-/
import TrompModel.Gen.Cxx.ValidateMatch
import TrompModel.Tie.Cost

namespace Tromp.Tie
open World
variable {α : Type}

/-- `World.seqListing` for an arbitrary "is optional" predicate. -/
def listingOf (opt : α → Bool) : List α → Bool → List (α × Bool)
  | [], _ => []
  | m :: ms, first =>
    if first || !opt m then
      if opt m then (m, true) :: listingOf opt ms false
      else [(m, false)]
    else listingOf opt ms false

/-- the text of one listed expectation (sequence.hpp, validate_match). -/
def renderEntry (first : Bool) (e : α × Bool) : List (Tok α) :=
  (if first then [Tok.text, Tok.seqName, Tok.key "has"] else [Tok.key "andHas"]) ++
  [Tok.expectation e.1] ++
  [if e.2 then Tok.key "firstInLine" else Tok.key "firstRequired"]

def renderListing : List (α × Bool) → Bool → List (Tok α)
  | [], _ => []
  | e :: es, first => renderEntry first e ++ renderListing es false

def mismatchHeader : List (Tok α) :=
  [Tok.key "seqMismatch", Tok.seqName, Tok.text, Tok.matchName, Tok.text, Tok.loc, Tok.text]

def noMoreText : List (Tok α) :=
  [Tok.key "seqMismatch", Tok.seqName, Tok.text, Tok.matchName, Tok.text, Tok.loc, Tok.text, Tok.seqName, Tok.key "noMore"]

/-- what `validate_match` reports, in terms of the model's `seqCost` and listing. -/
def renderValidate [DecidableEq α] (sat opt : α → Bool) (o : α) (l : List α) : Option (List (Tok α)) :=
  match seqCost sat o l with
  | some _ => none
  | none =>
    match l with
    | [] => some noMoreText
    | l => some (mismatchHeader ++ renderListing (listingOf opt l true) true)

theorem validate_match_eq [DecidableEq α] (sat opt : α → Bool) (o : α) (l : List α) (hl : l.length < topU) :
    Cxx.validate_match sat opt o l = renderValidate sat opt o l := by
  unfold Cxx.validate_match renderValidate
  simp only [Id.run, forIn_eq_runLoop, bind, pure, cost_eq sat o l hl]
  have key := fun body => runLoop_spec (α := α) body (fun (_ : Bool × List (Tok α)) => True)
    (fun l (st : Bool × List (Tok α)) => st.2 ++ renderListing (listingOf opt l st.1) st.1)
    (fun (st : Bool × List (Tok α)) => st.2)
  generalize hres : runLoop _ l (true, _) = res
  have h := key _ ?_ ?_ l _ res trivial hres
  · cases hc : seqCost sat o l with
    | some k =>
      have : k ≠ topU := by
        have := seqCost_lt_length sat o l k hc
        omega
      simp [Cost.toU, this]
    | none =>
      cases l with
      | nil => simp [Cost.toU, noMoreText]
      | cons a as =>
        simp only [Cost.toU, bne_self_eq_false, Bool.false_eq_true, if_false, List.isEmpty_cons]
        rw [h]; simp [mismatchHeader]
  · intro s _; simp [listingOf, renderListing]
  · rintro a as ⟨first, os⟩ _
    simp only [Id.run]
    cases first <;> cases ho : opt a <;> simp [listingOf, renderListing, renderEntry, ho]

theorem seqListing_eq (w : World) (l : List Owner) (b : Bool) : w.seqListing l b = listingOf w.ownerOptional l b := by
  induction l generalizing b with
  | nil => rfl
  | cons m ms ih => simp only [seqListing, listingOf, ih]

/-- the text of a sequence report of the model. -/
def renderSeqReport : Report → List (Tok Owner)
  | .seqNoMore _ _ => noMoreText
  | .seqMismatch _ _ listed => mismatchHeader ++ renderListing listed true
  | _ => []

/-- **`sequence_type::validate_match` is the model's `validateOne`**: silent exactly when the handle is callable,
    otherwise the "no more pending" text or the listing first-in-line … first required. -/
theorem validate_tie {w : World} (hw : SmallSeqs w) (o : Owner) (s : Nat) (hs : w.seqAlive s = true) :
    Cxx.validate_match w.ownerSat w.ownerOptional o (w.pendingOf s) = (w.validateOne o s).map renderSeqReport := by
  rw [validate_match_eq _ _ _ _ (hw s)]
  unfold renderValidate validateOne handleCost
  simp only [hs, if_true]
  cases seqCost w.ownerSat o (w.pendingOf s) with
  | some k => rfl
  | none =>
    cases hp : w.pendingOf s with
    | nil => rfl
    | cons x xs => simp [renderSeqReport, seqListing_eq]

end Tromp.Tie
