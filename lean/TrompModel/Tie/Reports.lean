/-
  Tie/Reports.lean — tie theorems for: the order in which WITH and SIDE_EFFECT clauses are registered
  (`add_condition`, `add_side_effect`: appended, so they are evaluated in declaration order — C08), the content and
  severity of the end-of-life report (`report_unfulfilled` — C04, C15) and of the forbidden-call report
  (`report_forbidden_call` — C07, C15), and `call_matcher::return_value` (the RETURN handler if one was given, else the
  default — C08).  Regenerated: Gen/Cxx/{AddCondition,AddSideEffect,ReportUnfulfilled,ReportForbiddenCall,ReturnValue}.lean.
-/
import TrompModel.Gen.Cxx.AddCondition
import TrompModel.Gen.Cxx.AddSideEffect
import TrompModel.Gen.Cxx.ReportUnfulfilled
import TrompModel.Gen.Cxx.ReportForbiddenCall
import TrompModel.Gen.Cxx.ReturnValue
import TrompModel.Tie.Base

namespace Tromp.Tie

theorem add_condition_tie {κ : Type} (c : κ) (l : List κ) : Cxx.add_condition c l = l ++ [c] := rfl
theorem add_side_effect_tie {κ : Type} (s : κ) (l : List κ) : Cxx.add_side_effect s l = l ++ [s] := rfl

/-- clauses written `c₁ … cₙ` end up as the list `[c₁, …, cₙ]` — which `match_conditions` / `run_actions` walk front to back. -/
theorem clauses_in_declaration_order {κ : Type} (cs : List κ) :
    cs.foldl (fun l c => Cxx.add_condition c l) [] = cs ∧ cs.foldl (fun l c => Cxx.add_side_effect c l) [] = cs := by
  have h : ∀ (acc : List κ), cs.foldl (fun l c => l ++ [c]) acc = acc ++ cs := by
    induction cs with
    | nil => simp
    | cons c cs ih => intro acc; simp [ih, List.append_assoc]
  exact ⟨by simpa [add_condition_tie] using h [], by simpa [add_side_effect_tie] using h []⟩

/-- the severity, and which of the variable parts the message carries. -/
def carries (r : Sev × List RTok) (t : RTok) : Bool := r.2.contains t

/-- **end-of-life report**: always non-fatal (it comes from a destructor), carrying the reason, the expectation's text,
    its expected parameter values, the required count (`once` for 1) and the actual count (`never` / `once` / n). -/
theorem report_unfulfilled_tie (lo n : Nat) :
    (Cxx.report_unfulfilled lo n).1 = Sev.nonfatal ∧
    carries (Cxx.report_unfulfilled lo n) .reason = true ∧ carries (Cxx.report_unfulfilled lo n) .name = true ∧
    carries (Cxx.report_unfulfilled lo n) .values = true ∧
    carries (Cxx.report_unfulfilled lo n) (if lo = 1 then .minOnce else .minTimes lo) = true ∧
    carries (Cxx.report_unfulfilled lo n) (if n = 0 then .never else if n = 1 then .once else .times n) = true := by
  unfold Cxx.report_unfulfilled carries
  by_cases h1 : lo = 1 <;> by_cases h2 : n = 0 <;> by_cases h3 : n = 1 <;> simp [Id.run, h1, h2, h3, id_pure] <;> omega

/-- **forbidden-call report**: always fatal, carrying the expectation's text, its location and the values handed in
    (`run_actions` hands in `params_string(params)`: the actual arguments). -/
theorem report_forbidden_call_tie :
    Cxx.report_forbidden_call = (Sev.fatal, [RTok.text, RTok.name, RTok.text, RTok.loc, RTok.text, RTok.values]) := rfl

/-- `return_value`: the installed RETURN / THROW handler, or — only when there is none — the default value. -/
theorem return_value_tie {ρ : Type} (has : Bool) (d h : ρ) : Cxx.return_value has d h = if has then h else d := by
  cases has <;> rfl

end Tromp.Tie
