/-
  Tie/SemKillw.lean — meaning of the trace of `~deathwatched` = the model's `killw`.
-/
import TrompModel.Tie.DeathwatchedDtor
import TrompModel.Tie.Base

namespace Tromp.Tie
open World

/-! ### `~deathwatched` -/

def deathAct (x : Nat) : Act → World × List Ev → World × List Ev
  | .on "notify" m => fun s => let r := s.1.notify m; (r.1, s.2 ++ r.2)
  | .stmt "send_report(severity::nonfatal, location(), os.str())" => fun s =>
      (s.1, s.2 ++ [s.1.rep .nonfatal (.unexpectedDestruction x)])
  | _ => id

theorem deathAct_notify (x m : Nat) : deathAct x (.on "notify" m) = fun s => let r := s.1.notify m; (r.1, s.2 ++ r.2) := rfl
theorem deathAct_report (x : Nat) : deathAct x (.stmt "send_report(severity::nonfatal, location(), os.str())") = fun s =>
    (s.1, s.2 ++ [s.1.rep .nonfatal (.unexpectedDestruction x)]) := rfl

/-- **`~deathwatched` = the model's `killw`**: every requirement of the object's chain is notified, newest first;
    exactly when there is none the destruction is reported as unexpected. -/
theorem killw_sem (w : World) (x : Nat) (y : Watched) (hy : w.watched x = some y) (hl : w.legal (.killw x) = true) :
    (Cxx.deathwatched_dtor y.monitors).foldl (fun s a => deathAct x a s)
      ({ w with watched := upd w.watched x { alive := false, monitors := [] } }, []) = w.step (.killw x) := by
  rw [deathwatched_dtor_order]
  unfold World.step
  simp only [hl, Bool.not_true, Bool.false_eq_true, if_false, hy]
  cases hm : y.monitors with
  | nil => simp [deathAct_report, World.rep]
  | cons a as =>
    simp only [List.isEmpty_cons, Bool.false_eq_true, if_false]
    generalize (a :: as) = l
    generalize ({ w with watched := upd w.watched x { alive := false, monitors := [] } } : World) = w0
    suffices h : ∀ (w1 : World) (evs : List Ev),
        (l.map (Act.on "notify")).foldl (fun s a => deathAct x a s) (w1, evs) =
          l.foldl (fun (acc : World × List Ev) m => let (w1, e1) := acc.1.notify m; (w1, acc.2 ++ e1)) (w1, evs) from h w0 []
    induction l with
    | nil => intro w1 evs; rfl
    | cons m ms ih => intro w1 evs; simp only [List.map_cons, List.foldl_cons, deathAct_notify]; exact ih _ _

end Tromp.Tie
