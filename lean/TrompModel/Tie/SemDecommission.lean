/-
  Tie/SemDecommission.lean — meaning of the trace of `call_matcher_list::decommission` = the model's `decommission`.
-/
import TrompModel.Tie.Decommission
import TrompModel.Tie.MockDestroyed
import TrompModel.Tie.ReportMissed
import TrompModel.Tie.SemRunActions

namespace Tromp.Tie
open World

/-! ### `decommission` (mock destroyed with expectations still placed on it) -/

def decomAct : Act → World × List Ev → World × List Ev
  | .on "mock_destroyed" e => fun s =>
      match s.1.exps e with
      | some x => if isUnfulfilled x then reportMissed Report.pendingDestroyed e s else s
      | none => s
  | .on "unlink" e => fun s =>
      match s.1.exps e with | some x => (s.1.setExp e { x with link := .unlinked }, s.2) | none => s
  | _ => id

theorem decomAct_md (e : Nat) : decomAct (.on "mock_destroyed" e) = fun s =>
    match s.1.exps e with
    | some x => if isUnfulfilled x then reportMissed Report.pendingDestroyed e s else s
    | none => s := rfl
theorem decomAct_unlink (e : Nat) : decomAct (.on "unlink" e) = fun s =>
    match s.1.exps e with | some x => (s.1.setExp e { x with link := .unlinked }, s.2) | none => s := rfl

/-- **`call_matcher_list::decommission` = the model's `decommission`** (per element: report if unfulfilled, unlink). -/
theorem decommission_sem (w : World) (l : List Nat) (evs : List Ev) :
    (Cxx.decommission l).foldl (fun s a => decomAct a s) (w, evs) = l.foldl decomStep (w, evs) := by
  rw [decommission_order]
  induction l generalizing w evs with
  | nil => rfl
  | cons e es ih =>
    simp only [List.flatMap_cons, List.foldl_append, List.foldl_cons, List.foldl_nil, decomAct_md, decomAct_unlink]
    rw [← ih]
    congr 1
    unfold decomStep
    cases hx : w.exps e with
    | none => simp [hx]
    | some x =>
      by_cases hu : isUnfulfilled x = true
      · simp [hu, reportMissed, hx, setExp_setExp]
      · simp [hu, hx]

end Tromp.Tie
