/-
  Tie/HandlerIncrementCall.lean — tie theorem(s) for the regenerated translation Gen/Cxx/HandlerIncrementCall.lean (tools/cxx2lean.py).
-/
import TrompModel.Gen.Cxx.HandlerIncrementCall
import TrompModel.Tie.Base

namespace Tromp.Tie
open World

theorem increment_call_tie (n : Nat) : Cxx.increment_call n = n + 1 := by
  simp [Cxx.increment_call, Id.run, id_pure]

end Tromp.Tie
