/-
  Tie/HandlerIsSaturated.lean — tie theorem(s) for the regenerated translation Gen/Cxx/HandlerIsSaturated.lean (tools/cxx2lean.py).
-/
import TrompModel.Gen.Cxx.HandlerIsSaturated
import TrompModel.Tie.Base

namespace Tromp.Tie
open World

theorem is_saturated_tie (x : Exp) : Cxx.is_saturated x.lo x.hi x.count = (x.count == x.hi) := by
  simp [Cxx.is_saturated, Id.run, id_pure]

end Tromp.Tie
