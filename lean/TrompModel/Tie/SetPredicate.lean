/-
  Tie/SetPredicate.lean — the pack folds of any_of / all_of / none_of (matcher/set_predicate.hpp), regenerated from /repo,
  are the model's `foldAny` / `foldAll` (Model/Matcher.lean) over the operands, in operand order, with the same initial value.
-/
import TrompModel.Gen.Cxx.AnyOfCheck
import TrompModel.Gen.Cxx.AllOfCheck
import TrompModel.Gen.Cxx.NoneOfCheck
import TrompModel.Model.Matcher
import TrompModel.Tie.Base

namespace Tromp.Tie
open Tromp.Matcher

theorem foldAny_loop (orc : List Bool) (x : Val) (ms : List Mt) (acc : Bool) :
    runLoop (fun m (b : Bool) => (ForInStep.yield (b || eval orc m x) : Id _)) ms acc = foldAny orc acc ms x := by
  induction ms generalizing acc with
  | nil => simp [runLoop, foldAny]
  | cons m ms ih => simp [runLoop, foldAny, ih, Id.run]

theorem foldAll_loop (orc : List Bool) (x : Val) (ms : List Mt) (acc : Bool) :
    runLoop (fun m (b : Bool) => (ForInStep.yield (b && eval orc m x) : Id _)) ms acc = foldAll orc acc ms x := by
  induction ms generalizing acc with
  | nil => simp [runLoop, foldAll]
  | cons m ms ih => simp [runLoop, foldAll, ih, Id.run]

/-- **`any_of_checker` = the model's `anyOf`.** -/
theorem any_of_eq (orc : List Bool) (ms : List Mt) (x : Val) :
    Cxx.any_of_check (fun m => eval orc m x) ms = eval orc (.anyOf ms) x := by
  unfold Cxx.any_of_check
  simp only [Id.run, forIn_eq_runLoop, bind, pure, foldAny_loop]
  simp [eval]

/-- **`all_of_checker` = the model's `allOf`.** -/
theorem all_of_eq (orc : List Bool) (ms : List Mt) (x : Val) :
    Cxx.all_of_check (fun m => eval orc m x) ms = eval orc (.allOf ms) x := by
  unfold Cxx.all_of_check
  simp only [Id.run, forIn_eq_runLoop, bind, pure, foldAll_loop]
  simp [eval]

/-- **`none_of_checker` = the model's `noneOf`.** -/
theorem none_of_eq (orc : List Bool) (ms : List Mt) (x : Val) :
    Cxx.none_of_check (fun m => eval orc m x) ms = eval orc (.noneOf ms) x := by
  unfold Cxx.none_of_check
  simp only [Id.run, forIn_eq_runLoop, bind, pure, foldAny_loop]
  simp [eval]

end Tromp.Tie
