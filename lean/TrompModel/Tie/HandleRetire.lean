/-
  Tie/HandleRetire.lean — tie theorem(s) for the regenerated translation Gen/Cxx/HandleRetire.lean (tools/cxx2lean.py).
-/
import TrompModel.Gen.Cxx.HandleRetire
import TrompModel.Tie.Base

namespace Tromp.Tie
open World

theorem handle_retire_order (att : Bool) :
    Cxx.handle_retire att = [Act.stmt "this->unlink()"] ++ (if att then [Act.stmt "seq->add_retired(this)"] else []) := by
  cases att <;> rfl

end Tromp.Tie
