/-
  Tie/RangeLoops.lean — the four first-fit loops of matcher/range.hpp (range_includes / range_is_permutation, element
  and container flavour), regenerated from /repo, compute the model's `includesG` / `isPermG` (Model/Range.lean), about
  which Props/C11.lean proves the Subperm / Perm characterisations.
-/
import TrompModel.Gen.Cxx.IncludesElements
import TrompModel.Gen.Cxx.IncludesRange
import TrompModel.Gen.Cxx.IsPermutationElements
import TrompModel.Gen.Cxx.IsPermutationRange
import TrompModel.Model.Range
import TrompModel.Tie.Base

namespace Tromp.Tie
open Tromp.Range

/-- `*found = std::move(v.back()); v.pop_back();` is the model's swap-with-last removal. -/
theorem assign_pop_eq_swapRemove {β : Type} (v : List β) (i : Nat) :
    (assignFromBack v (some i)).dropLast = swapRemove v i := by
  unfold assignFromBack swapRemove
  cases h : v.getLast? with
  | none =>
    have : v = [] := by simpa using h
    subst this; rfl
  | some l => rfl

/-- copying the elements into the matcher vector one by one keeps them and their order. -/
theorem push_back_all {μ : Type} (es acc : List μ) :
    runLoop (fun element (ms : List μ) => (ForInStep.yield (ms ++ [element]) : Id _)) es acc = acc ++ es := by
  induction es generalizing acc with
  | nil => simp [runLoop]
  | cons e es ih => simp [runLoop, ih, Id.run]

/-- **`includes_elements_checker` = `includesG`.** -/
theorem includes_elements_eq {α μ : Type} (accepts : μ → α → Bool) (range : List α) (elements : List μ) :
    Cxx.includes_elements accepts range elements = includesG accepts elements range := by
  unfold Cxx.includes_elements
  simp only [Id.run, forIn_eq_runLoop, bind, pure]
  induction range generalizing elements with
  | nil => simp [runLoop, includesG]
  | cons x xs ih =>
    simp only [runLoop, includesG, Id.run]
    cases hf : elements.findIdx? (fun m => accepts m x) with
    | none => simpa [hf] using ih elements
    | some i => simpa [hf, assign_pop_eq_swapRemove] using ih (swapRemove elements i)

/-- **`includes_range_checker` = `includesG`** (the container flavour copies the elements into the matcher vector first). -/
theorem includes_range_eq {α μ : Type} (accepts : μ → α → Bool) (range : List α) (elements : List μ) :
    Cxx.includes_range accepts range elements = includesG accepts elements range := by
  unfold Cxx.includes_range
  simp only [Id.run, forIn_eq_runLoop, bind, pure, push_back_all, List.nil_append]
  have := includes_elements_eq accepts range elements
  unfold Cxx.includes_elements at this
  simpa only [Id.run, forIn_eq_runLoop, bind, pure] using this

/-- **`is_permutation_elements_checker` = `isPermG`**: a member no remaining matcher accepts ends the walk and the answer
    is `false`; otherwise both the range and the matcher vector must be exhausted. -/
theorem is_permutation_elements_eq {α μ : Type} (accepts : μ → α → Bool) (range : List α) (elements : List μ) :
    Cxx.is_permutation_elements accepts range elements = isPermG accepts elements range := by
  unfold Cxx.is_permutation_elements
  simp only [Id.run, forIn_eq_runLoop, bind, pure]
  induction range generalizing elements with
  | nil => simp [runLoop, isPermG]
  | cons x xs ih =>
    simp only [runLoop, isPermG, Id.run]
    cases hf : elements.findIdx? (fun m => accepts m x) with
    | none => simp [hf]
    | some i => simpa [hf, assign_pop_eq_swapRemove] using ih (swapRemove elements i)

/-- **`is_permutation_range_checker` = `isPermG`.** -/
theorem is_permutation_range_eq {α μ : Type} (accepts : μ → α → Bool) (range : List α) (elements : List μ) :
    Cxx.is_permutation_range accepts range elements = isPermG accepts elements range := by
  unfold Cxx.is_permutation_range
  simp only [Id.run, forIn_eq_runLoop, bind, pure, push_back_all, List.nil_append]
  have := is_permutation_elements_eq accepts range elements
  unfold Cxx.is_permutation_elements at this
  simpa only [Id.run, forIn_eq_runLoop, bind, pure] using this

end Tromp.Tie
