/-
  Tie/ReturnPath.lean — the RETURN path (C08): `return_handler_t::call` hands the RETURN functor to
  `trace_return<Ret>(agent, func, params)`, which evaluates `func(params)` exactly once — for a void function as a plain
  statement, for a value-returning one as the argument of `agent.trace_return(…)`, which prints it (if a tracer is
  installed, Tie/Trace.lean) and forwards it.  Regenerated: Gen/Cxx/{ReturnHandlerCall,TraceReturnVoid,TraceReturnValue}.lean.
-/
import TrompModel.Gen.Cxx.ReturnHandlerCall
import TrompModel.Gen.Cxx.TraceReturnVoid
import TrompModel.Gen.Cxx.TraceReturnValue
import TrompModel.Gen.Cxx.ThrowHandlerCall
import TrompModel.Tie.Base

namespace Tromp.Tie

/-- how often the statement evaluates the RETURN functor. -/
def evaluations : Act → Nat
  | .stmt "func(params)" => 1
  | .stmt "return agent.trace_return(func(params))" => 1
  | _ => 0

theorem return_path_tie :
    Cxx.return_handler_call = [Act.stmt "return trace_return<Ret>(agent, func, params)"] ∧
    Cxx.trace_return_void = [Act.stmt "func(params)"] ∧
    Cxx.trace_return_value = [Act.stmt "try, on any exception: throw;", Act.stmt "return agent.trace_return(func(params))"] :=
  ⟨rfl, rfl, rfl⟩

/-- **the RETURN expression is evaluated exactly once per accepted call**, with or without a tracer. -/
theorem return_evaluated_once :
    (Cxx.trace_return_void.map evaluations).sum = 1 ∧ (Cxx.trace_return_value.map evaluations).sum = 1 := by
  constructor <;> rfl

/-- **the THROW path**: `throw_handler_t::operator()` evaluates the THROW functor `h(p)` — whose body is the `throw` statement
    of the clause — once, inside a handler that rethrows whatever leaves it; were the functor to come back, `abort()` follows:
    the call never returns normally through a THROW clause, and nothing stands between the exception and the caller
    but `mock_func`'s tracing handler, which rethrows it as well (`Tie/MockFunc.lean`). -/
theorem throw_path_tie :
    Cxx.throw_handler_call = [Act.stmt "try, on any exception: throw;", Act.stmt "h(p)", Act.stmt "abort()"] := rfl

theorem throw_evaluated_once : (Cxx.throw_handler_call.filter (· == Act.stmt "h(p)")).length = 1 := by decide

end Tromp.Tie
