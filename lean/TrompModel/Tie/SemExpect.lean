/-
  Tie/SemExpect.lean — the meaning of an expectation statement: what `RT_TIMES` / `TIMES` (`runtime_times::action`,
  `set_limits`), `IN_SEQUENCE` (the `sequence_matcher` constructor's `seq->add_last(this)`) and the final
  `make_expectation` (`hook_last`) — all regenerated from /repo — do is the `expect` step of `Model/World.lean`:
  an inverted RT_TIMES registers nothing; otherwise the bounds are (L, H), the expectation is the new **front** of its
  function's active list, and it is the new **last** step of each sequence it names.
-/
import TrompModel.Tie.Slots
import TrompModel.Tie.NoMatch
import TrompModel.Lemmas.Call

namespace Tromp.Tie
open World

theorem register_pendingOf (w : World) (o : Owner) (ss : List Nat) (hnd : ss.Nodup) {s : Nat} (hs : s ∈ ss)
    (halive : (w.seqs s).isSome = true) :
    (w.register o ss).pendingOf s = w.pendingOf s ++ [o] := by
  unfold register
  induction ss generalizing w with
  | nil => cases hs
  | cons t ss ih =>
    simp only [List.foldl_cons]
    have hnd' := List.nodup_cons.mp hnd
    by_cases e : s = t
    · subst e
      rw [foldl_setSeqPending_pendingOf_not_mem _ _ _ hnd'.1]
      cases hq : w.seqs s with
      | none => rw [hq] at halive; cases halive
      | some q => simp [pendingOf, setSeqPending, hq, upd]
    · have hm : s ∈ ss := by
        rcases List.mem_cons.mp hs with c | c
        · exact absurd c e
        · exact c
      have hal : ((w.setSeqPending t (fun l => l ++ [o])).seqs s).isSome = true := by
        unfold setSeqPending
        cases w.seqs t with
        | none => exact halive
        | some q => simp [upd, e, halive]
      rw [ih _ hnd'.2 hm hal, setSeqPending_pendingOf_other _ _ e]

/-- **the expectation statement.**  For a legal `expect e x`:
    * `RT_TIMES(lo, hi)` with `hi < lo`: the translated `runtime_times::action` answers "logic_error", the step reports
      `threwLogic`, and no list and no sequence of the world has changed;
    * otherwise the translated actions give the bounds `(lo, hi)`, the function's active list afterwards is the translated
      `hook_last` applied to the list before, and every named sequence's pending list is the translated `add_last` applied
      to the list before. -/
theorem expect_sem (w : World) (e : Nat) (x : ExpectSpec) (m : Mock) (hl : w.legal (.expect e x) = true)
    (hm : w.mocks x.obj = some m) :
    let r := w.step (.expect e x)
    (x.rt = true ∧ x.hi < x.lo →
        Cxx.runtime_times x.lo x.hi (1, 1) = none ∧ r.2 = [Ev.threwLogic] ∧ r.1.mocks = w.mocks ∧ r.1.seqs = w.seqs ∧ r.1.exps = w.exps) ∧
    (¬ (x.rt = true ∧ x.hi < x.lo) →
        (x.rt = true → Cxx.runtime_times x.lo x.hi (1, 1) = some (x.lo, x.hi)) ∧
        Cxx.set_limits x.lo x.hi (1, 1) = (x.lo, x.hi) ∧
        (r.1.exps e).map (fun y => (y.lo, y.hi, y.count)) = some (x.lo, x.hi, 0) ∧
        (r.1.mocks x.obj).map (fun m' => m'.active x.fn) = some (Cxx.hook_last e (m.active x.fn)) ∧
        (∀ s ∈ x.seqs, r.1.pendingOf s = Cxx.add_last (Owner.exp e) (w.pendingOf s))) := by
  intro r
  have hleg : (!w.legal (.expect e x)) = false := by simp [hl]
  simp only [World.legal, Bool.and_eq_true, decide_eq_true_eq, List.all_eq_true] at hl
  obtain ⟨⟨⟨⟨⟨⟨_, _⟩, _⟩, hseqs⟩, hnd⟩, _⟩, _⟩ := hl
  constructor
  · rintro ⟨hrt, hinv⟩
    have hc : (x.rt && decide (x.hi < x.lo)) = true := by simp [hrt, hinv]
    refine ⟨by rw [runtime_times_tie]; simp [hinv], ?_⟩
    simp [r, World.step, hleg, hc]
  · intro hno
    have hc : (x.rt && decide (x.hi < x.lo)) = false := by
      cases hr : x.rt
      · simp
      · simp only [Bool.true_and, decide_eq_false_iff_not]; intro h; exact hno ⟨hr, h⟩
    have hstep : r = (((({ w with nextE := e + 1 } : World).register (.exp e) x.seqs).setExp e
          { obj := x.obj, fn := x.fn, params := x.params, conds := x.conds, effects := x.effects, ret := x.ret,
            lo := x.lo, hi := x.hi, seqs := x.seqs }).setMock x.obj
          { m with active := fun g => if g = x.fn then e :: m.active g else m.active g }, []) := by
      simp only [r, World.step, hleg, Bool.false_eq_true, if_false, hc, hm]
    refine ⟨fun hrt => ?_, set_limits_tie _ _ _, ?_, ?_, ?_⟩
    · rw [runtime_times_tie]
      have : ¬ x.hi < x.lo := fun h => hno ⟨hrt, h⟩
      simp [this]
    · rw [hstep]; simp [setMock, setExp, upd]
    · rw [hstep]; simp [hook_last_tie, setMock, upd]
    · intro s hs
      rw [hstep, add_last_tie]
      have hal : ((({ w with nextE := e + 1 } : World)).seqs s).isSome = true := by
        have := hseqs s hs
        simp only [seqAlive] at this
        show (w.seqs s).isSome = true
        cases hq : w.seqs s with
        | none => rw [hq] at this; cases this
        | some q => rfl
      have := register_pendingOf ({ w with nextE := e + 1 } : World) (.exp e) x.seqs (by simpa using hnd) hs hal
      simpa [pendingOf] using this

end Tromp.Tie
