/-
  Tie/CallMatcherDtor.lean — tie theorem(s) for the regenerated translation Gen/Cxx/CallMatcherDtor.lean (tools/cxx2lean.py).
-/
import TrompModel.Gen.Cxx.CallMatcherDtor
import TrompModel.Tie.Base

namespace Tromp.Tie
open World

theorem call_matcher_dtor_order (u : Bool) :
    Cxx.call_matcher_dtor u =
      (if u then [Act.stmt "report_missed(\"Unfulfilled expectation\")"] else []) ++ [Act.stmt "this->unlink()", Act.stmt "sequences.reset()"] := by
  cases u <;> rfl

end Tromp.Tie
