/-
  Tie/Compare.lean — eq / ne / lt / le / gt / ge and plain values, from the C++ text to the model's `eval`.

  The chain a comparison matcher goes through when a call is matched:
    `param_matches_impl(t, u, matcher const*)`  (mock.hpp)            →  `t.matches(u.get())`
    `predicate_matcher::matches_`               (matcher.hpp)         →  `Predicate::operator()(v, stored value)`
    the functor of `TROMPELOEIL_MK_PRED_BINOP`  (matcher/compare.hpp) →  `x op y`
  and the table of which matcher function hands which functor (and which printer) to `make_matcher`.  All four are regenerated from
  /repo on every run; the theorems below compose them into the model's clause `eval (.cmp op v) x = cmpVal op x v` — the argument
  is the LEFT operand — and the plain-value path `param_matches_impl(t, u, void const*)` into `eval (.val v) x`.
-/
import TrompModel.Gen.Cxx.CompareTable
import TrompModel.Gen.Cxx.ParamMatchesMatcher
import TrompModel.Gen.Cxx.ParamMatchesValue
import TrompModel.Gen.Cxx.PredicateMatches
import TrompModel.Gen.Cxx.MemberIsCheck
import TrompModel.Gen.Cxx.AnyPredicate
import TrompModel.Model.Matcher
import TrompModel.Tie.Base

namespace Tromp.Tie
open Tromp.Matcher

/-- the meaning of the operator tokens that occur in the table, on integers. -/
def opSem : String → Int → Int → Bool
  | "==" => fun x y => x == y
  | "!=" => fun x y => x != y
  | "<" => fun x y => decide (x < y)
  | "<=" => fun x y => decide (x ≤ y)
  | ">" => fun x y => decide (x > y)
  | ">=" => fun x y => decide (x ≥ y)
  | _ => fun _ _ => false

def cmpName : Cmp → String
  | .eq => "eq" | .ne => "ne" | .lt => "lt" | .le => "le" | .gt => "gt" | .ge => "ge"

/-- the operator the C++ gives the matcher function `name`. -/
def opOf (name : String) : Option String := (Cxx.compare_table.find? (fun r => r.1 == name)).map (fun r => r.2.2.1)

/-- **the table of compare.hpp**: each of the six matcher functions uses the functor with its own operator, and the printer that
    prints that same operator. -/
theorem compare_table_tie :
    Cxx.compare_table.map (fun r => (r.1, r.2.2.1, r.2.2.2.2)) =
      [("eq", "==", " == "), ("ne", "!=", " != "), ("ge", ">=", " >= "), ("gt", ">", " > "), ("lt", "<", " < "), ("le", "<=", " <= ")] := by
  decide

theorem opOf_cmp (op : Cmp) : ∃ t, opOf (cmpName op) = some t ∧ ∀ x v : Int, opSem t x v = cmpVal op (.int x) (.int v) := by
  cases op
  · exact ⟨"==", by decide, fun x v => rfl⟩
  · exact ⟨"!=", by decide, fun x v => rfl⟩
  · exact ⟨"<", by decide, fun x v => rfl⟩
  · exact ⟨"<=", by decide, fun x v => rfl⟩
  · exact ⟨">", by decide, fun x v => rfl⟩
  · exact ⟨">=", by decide, fun x v => rfl⟩

/-- **a comparison matcher accepts exactly `x op v`, argument on the left**: the three translated layers composed, for the
    operator the table gives the matcher. -/
theorem compare_matcher_tie (op : Cmp) (x v : Int) :
    ∃ t, opOf (cmpName op) = some t ∧
      Cxx.param_matches_matcher (fun (stored : Int) (arg : Int) => Cxx.predicate_matches (Cxx.pred_binop (opSem t)) arg stored) v x =
        eval [] (.cmp op (.int v)) (.int x) := by
  obtain ⟨t, ht, hs⟩ := opOf_cmp op
  refine ⟨t, ht, ?_⟩
  simp only [Cxx.param_matches_matcher, Cxx.predicate_matches, Cxx.pred_binop, Id.run, id_pure, eval]
  exact hs x v

/-- `param_matches_impl(t, u, matcher const*)` hands the argument to the matcher and returns its verdict. -/
theorem param_matches_matcher_tie {τ υ : Type} (m : τ → υ → Bool) (t : τ) (u : υ) : Cxx.param_matches_matcher m t u = m t u := rfl

/-- **a plain value accepts exactly the arguments equal to it** (`param_matches_impl(t, u, void const*)`: one `==`, nothing else —
    no test in front of it, no special case for null). -/
theorem param_matches_value_tie (orc : List Bool) (v x : Val) :
    Cxx.param_matches_value (fun (t u : Val) => u == t) v x = eval orc (.val v) x := by
  simp [Cxx.param_matches_value, Id.run, id_pure, eval]

/-- **`MEMBER_IS(&T::m, c)` accepts exactly when `c` accepts the member**: the functor hands `c` and the member of the argument
    to `param_matches`, nothing else. -/
theorem member_is_tie (orc : List Bool) (f : Nat) (m : Mt) (x : Val) :
    Cxx.member_is_check (fun (c : Mt) (member : Val) => eval orc c member) m (field f x) = eval orc (.member f m) x := by
  simp [Cxx.member_is_check, Id.run, id_pure, eval]

/-- **`_` / `ANY(T)` accept everything.** -/
theorem any_predicate_tie (orc : List Bool) (x : Val) : Cxx.any_predicate = eval orc .any x := by
  simp [Cxx.any_predicate, Id.run, id_pure, eval]

end Tromp.Tie
