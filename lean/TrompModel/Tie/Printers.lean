/-
  Tie/Printers.lean — the printers of the matchers that hold user-supplied expected values (C18: "formatting any argument or
  EXPECTED VALUE for a report … null pointers print as nullptr"; finding F15).  For every `*_printer` of matcher/range.hpp and
  matcher/set_predicate.hpp the translator records how each thing it writes besides string literals and the separator reaches
  the stream (Gen/Cxx/{RangePrinters,SetPredicatePrinters}.lean).  Every held value goes through `trompeloeil::print` — the
  function of Tie/PrintDispatch.lean and Tie/IsNull.lean: null test first, "nullptr" under a sentry, everything else structurally —
  or through `print_expectation`, which calls it; none is streamed raw.
-/
import TrompModel.Gen.Cxx.RangePrinters
import TrompModel.Gen.Cxx.SetPredicatePrinters
import TrompModel.Gen.Cxx.MemberIsPrinter
import TrompModel.Tie.Base

namespace Tromp.Tie

def viaPrint (u : String × String) : Bool := u.1 == "print" || u.1 == "print_expectation"

/-- **no printer streams a held value raw**, and every printer writes at least one held value (the tables are not empty rows). -/
theorem expected_values_go_through_print :
    (Cxx.range_printers ++ Cxx.set_predicate_printers).all (fun p => p.2.all viaPrint && !p.2.isEmpty) = true := by decide

/-- the printers the statement is about: all thirteen range printers and the three combinator printers. -/
theorem printers_covered :
    Cxx.range_printers.map (·.1) =
      ["is_elements_printer", "is_range_printer", "is_permutation_elements_printer", "is_permutation_range_printer",
       "includes_elements_printer", "includes_range_printer", "range_all_of_printer", "range_none_of_printer",
       "range_any_of_printer", "starts_with_elements_printer", "starts_with_range_printer", "ends_with_printer",
       "ends_with_range_printer"] ∧
    Cxx.set_predicate_printers.map (·.1) = ["any_of_printer", "none_of_printer", "all_of_printer"] := by
  constructor <;> decide

/-- `MEMBER_IS(member, value)`: the member's name (a string literal made by the macro) is streamed, the held value goes through
    `trompeloeil::print` (finding F16). -/
theorem member_is_value_goes_through_print :
    Cxx.member_is_printer.map (fun p => (p.1, p.2.map (·.1))) = [("match_member_is", ["raw", "print"])] := by decide

end Tromp.Tie
