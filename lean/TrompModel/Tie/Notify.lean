/-
  Tie/Notify.lean — tie theorem(s) for the regenerated translation Gen/Cxx/Notify.lean (tools/cxx2lean.py).
-/
import TrompModel.Gen.Cxx.Notify
import TrompModel.Tie.Base

namespace Tromp.Tie
open World

/-- **`lifetime_monitor::notify`**: died, then the (non-fatal) sequence validation against the state *before* the
    sequences move, then count, predecessors retired, own handles retired — the order of the model's `notify`. -/
theorem notify_order :
    Cxx.notify = [Act.stmt "died = true", Act.stmt "sequences->validate(severity::nonfatal, call_name, loc)", Act.stmt "sequences->increment_call()", Act.stmt "sequences->retire_predecessors()", Act.stmt "sequences->retire()"] := rfl

end Tromp.Tie
