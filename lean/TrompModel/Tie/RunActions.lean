/-
  Tie/RunActions.lean — tie theorem(s) for the regenerated translation Gen/Cxx/RunActions.lean (tools/cxx2lean.py).
-/
import TrompModel.Gen.Cxx.RunActions
import TrompModel.Tie.Base

namespace Tromp.Tie
open World

/-- the order the model's `runActions`/`bookkeep` implements (Model/World.lean). -/
def runActionsOrder (forbidden callable saturates : Bool) (actions : List Nat) : List Act :=
  if forbidden then [Act.stmt "reported = true", Act.stmt "report_forbidden_call(name, loc, params_string(params))"]
  else if !callable then [Act.stmt "sequences->validate(severity::fatal, name, loc)"]
  else [Act.stmt "send_ok_report(name)", Act.stmt "sequences->increment_call()", Act.stmt "sequences->retire_predecessors()"] ++
       (if saturates then [Act.stmt "sequences->retire()", Act.stmt "this->unlink()", Act.stmt "saturated_list.push_back(this)"] else []) ++
       actions.map (Act.on "action")

/-- **`call_matcher::run_actions`**: a forbidden match is flagged and reported before anything else; an
    out-of-sequence match is reported before the OK report and before any counter moves; otherwise OK report,
    count, predecessors retired, (on saturation) own handles retired / unlinked / appended to the saturated list,
    and only then the side effects in declaration order. -/
theorem run_actions_order (forbidden callable saturates : Bool) (actions : List Nat) :
    Cxx.run_actions forbidden callable saturates actions = runActionsOrder forbidden callable saturates actions := by
  unfold Cxx.run_actions runActionsOrder
  simp only [Id.run, forIn_eq_runLoop, bind, pure]
  have h := fun acc => runLoop_append (fun a : Nat => [Act.on "action" a]) actions acc
  cases forbidden <;> cases callable <;> cases saturates <;> simp [h, flatMap_single]

end Tromp.Tie
