/-
  Tie/DeathwatchedDtor.lean — tie theorem(s) for the regenerated translation Gen/Cxx/DeathwatchedDtor.lean (tools/cxx2lean.py).
-/
import TrompModel.Gen.Cxx.DeathwatchedDtor
import TrompModel.Tie.Base

namespace Tromp.Tie
open World

/-- `~deathwatched`: every requirement of the chain is notified, newest first; the "Unexpected destruction" report
    is sent iff there is none. -/
theorem deathwatched_dtor_order (chain : List Nat) :
    Cxx.deathwatched_dtor chain =
      if chain.isEmpty then [Act.stmt "send_report(severity::nonfatal, location(), os.str())"] else chain.map (Act.on "notify") := by
  unfold Cxx.deathwatched_dtor
  simp only [Id.run, forIn_eq_runLoop, bind, pure]
  have h := runLoop_append (fun m : Nat => [Act.on "notify" m]) chain []
  cases chain with
  | nil => rfl
  | cons a as =>
    simp only [List.nil_append] at h
    simp only [List.isEmpty_cons, Bool.false_eq_true, if_false, Bool.not_false, if_true]
    rw [h]; simp [flatMap_single]

end Tromp.Tie
