/-
  Tie/Cost.lean — tie theorems: the regenerated translation (Gen/Cxx) equals the hand-written model definition.
  See tools/cxx2lean.py and DESIGN.md §12.
-/
import TrompModel.Gen.Cxx.Cost
import TrompModel.Tie.Base

namespace Tromp.Tie
open World
variable {α : Type}

theorem cost_eq {α : Type} [DecidableEq α] (sat : α → Bool) (m : α) (l : List α) (hl : l.length < topU) :
    Cxx.cost sat m l = (seqCost sat m l).toU := by
  unfold Cxx.cost seqCost
  simp only [Id.run, forIn_eq_runLoop, bind, pure]
  have key := fun body => runLoop_spec_list (α := α) body
    (fun l (st : Option Nat × Nat) => st.1 = none ∧ st.2 + l.length < topU)
    (fun l (st : Option Nat × Nat) => (seqCostGo sat m st.2 l).toU)
    (fun (st : Option Nat × Nat) => match st.1 with | some r => r | none => topU)
  generalize hres : runLoop _ l (none, 0) = res
  have h := key _ ?_ ?_ l (none, 0) res ⟨rfl, by simpa using hl⟩ hres
  · revert h; rcases res with ⟨_ | r, k⟩ <;> simp
  · rintro ⟨r, k⟩ ⟨hr, _⟩
    simp only at hr; subst hr
    simp [seqCostGo, Cost.toU]
  · rintro a as ⟨r, k⟩ ⟨hr, hk⟩
    simp only at hr hk; subst hr
    simp only [Id.run, seqCostGo]
    by_cases ha : a = m
    · simp [ha, Cost.toU]
    · by_cases hs : sat a = true
      · simp [ha, hs]; simp at hk; omega
      · simp [ha, hs, Cost.toU]

/-- `sequence_matcher::cost()` on a live sequence is the model's `handleCost`. -/
theorem cost_tie {w : World} (hw : SmallSeqs w) (o : Owner) (s : Nat) (hs : w.seqAlive s = true) :
    Cxx.cost w.ownerSat o (w.pendingOf s) = (w.handleCost o s).toU := by
  rw [cost_eq _ _ _ (hw s)]; simp [handleCost, hs]

end Tromp.Tie
