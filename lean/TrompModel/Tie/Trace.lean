/-
  Tie/Trace.lean — tie theorems for the trace record of one call (C17): `trace_agent`'s constructor, destructor,
  `trace_params`, `trace_return`, `trace_exception`.  Regenerated: Gen/Cxx/{TraceAgentCtor,TraceAgentDtor,TraceParams,
  TraceReturn,TraceException}.lean.  `mock_func` (Tie/MockFunc.lean: `mock_func_order`) fixes the order in which it
  calls them; here: what each contributes, and that nothing is collected or sent unless a tracer is installed.
-/
import TrompModel.Gen.Cxx.TraceAgentCtor
import TrompModel.Gen.Cxx.TraceAgentDtor
import TrompModel.Gen.Cxx.TraceParams
import TrompModel.Gen.Cxx.TraceReturn
import TrompModel.Gen.Cxx.TraceException
import TrompModel.Gen.Cxx.StreamTracerTrace
import TrompModel.Tie.Base

namespace Tromp.Tie

theorem trace_agent_ctor_tie (t : Bool) : Cxx.trace_agent_ctor t = if t then [TTok.name] else [] := by
  cases t <;> rfl
theorem trace_agent_dtor_tie (t : Bool) : Cxx.trace_agent_dtor t = t := by cases t <;> rfl
theorem trace_params_tie (t : Bool) (os : List TTok) : Cxx.trace_params t os = if t then os ++ [TTok.params] else os := by
  cases t <;> rfl
theorem trace_return_tie (t : Bool) (os : List TTok) : Cxx.trace_return t os = if t then os ++ [TTok.result] else os := by
  cases t <;> rfl
theorem trace_exception_tie (t isStd : Bool) (os : List TTok) :
    Cxx.trace_exception t isStd os =
      if t then os ++ [if isStd then TTok.stdException else TTok.unknownException] else os := by
  cases t <;> cases isStd <;> rfl

/-- how a call ended, as far as the trace is concerned. -/
inductive CallEnd | returned | threwStd | threwOther
  deriving DecidableEq

/-- the record `mock_func` builds (constructor, `trace_params`, then `trace_return` or `trace_exception`) and whether
    the destructor sends it. -/
def traceRecord (t : Bool) (e : CallEnd) : List TTok × Bool :=
  let os := Cxx.trace_params t (Cxx.trace_agent_ctor t)
  let os := match e with
    | .returned => Cxx.trace_return t os
    | .threwStd => Cxx.trace_exception t true os
    | .threwOther => Cxx.trace_exception t false os
  (os, Cxx.trace_agent_dtor t)

/-- **C17.**  With a tracer: exactly one record, made of the call's text, every actual argument, and the result or the
    exception kind — and it is sent.  Without: nothing is collected and nothing is sent. -/
theorem trace_record_tie (t : Bool) (e : CallEnd) :
    traceRecord t e =
      if t then ([TTok.name, TTok.params,
                  match e with | .returned => TTok.result | .threwStd => TTok.stdException | .threwOther => TTok.unknownException], true)
      else ([], false) := by
  cases t <;> cases e <;> rfl

/-- the shipped `stream_tracer` writes one record as: the location, a newline, the text `trace_agent` built, a newline —
    nothing added, nothing left out, one write per record. -/
theorem stream_tracer_record : Cxx.stream_tracer_trace = ["location{file, line}", "newline", "call", "newline"] := rfl

end Tromp.Tie
