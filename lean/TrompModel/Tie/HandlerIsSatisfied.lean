/-
  Tie/HandlerIsSatisfied.lean — tie theorem(s) for the regenerated translation Gen/Cxx/HandlerIsSatisfied.lean (tools/cxx2lean.py).
-/
import TrompModel.Gen.Cxx.HandlerIsSatisfied
import TrompModel.Tie.Base

namespace Tromp.Tie
open World

theorem is_satisfied_tie (x : Exp) : Cxx.is_satisfied x.lo x.hi x.count = decide (x.lo ≤ x.count) := by
  simp [Cxx.is_satisfied, Id.run, id_pure]

end Tromp.Tie
