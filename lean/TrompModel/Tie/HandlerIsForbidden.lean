/-
  Tie/HandlerIsForbidden.lean — tie theorem(s) for the regenerated translation Gen/Cxx/HandlerIsForbidden.lean (tools/cxx2lean.py).
-/
import TrompModel.Gen.Cxx.HandlerIsForbidden
import TrompModel.Tie.Base

namespace Tromp.Tie
open World

theorem is_forbidden_tie (x : Exp) : Cxx.is_forbidden x.lo x.hi x.count = (x.hi == 0) := by
  simp [Cxx.is_forbidden, Id.run, id_pure]

end Tromp.Tie
