/-
  Tie/SemReleasemon.lean — meaning of the trace of `~lifetime_monitor` = the model's `releasemon`.
-/
import TrompModel.Tie.LifetimeMonitorDtor
import TrompModel.Tie.SemRunActions

namespace Tromp.Tie
open World

/-! ### `~lifetime_monitor` -/

/-- **`~lifetime_monitor` = the model's `releasemon`**: a requirement whose object is still alive reports once and
    leaves the object's chain (the others stay, in order); in either case it leaves its sequences. -/
theorem releasemon_sem (w : World) (m : Nat) (x : Mon) (y : Watched) (hx : w.mons m = some x)
    (hy : w.watched x.target = some y) (hn : y.monitors.Nodup) (hl : w.legal (.releasemon m) = true) :
    (let r := Cxx.lifetime_monitor_dtor x.died m y.monitors
     let evs := if r.1.contains (.stmt "send_report(severity::nonfatal, loc, os.str())") then [w.rep .nonfatal (.stillAlive m)] else []
     let w1 : World := { w with watched := upd w.watched x.target { y with monitors := r.2 } }
     let w2 := if r.1.contains (.stmt "sequences.reset()") then w1.retireOwn (.mon m) x.seqs else w1
     (({ w2 with mons := upd w2.mons m { x with alive := false } } : World), evs)) = w.step (.releasemon m) := by
  rw [lifetime_monitor_dtor_order]
  unfold World.step
  simp only [hl, Bool.not_true, Bool.false_eq_true, if_false, hx]
  cases hd : x.died with
  | true =>
    have hw : ({ w with watched := upd w.watched x.target { y with monitors := y.monitors } } : World) = w := by
      cases w; simp only [World.mk.injEq, true_and]
      refine ⟨?_, trivial⟩ <;> first | rfl | skip
      all_goals (funext i; simp only [upd]; split <;> simp_all)
    simp [hw]
  | false =>
    have herase : y.monitors.erase m = y.monitors.filter (· ≠ m) := by
      rw [hn.erase_eq_filter]; congr 1; funext k; by_cases hk : k = m <;> simp [hk]
    simp [hy, herase]

end Tromp.Tie
