/-
  Tie/AllValidate.lean — tie theorem(s) for the regenerated translation Gen/Cxx/AllValidate.lean (tools/cxx2lean.py).
-/
import TrompModel.Gen.Cxx.AllValidate
import TrompModel.Tie.Base

namespace Tromp.Tie
open World

/-- every handle, in `IN_SEQUENCE` argument order, none skipped (the model's folds over `x.seqs`). -/
theorem all_validate_order (hs : List Nat) : Cxx.all_validate hs = hs.map (fun e => Act.on "validate_match" e) := by
  unfold Cxx.all_validate
  simp only [Id.run, forIn_eq_runLoop, bind, pure]
  have h := runLoop_append (fun e : Nat => [Act.on "validate_match" e]) hs []
  rw [List.nil_append] at h
  rw [h]; simp [flatMap_single]

end Tromp.Tie
