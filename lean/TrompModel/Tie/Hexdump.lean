/-
  Tie/Hexdump.lean — the regenerated translation of `trompeloeil::hexdump` (every stream insertion and manipulator, in
  order), read through a small model of the stream, writes exactly the text of the model's `Print.hexdump`
  (size, "-byte object={", a newline iff more than 8 bytes, two zero-filled hex digits per byte after " 0x", a newline
  after every 16th byte, " }").
-/
import TrompModel.Gen.Cxx.Hexdump
import TrompModel.Model.Print
import TrompModel.Tie.Base

namespace Tromp.Tie
open Tromp.Print

/-- the stream state `hexdump` plays with (under its sentry). -/
structure HS where
  fill0 : Bool := false
  hex : Bool := false
  w2 : Bool := false
  right : Bool := false
  deriving DecidableEq

/-- one insertion: text written and new state.  A width is consumed by the next output; anything the dump does not do
    (a literal while a width is pending, a byte without `hex`/`setfill('0')`/`setw(2)`/`right`, the size in hex) renders
    as `?`, so that such a change cannot equal the model text. -/
def runH (acc : String × HS) : HTok → String × HS
  | .sentry => (acc.1, {})
  | .num n => (acc.1 ++ (if acc.2.hex || acc.2.w2 then "?" else toString n), acc.2)
  | .lit t => (acc.1 ++ (if acc.2.w2 then "?" else t), { acc.2 with w2 := false })
  | .setfill0 => (acc.1, { acc.2 with fill0 := true })
  | .hex => (acc.1, { acc.2 with hex := true })
  | .setw2 => (acc.1, { acc.2 with w2 := true })
  | .right => (acc.1, { acc.2 with right := true })
  | .byte b => (acc.1 ++ (if acc.2.hex && acc.2.fill0 && acc.2.w2 && acc.2.right
                          then String.ofList [hexDigit (b / 16), hexDigit (b % 16)] else "?"), { acc.2 with w2 := false })

def renderH (toks : List HTok) : String := (toks.foldl runH ("", {})).1

theorem hexBytes_append_str (s : String) (bs : List Nat) (k : Nat) (st : HS) (h1 : st.fill0 = true) (h2 : st.hex = true) (h3 : st.w2 = false) :
    ∀ (toks : List HTok),
      toks = (bs.zipIdx k).flatMap (fun p => [HTok.lit " 0x", .setw2, .right, .byte p.1] ++ (if p.2 % 16 = 15 then [HTok.lit "\n"] else [])) →
      ∃ st', (toks.foldl runH (s, st)) = (s ++ hexBytes bs k, st') ∧ st'.fill0 = true ∧ st'.hex = true ∧ st'.w2 = false := by
  induction bs generalizing s k st with
  | nil => intro toks ht; subst ht; exact ⟨st, by simp [hexBytes], h1, h2, h3⟩
  | cons b bs ih =>
    intro toks ht
    subst ht
    simp only [List.zipIdx_cons, List.flatMap_cons, List.foldl_append, List.foldl_cons, List.foldl_nil, runH, h1, h2, h3,
      Bool.false_eq_true, if_false, Bool.and_self, if_true]
    by_cases hk : k % 16 = 15
    · simp only [hk, if_true, List.foldl_cons, List.foldl_nil, runH, Bool.false_eq_true, if_false]
      obtain ⟨st', h, r⟩ := ih (s ++ " 0x" ++ String.ofList [hexDigit (b / 16), hexDigit (b % 16)] ++ "\n") (k + 1)
        { fill0 := true, hex := true, w2 := false, right := true } rfl rfl rfl _ rfl
      refine ⟨st', ?_, r⟩
      rw [h]; simp [hexBytes, hexByte, hk, String.append_assoc]
    · simp only [hk, if_false, List.foldl_nil]
      obtain ⟨st', h, r⟩ := ih (s ++ " 0x" ++ String.ofList [hexDigit (b / 16), hexDigit (b % 16)]) (k + 1)
        { fill0 := true, hex := true, w2 := false, right := true } rfl rfl rfl _ rfl
      refine ⟨st', ?_, r⟩
      rw [h]; simp [hexBytes, hexByte, hk, String.append_assoc]

/-- **`trompeloeil::hexdump` writes the model's hex dump**, for objects of any size. -/
theorem hexdump_eq (bytes : List Nat) : renderH (Cxx.hexdump bytes bytes.length) = Print.hexdump bytes := by
  unfold Cxx.hexdump renderH
  simp only [Id.run, forIn_eq_runLoop, bind, pure]
  -- the loop appends, per byte, its four insertions and a newline after every 16th
  have hloop : ∀ (bs : List Nat) (k : Nat) (acc : List HTok),
      runLoop (fun byte (st : List HTok × Nat) =>
          (if (st.2 &&& 15) == 15 then
            ForInStep.yield (st.1 ++ [HTok.lit " 0x", HTok.setw2, HTok.right, HTok.byte byte] ++ [HTok.lit "\n"], st.2 + 1)
          else ForInStep.yield (st.1 ++ [HTok.lit " 0x", HTok.setw2, HTok.right, HTok.byte byte], st.2 + 1) : Id _)) bs (acc, k) =
        (acc ++ (bs.zipIdx k).flatMap (fun p => [HTok.lit " 0x", .setw2, .right, .byte p.1] ++ (if p.2 % 16 = 15 then [HTok.lit "\n"] else [])),
         k + bs.length) := by
    intro bs
    induction bs with
    | nil => intro k acc; simp [runLoop]
    | cons b bs ih =>
      intro k acc
      have hand : (k &&& 15) = k % 16 := by simpa using Nat.and_two_pow_sub_one_eq_mod k 4
      simp only [runLoop, Id.run, hand]
      by_cases hk : k % 16 = 15
      · simp only [hk, beq_self_eq_true, if_true]
        rw [ih]; simp [List.zipIdx_cons, hk, List.append_assoc]; omega
      · have : (k % 16 == 15) = false := by simp [hk]
        simp only [this, Bool.false_eq_true, if_false]
        rw [ih]; simp [List.zipIdx_cons, hk, List.append_assoc]; omega
  unfold Print.hexdump
  by_cases h8 : bytes.length > 8
  · simp only [h8, if_true, hloop, List.foldl_append, List.foldl_cons, List.foldl_nil, runH, List.nil_append,
      Bool.false_eq_true, Bool.or_self, if_false]
    obtain ⟨st', h, _, _, hw⟩ := hexBytes_append_str ("" ++ toString bytes.length ++ "-byte object={" ++ "\n") bytes 0
      { fill0 := true, hex := true } rfl rfl rfl _ rfl
    rw [h]
    simp [hw, String.append_assoc]
  · simp only [h8, if_false, hloop, List.foldl_append, List.foldl_cons, List.foldl_nil, runH, List.nil_append,
      Bool.false_eq_true, Bool.or_self]
    obtain ⟨st', h, _, _, hw⟩ := hexBytes_append_str ("" ++ toString bytes.length ++ "-byte object={") bytes 0
      { fill0 := true, hex := true } rfl rfl rfl _ rfl
    rw [h]
    simp [hw, String.append_assoc]

end Tromp.Tie
