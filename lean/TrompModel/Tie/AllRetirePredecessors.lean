/-
  Tie/AllRetirePredecessors.lean — tie theorem(s) for the regenerated translation Gen/Cxx/AllRetirePredecessors.lean (tools/cxx2lean.py).
-/
import TrompModel.Gen.Cxx.AllRetirePredecessors
import TrompModel.Tie.Base

namespace Tromp.Tie
open World

theorem all_retire_predecessors_order (hs : List Nat) :
    Cxx.all_retire_predecessors hs = hs.map (fun e => Act.on "retire_predecessors" e) := by
  unfold Cxx.all_retire_predecessors
  simp only [Id.run, forIn_eq_runLoop, bind, pure]
  have h := runLoop_append (fun e : Nat => [Act.on "retire_predecessors" e]) hs []
  rw [List.nil_append] at h
  rw [h]; simp [flatMap_single]

end Tromp.Tie
