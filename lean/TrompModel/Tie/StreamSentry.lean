/-
  Tie/StreamSentry.lean — `stream_sentry`: what the constructor's member-initialiser list and the destructor body (both
  regenerated from /repo) do to the stream state of the Print model: the constructor saves width, flags and fill and
  establishes `sentrySt` (width 0, dec | left, fill ' '); the destructor puts back exactly what was saved, whatever
  happened in between — unconditionally.
-/
import TrompModel.Gen.Cxx.StreamSentryCtor
import TrompModel.Gen.Cxx.StreamSentryDtor
import TrompModel.Model.Print
import TrompModel.Tie.Base

namespace Tromp.Tie
open Tromp.Print

/-- what the sentry remembers. -/
structure Saved where
  width : Nat := 0
  base : Base := .none
  adjust : Adjust := .none
  extra : Nat := 0
  fill : Char := ' '

/-- one member initialiser: `os.width(0)` returns the old width and sets 0, and so on. -/
def ctorStep (acc : St × Saved) : String × String → St × Saved
  | ("width", "os.width(0)") => ({ acc.1 with width := 0 }, { acc.2 with width := acc.1.width })
  | ("flags", "os.flags(std::ios_base::dec | std::ios_base::left)") =>
      ({ acc.1 with base := .dec, adjust := .left, extra := 0 },
       { acc.2 with base := acc.1.base, adjust := acc.1.adjust, extra := acc.1.extra })
  | ("fill", "os.fill(' ')") => ({ acc.1 with fill := ' ' }, { acc.2 with fill := acc.1.fill })
  | _ => acc

def dtorStep (saved : Saved) (st : St) : Act → St
  | .stmt "os.flags(flags)" => { st with base := saved.base, adjust := saved.adjust, extra := saved.extra }
  | .stmt "os.fill(fill)" => { st with fill := saved.fill }
  | .stmt "os.width(width)" => { st with width := saved.width }
  | _ => st

/-- **the sentry establishes the default formatting state and remembers the caller's.** -/
theorem sentry_ctor_establishes (st : St) :
    Cxx.stream_sentry_ctor.foldl ctorStep (st, {}) =
      (sentrySt, { width := st.width, base := st.base, adjust := st.adjust, extra := st.extra, fill := st.fill }) := by
  cases st; rfl

/-- **the sentry's destructor restores width, flags and fill exactly, whatever the guarded code did to the stream.** -/
theorem sentry_dtor_restores (st during : St) :
    Cxx.stream_sentry_dtor.foldl (dtorStep (Cxx.stream_sentry_ctor.foldl ctorStep (st, {})).2) during = st := by
  rw [sentry_ctor_establishes]
  cases st; cases during; rfl

theorem stream_sentry_dtor_order :
    Cxx.stream_sentry_dtor = [Act.stmt "os.flags(flags)", Act.stmt "os.fill(fill)", Act.stmt "os.width(width)"] := rfl

end Tromp.Tie
