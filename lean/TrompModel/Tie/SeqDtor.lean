/-
  Tie/SeqDtor.lean — tie theorems: the regenerated translation (Gen/Cxx) equals the hand-written model definition.
  See tools/cxx2lean.py and DESIGN.md §12.
-/
import TrompModel.Gen.Cxx.SeqDtor
import TrompModel.Tie.Base

namespace Tromp.Tie
open World
variable {α : Type}

def teardownHeader : List (Tok α) :=
  [Tok.key "teardown", Tok.seqName, Tok.text]

/-- the text of the sequence-teardown report: every pending handle, in list order. -/
def teardownText (l : List α) : List (Tok α) :=
  teardownHeader ++ l.flatMap (fun m => [Tok.key "missing", Tok.expectation m]) ++ [Tok.text]

theorem seq_dtor_eq (l r : List α) :
    Cxx.seq_dtor l r = (if l.isEmpty then none else some (Sev.nonfatal, teardownText l), [], []) := by
  unfold Cxx.seq_dtor
  simp only [Id.run, forIn_eq_runLoop, bind, pure]
  have key := fun body => runLoop_spec_list (α := α) body
    (fun l (st : List α × Bool × List (Tok α)) => st.1 = l)
    (fun l (st : List α × Bool × List (Tok α)) =>
      (([] : List α), (st.2.1 || !l.isEmpty),
        st.2.2 ++ (if !st.2.1 && !l.isEmpty then teardownHeader else []) ++
          l.flatMap (fun m => [Tok.key "missing", Tok.expectation m])))
    (fun (st : List α × Bool × List (Tok α)) => st)
  generalize hres : runLoop _ l (l, false, []) = res
  have h := key _ ?_ ?_ l _ res rfl hres
  · subst h
    cases l with
    | nil => simp
    | cons a as => simp [teardownText]
  · rintro ⟨k, t, os⟩ hk
    simp only at hk; subst hk; simp
  · rintro a as ⟨k, t, os⟩ hk
    simp only at hk; subst hk
    simp only [Id.run]
    cases t <;> cases as <;> simp [teardownHeader]

/-- `~sequence_type` reports what the model's `killseq` reports — nothing for an empty list, else one non-fatal
    report listing every pending handle in order — and leaves both lists empty. -/
theorem teardown_tie (pending retired : List Owner) :
    Cxx.seq_dtor pending retired =
      (if pending.isEmpty then none else some (Sev.nonfatal, teardownText pending), [], []) := seq_dtor_eq _ _

end Tromp.Tie
