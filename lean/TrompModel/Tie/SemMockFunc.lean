/-
  Tie/SemMockFunc.lean — the meaning of the whole call path: the statement trace of `trompeloeil::mock_func`
  (regenerated, Tie/MockFunc.lean), read with the regenerated `trompeloeil::find`, the regenerated free and member
  `report_mismatch` and the regenerated `call_matcher::run_actions`, produces exactly the world of the model's
  `World.callFn` — for every world with sequences shorter than 2^32 − 1, every object, function and argument list.

  How each statement of `mock_func` is read:
    `find(e.active, param_value)`        — selects `i` = `Cxx.find` over the active list (no state change)
    `report_mismatch(e.active, e.saturated, …)` (when `!i`) — every expectation the translated report lists as "Tried" has
                                           its member `report_mismatch` called, which sets `reported`
                                           (`report_mismatch_member_eq`); the reporter then throws
    `i->run_actions(param_value, e.saturated)` — the translated statement trace of `run_actions` on `i` (`runActs`)
    trace agent, `trace_params`, `return_value` — no bookkeeping state
-/
import TrompModel.Tie.MockFunc
import TrompModel.Tie.Find
import TrompModel.Tie.NoMatch
import TrompModel.Tie.SemRunActions

namespace Tromp.Tie
open World

set_option maxRecDepth 20000

/-- member `report_mismatch` on expectation `e`: `reported = true` (first component of `report_mismatch_member_eq`). -/
def markOne (w : World) (e : Nat) : World :=
  match w.exps e with | some x => w.setExp e { x with reported := true } | none => w

theorem markReported_eq_foldl (w : World) (es : List Nat) : w.markReported es = es.foldl markOne w := rfl

/-- one statement of `mock_func` on the world; `i` is what `find` returned. -/
def mockFuncAct (o f : Nat) (a : Args) (m : Mock) (i : Option Nat) (fx : List Nat) : Act → World → World
  | .stmt "report_mismatch(e.active, e.saturated, func_name + std::string(\" with signature \") + sig_name, param_value)" => fun w =>
      (triedListed (Cxx.report_mismatch_free (w.expMatches a) (m.active f) (m.saturated f))).foldl markOne w
  | .stmt "i->run_actions(param_value, e.saturated)" => fun w =>
      match i with
      | some e =>
        (match w.exps e with
         | some x => runActs o f e (Cxx.run_actions (x.hi == 0) (w.order (.exp e) x.seqs).isSome (x.count + 1 == x.hi) fx) w
         | none => w)
      | none => w
  | _ => id

section
variable (o f : Nat) (a : Args) (m : Mock) (i : Option Nat) (fx : List Nat)
theorem mfa_find : mockFuncAct o f a m i fx (.stmt "find(e.active, param_value)") = id := rfl
theorem mfa_report : mockFuncAct o f a m i fx
    (.stmt "report_mismatch(e.active, e.saturated, func_name + std::string(\" with signature \") + sig_name, param_value)") = fun w =>
      (triedListed (Cxx.report_mismatch_free (w.expMatches a) (m.active f) (m.saturated f))).foldl markOne w := rfl
theorem mfa_agent : mockFuncAct o f a m i fx (.stmt "trace_agent ta{i->loc, i->name, tracer_obj()}") = id := rfl
theorem mfa_try : mockFuncAct o f a m i fx (.stmt "try, on any exception: ta.trace_exception(); throw;") = id := rfl
theorem mfa_params : mockFuncAct o f a m i fx (.stmt "ta.trace_params(param_value)") = id := rfl
theorem mfa_run : mockFuncAct o f a m i fx (.stmt "i->run_actions(param_value, e.saturated)") = fun w =>
      match i with
      | some e =>
        (match w.exps e with
         | some x => runActs o f e (Cxx.run_actions (x.hi == 0) (w.order (.exp e) x.seqs).isSome (x.count + 1 == x.hi) fx) w
         | none => w)
      | none => w := rfl
theorem mfa_ret : mockFuncAct o f a m i fx (.stmt "return i->return_value(ta, param_value)") = id := rfl
end

/-- **the call path, state.**  Interpreting the translated `mock_func` — with the translated `find` choosing the
    expectation — gives the world of `World.callFn`. -/
theorem mock_func_sem (w : World) (hw : SmallSeqs w) (o f : Nat) (a : Args) (m : Mock) (fx : List Nat)
    (hm : w.mocks o = some m) (hex : ∀ e ∈ m.active f, ∃ x, w.exps e = some x) :
    let i := Cxx.find (w.expMatches a) (fun e => (w.expOrder e).toU) (m.active f)
    (Cxx.mock_func i.isSome).foldl (fun w' act => mockFuncAct o f a m i fx act w') w = (w.callFn o f a).1 := by
  intro i
  have hi : i = (find (w.expMatches a) w.expOrder (m.active f)).1 := find_tie hw a (m.active f)
  rw [mock_func_order]
  unfold callFn
  simp only [hm]
  rw [show find (w.expMatches a) w.expOrder (m.active f) =
    ((find (w.expMatches a) w.expOrder (m.active f)).1, (find (w.expMatches a) w.expOrder (m.active f)).2) from rfl]
  cases hf : (find (w.expMatches a) w.expOrder (m.active f)).1 with
  | none =>
    have : i = none := by rw [hi, hf]
    simp only [this, Option.isSome_none, Bool.false_eq_true, if_false, List.foldl_cons, List.foldl_nil, mfa_find, mfa_report, id]
    -- the free report_mismatch: the "Tried" listing marks exactly what `World.reportMismatch` marks
    have tie := (report_mismatch_free_tie w m f a).2
    rw [tie]
    unfold reportMismatch
    by_cases hE : ((m.saturated f).filter (w.expMatches a)).isEmpty = true
    · simp only [hE, if_true, markReported_eq_foldl]
    · simp only [hE, Bool.false_eq_true, if_false, List.foldl_nil]
  | some e =>
    have : i = some e := by rw [hi, hf]
    obtain ⟨x, hx⟩ := hex e (find_some_mem hf).1
    simp only [this, Option.isSome_some, if_true, List.foldl_cons, List.foldl_nil, mfa_find, mfa_agent, mfa_try, mfa_params, mfa_run,
      mfa_ret, id, hx]
    exact run_actions_sem w o f e x m a fx hx hm

end Tromp.Tie
