/-
  Tie/Routing.lean — where reports go (C15, C16) and what the compile-time TIMES does (C03): statement traces regenerated
  from mock.hpp (Gen/Cxx/{SendReport,SendOkReport,ReporterSend,ReporterSendOk,TimesAction}.lean).
-/
import TrompModel.Gen.Cxx.SendReport
import TrompModel.Gen.Cxx.SendOkReport
import TrompModel.Gen.Cxx.ReporterSend
import TrompModel.Gen.Cxx.ReporterSendOk
import TrompModel.Gen.Cxx.TimesAction
import TrompModel.Tie.Base

namespace Tromp.Tie

/-- a violation report goes, with its severity, location and text unchanged, to whatever `reporter_obj()` holds **now**
    (no cached copy): `send_report` → `reporter<T>::send` → `reporter_obj()(s, file, line, msg)`. -/
theorem send_report_route :
    Cxx.send_report = [Act.stmt "REPORTER_SEND(s, loc.file, loc.line, msg.c_str())"] ∧
    Cxx.reporter_send = [Act.stmt "reporter_obj()(s, file, line, msg)"] := ⟨rfl, rfl⟩

/-- an OK report goes to whatever `ok_reporter_obj()` holds **now**: `send_ok_report` → `reporter<T>::sendOk` →
    `ok_reporter_obj()(msg)` — the slot `set_reporter` exchanges (Tie/Slots.lean). -/
theorem send_ok_report_route :
    Cxx.send_ok_report = [Act.stmt "REPORTER_SEND_OK(msg.c_str())"] ∧
    Cxx.reporter_send_ok = [Act.stmt "ok_reporter_obj()(msg)"] := ⟨rfl, rfl⟩

/-- `TIMES(L, H)` / `AT_LEAST` / `AT_MOST`: after the compile-time checks, the limits are set to exactly the template
    arguments — unconditionally (no "unchanged from the default, skip" shortcut). -/
theorem times_action_tie : Cxx.times_action = [Act.stmt "m.matcher->sequences->set_limits(L, H)"] := rfl

end Tromp.Tie
