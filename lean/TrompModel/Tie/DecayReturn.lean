/-
  Tie/DecayReturn.lean — what a RETURN / LR_RETURN expression becomes on its way out of the clause lambda
  (`return ::trompeloeil::decay_return_type(__VA_ARGS__);` at the end of `TROMPELOEIL_RETURN_`).

  The overload set of `decay_return_type` is regenerated from /repo as a table (Gen/Cxx/DecayReturnType.lean: enable_if
  condition, return type, parameters, body).  `T&&` is a forwarding reference, so for an lvalue expression of type `U` (const or
  not) `T = U&`, `T&& = U&` and the FIRST overload is the only viable one: it returns `T&& = U&`, i.e. the very object the
  expression names — what C08 ("for reference returns, that very object") and C09 ("a reference returned from a parameter aliases
  the caller's object") state; for an rvalue the second overload returns a value; an array decays to a pointer to its first
  element.  Neither condition mentions constness: a const lvalue is an lvalue.
-/
import TrompModel.Gen.Cxx.DecayReturnType
import TrompModel.Tie.Base

namespace Tromp.Tie

/-- value category of the RETURN expression, as far as the overload set distinguishes. -/
inductive RetCat | lvalue (isConst : Bool) | rvalue | array | none
  deriving DecidableEq, Repr

/-- what the caller-side `return_handler` receives. -/
inductive RetKind | sameObject | value | pointerToFirst | nothing
  deriving DecidableEq, Repr

/-- the selection the standard's rules make among the rows of the table (by the text of the row's condition / parameter). -/
def rowFor : RetCat → String × String
  | .lvalue _ => ("std::is_lvalue_reference<T&&>::value", "T&& t")
  | .rvalue => ("std::is_rvalue_reference<T&&>::value", "T&& t")
  | .array => ("", "T (&t)[N]")
  | .none => ("", "")

/-- the meaning of a row's return type. -/
def kindOfRet : String → Option RetKind
  | "T&&" => some .sameObject        -- selected only for lvalues: `T&&` collapses to an lvalue reference
  | "T" => some .value
  | "T*" => some .pointerToFirst
  | "void" => some .nothing
  | _ => none

def decayKind (c : RetCat) : Option RetKind :=
  (Cxx.decay_return_type_overloads.find? (fun r => (r.1, r.2.2.1) == rowFor c)).bind (fun r => kindOfRet r.2.1)

/-- **the overload set is the four-row table**: an lvalue (its condition does not ask about `const`) is forwarded as `T&&`, an
    rvalue is returned by value, an array as pointer, nothing as `void`; every row's body only forwards its parameter. -/
theorem decay_return_table_tie :
    Cxx.decay_return_type_overloads =
      [("std::is_lvalue_reference<T&&>::value", "T&&", "T&& t", "return std::forward<T>(t)"),
       ("std::is_rvalue_reference<T&&>::value", "T", "T&& t", "return std::forward<T>(t)"),
       ("", "T*", "T (&t)[N]", "return t"),
       ("", "void", "", "")] := by decide

/-- **an lvalue RETURN expression — const or not — leaves the clause as that very object.** -/
theorem lvalue_return_is_same_object (isConst : Bool) : decayKind (.lvalue isConst) = some .sameObject := by
  cases isConst <;> decide

theorem rvalue_return_is_value : decayKind .rvalue = some .value := by decide
theorem array_return_is_pointer : decayKind .array = some .pointerToFirst := by decide

end Tromp.Tie
