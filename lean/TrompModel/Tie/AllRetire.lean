/-
  Tie/AllRetire.lean — tie theorem(s) for the regenerated translation Gen/Cxx/AllRetire.lean (tools/cxx2lean.py).
-/
import TrompModel.Gen.Cxx.AllRetire
import TrompModel.Tie.Base

namespace Tromp.Tie
open World

theorem all_retire_order (hs : List Nat) : Cxx.all_retire hs = hs.map (fun e => Act.on "retire" e) := by
  unfold Cxx.all_retire
  simp only [Id.run, forIn_eq_runLoop, bind, pure]
  have h := runLoop_append (fun e : Nat => [Act.on "retire" e]) hs []
  rw [List.nil_append] at h
  rw [h]; simp [flatMap_single]

end Tromp.Tie
