/-
  Tie/ReportMissed.lean — tie theorem(s) for the regenerated translation Gen/Cxx/ReportMissed.lean (tools/cxx2lean.py).
-/
import TrompModel.Gen.Cxx.ReportMissed
import TrompModel.Tie.Base

namespace Tromp.Tie
open World

theorem report_missed_order :
    Cxx.report_missed = [Act.stmt "reported = true", Act.stmt "report_unfulfilled(reason, name, params_string(val), sequences->get_min_calls(), sequences->get_calls(), loc)"] := rfl

end Tromp.Tie
