/-
  Tie/Ring.lean — tie theorems for the intrusive ring: the regenerated translations of `list_elem<T>::unlink`,
  `~list_elem`, `operator=(list_elem&&)`, `is_linked`, `list<T,Disposer>::push_front`, `push_back`, `begin`, `end`,
  `iterator::operator++` and `~list` (Gen/Cxx/Ring*.lean) equal the hand-written definitions of `Model/Ring.lean`,
  about which `Lemmas/Ring.lean` and `Props/C14_Ring.lean` prove that they implement lists.
  See tools/cxx2lean.py, tools/cxxvocab.py (section "the intrusive ring") and DESIGN.md §12.
-/
import TrompModel.Gen.Cxx.RingUnlink
import TrompModel.Gen.Cxx.RingElemDtor
import TrompModel.Gen.Cxx.RingMoveAssign
import TrompModel.Gen.Cxx.RingPushFront
import TrompModel.Gen.Cxx.RingPushBack
import TrompModel.Gen.Cxx.RingBegin
import TrompModel.Gen.Cxx.RingEnd
import TrompModel.Gen.Cxx.RingIterIncr
import TrompModel.Gen.Cxx.RingIsLinked
import TrompModel.Gen.Cxx.RingListDtor
import TrompModel.Tie.Loops

namespace Tromp.Tie
open Tromp.Ring

theorem ring_unlink_tie (this : Ptr) (h : Heap Ptr) : Cxx.ring_unlink this h = unlink this h := rfl

theorem ring_elem_dtor_tie (this : Ptr) (h : Heap Ptr) : Cxx.ring_elem_dtor this h = unlink this h := rfl

theorem ring_push_front_tie (hd t : Ptr) (h : Heap Ptr) : Cxx.ring_push_front hd t h = pushFront hd t h := rfl

theorem ring_push_back_tie (hd t : Ptr) (h : Heap Ptr) : Cxx.ring_push_back hd t h = pushBack hd t h := rfl

theorem ring_move_assign_tie (this r : Ptr) (h : Heap Ptr) : Cxx.ring_move_assign this r h = moveAssign this r h := by
  unfold Cxx.ring_move_assign moveAssign
  by_cases e : this = r
  · simp [e, Id.run]; rfl
  · simp [e, Id.run, ring_unlink_tie]; rfl

theorem ring_begin_tie (hd : Ptr) (h : Heap Ptr) : Cxx.ring_begin hd h = h.next hd := rfl
theorem ring_end_tie (hd : Ptr) (h : Heap Ptr) : Cxx.ring_end hd h = hd := rfl
theorem ring_iter_incr_tie (p : Ptr) (h : Heap Ptr) : Cxx.ring_iter_incr p h = h.next p := rfl
theorem ring_is_linked_tie (x : Ptr) (h : Heap Ptr) : Cxx.ring_is_linked x h = isLinked x h := rfl

/-- the loop of `~list()` — fetch the element, advance the iterator, *then* destroy the element — is `disposeLoop`. -/
theorem ring_list_dtor_tie (hd : Ptr) (fuel : Nat) (h : Heap Ptr) :
    Cxx.ring_list_dtor hd fuel h = disposeLoop hd fuel (h.next hd) h := by
  unfold Cxx.ring_list_dtor
  simp only [Id.run, forIn_eq_runLoop, bind, pure, ring_begin_tie, ring_end_tie, ring_iter_incr_tie, ring_unlink_tie]
  generalize h.next hd = i
  induction fuel generalizing i h with
  | zero => simp [runLoop, disposeLoop]
  | succ n ih =>
    rw [List.replicate_succ, runLoop, disposeLoop]
    dsimp only
    by_cases e : i = hd
    · subst e; simp [Id.run]
    · have c : ¬ (!i != hd) = true := by simp [e]
      simp only [c, e, ↓reduceIte]; exact ih _ _

/-- `~list()` as a whole: the loop, then the base-class destructor `~list_elem()` of the list object itself. -/
theorem ring_list_dtor_whole (hd : Ptr) (fuel : Nat) (h : Heap Ptr) :
    Cxx.ring_elem_dtor hd (Cxx.ring_list_dtor hd fuel h) = listDtor hd fuel h := by
  rw [ring_elem_dtor_tie, ring_list_dtor_tie]; rfl

end Tromp.Tie
