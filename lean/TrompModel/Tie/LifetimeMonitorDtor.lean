/-
  Tie/LifetimeMonitorDtor.lean — tie theorem(s) for the regenerated translation Gen/Cxx/LifetimeMonitorDtor.lean (tools/cxx2lean.py).
-/
import TrompModel.Gen.Cxx.LifetimeMonitorDtor
import TrompModel.Tie.Base

namespace Tromp.Tie
open World

/-- `~lifetime_monitor`: a requirement whose object is alive reports once, non-fatally, and leaves the object's
    chain (only itself: `List.erase`); in either case it leaves its sequences. -/
theorem lifetime_monitor_dtor_order (died : Bool) (t : Nat) (chain : List Nat) :
    Cxx.lifetime_monitor_dtor died t chain =
      (if died then ([Act.stmt "sequences.reset()"], chain)
       else ([Act.stmt "send_report(severity::nonfatal, loc, os.str())", Act.stmt "sequences.reset()"], chain.erase t)) := by
  cases died <;> rfl

end Tromp.Tie
