/-
  Tie/Find.lean — tie theorems: the regenerated translation (Gen/Cxx) equals the hand-written model definition.
  See tools/cxx2lean.py and DESIGN.md §12.
-/
import TrompModel.Gen.Cxx.Find
import TrompModel.Tie.Base

namespace Tromp.Tie
open World
variable {α : Type}

/-- **`trompeloeil::find` (mock.hpp) = `findGo`** (C01, C02): same candidate for every list, every matching
    predicate and every cost function whose finite costs fit an `unsigned`. -/
theorem find_eq {α : Type} (m : α → Bool) (c : α → Cost) (hc : ∀ e k, c e = some k → k < topU) (l : List α) :
    Cxx.find m (fun e => (c e).toU) l = findGo m c none l := by
  unfold Cxx.find
  simp only [Id.run, forIn_eq_runLoop, bind, pure]
  have key := fun body => runLoop_spec (α := α) body
    (fun (st : Option (Option α) × Option α × Nat) => st.1 = none ∧ st.2.2 ≤ topU)
    (fun l (st : Option (Option α) × Option α × Nat) => findGo m c (st.2.1.map (fun f => (f, Cost.ofU st.2.2))) l)
    (fun (st : Option (Option α) × Option α × Nat) => match st.1 with | some r => r | none => st.2.1)
  generalize hres : runLoop _ l (none, none, topU) = res
  have h := key _ ?_ ?_ l (none, none, topU) res ⟨rfl, Nat.le_refl _⟩ hres
  · revert h; rcases res with ⟨_ | r, fm, lc⟩ <;> simp
  · rintro ⟨r, fm, lc⟩ ⟨hr, _⟩
    simp only at hr; subst hr
    cases fm <;> simp [findGo]
  · rintro a as ⟨r, fm, lc⟩ ⟨hr, hlc⟩
    simp only at hr hlc; subst hr
    have h0 : ((c a).toU == 0) = decide (c a = some 0) := by
      cases hca : c a with
      | none => simp [Cost.toU, topU]
      | some k => cases k <;> simp [Cost.toU]
    simp only [Id.run, findGo, h0]
    by_cases hm : m a = true
    · simp only [hm, if_true]
      by_cases hz : c a = some 0
      · simp [hz]
      · simp only [hz, decide_false, Bool.false_eq_true, if_false]
        cases fm with
        | none => simp [Cost.toU_le _ (hc a), Cost.ofU_toU _ (hc a)]
        | some f =>
          simp only [Option.isNone_some, Bool.false_or, Option.map_some, Cost.lt_ofU _ (hc a) _ hlc]
          by_cases hlt : (c a).toU < lc
          · simp [hlt, Cost.toU_le _ (hc a), Cost.ofU_toU _ (hc a)]
          · simp [hlt, hlc]
    · simp [hm, hlc]

/-- **`trompeloeil::find` over the active list is the model's selection** (what `callFn` uses). -/
theorem find_tie {w : World} (hw : SmallSeqs w) (a : Args) (l : List Nat) :
    Cxx.find (w.expMatches a) (fun e => (w.expOrder e).toU) l = (find (w.expMatches a) w.expOrder l).1 := by
  rw [find_eq (w.expMatches a) w.expOrder ?_ l]; rfl
  intro e k h
  unfold expOrder at h
  split at h
  · exact order_lt hw _ _ k h
  · cases h

end Tromp.Tie
