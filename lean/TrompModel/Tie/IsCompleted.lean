/-
  Tie/IsCompleted.lean — tie theorems: the regenerated translation (Gen/Cxx) equals the hand-written model definition.
  See tools/cxx2lean.py and DESIGN.md §12.
-/
import TrompModel.Gen.Cxx.IsCompleted
import TrompModel.Tie.Base

namespace Tromp.Tie
open World
variable {α : Type}

theorem is_completed_eq {α : Type} (sat : α → Bool) (l : List α) :
    Cxx.is_completed sat l = l.all sat := by
  unfold Cxx.is_completed
  simp only [Id.run, forIn_eq_runLoop, bind, pure]
  have key := fun body => runLoop_spec (α := α) body
    (fun (st : Option Bool × Unit) => st.1 = none)
    (fun l (_ : Option Bool × Unit) => l.all sat)
    (fun (st : Option Bool × Unit) => match st.1 with | some r => r | none => true)
  generalize hres : runLoop _ l (none, ()) = res
  have h := key _ ?_ ?_ l (none, ()) res rfl hres
  · revert h; rcases res with ⟨_ | r, u⟩ <;> simp
  · rintro ⟨r, u⟩ hr
    simp only at hr; subst hr; simp
  · rintro a as ⟨r, u⟩ hr
    simp only at hr; subst hr
    simp only [Id.run]
    cases hs : sat a <;> simp [hs]

/-- `sequence_type::is_completed` is the answer of the model's `completed` query. -/
theorem completed_tie (w : World) (s : Nat) :
    Cxx.is_completed w.ownerSat (w.pendingOf s) = (w.pendingOf s).all w.ownerSat := is_completed_eq _ _

end Tromp.Tie
