/-
  Tie/Loops.lean — what a `for x in l do …` loop of a `do` block in `Id` computes, and the invariant rule used
  to prove the regenerated definitions of `Gen/Cxx.lean` equal to the hand-written model definitions.
-/
import TrompModel.Model.CxxBase

namespace Tromp

/-- the loop of a `do` block over a list, as plain structural recursion. -/
def runLoop {α σ : Type} (body : α → σ → Id (ForInStep σ)) : List α → σ → σ
  | [], s => s
  | a :: as, s => match (body a s).run with
    | .done s' => s'
    | .yield s' => runLoop body as s'

theorem forIn_eq_runLoop {α σ : Type} (body : α → σ → Id (ForInStep σ)) (l : List α) (s : σ) :
    (forIn l s body : Id σ) = runLoop body l s := by
  induction l generalizing s with
  | nil => rfl
  | cons a as ih =>
    rw [List.forIn_cons, runLoop]
    show (match (body a s).run with | .done b => pure b | .yield b => forIn as b body : Id σ) = _
    cases (body a s).run with
    | done s' => rfl
    | yield s' => exact ih s'

/-- invariant rule: if `spec` unfolds along the list the way the loop body steps, the loop computes `spec`.
    `out` reads the answer off the final loop state; `Inv` is a loop invariant. -/
theorem runLoop_spec {α σ ρ : Type} (body : α → σ → Id (ForInStep σ)) (Inv : σ → Prop)
    (spec : List α → σ → ρ) (out : σ → ρ)
    (hnil : ∀ s, Inv s → spec [] s = out s)
    (hcons : ∀ a as s, Inv s → match (body a s).run with
        | .done s' => spec (a :: as) s = out s'
        | .yield s' => Inv s' ∧ spec (a :: as) s = spec as s') :
    ∀ l s res, Inv s → runLoop body l s = res → out res = spec l s := by
  intro l s res hs hres
  subst hres
  revert s
  show ∀ s, Inv s → out (runLoop body l s) = spec l s
  induction l with
  | nil => intro s hs; simp [runLoop, hnil s hs]
  | cons a as ih =>
    intro s hs
    have h := hcons a as s hs
    rw [runLoop]
    cases hb : (body a s).run with
    | done s' => rw [hb] at h; simpa using h.symm
    | yield s' => rw [hb] at h; simp only; rw [ih s' h.1, h.2]

/-- the same rule where the invariant may mention the part of the list still to come (needed when the loop
    walks a list it also holds in a mutable variable, as the `while (!l.empty())` idiom does). -/
theorem runLoop_spec_list {α σ ρ : Type} (body : α → σ → Id (ForInStep σ)) (Inv : List α → σ → Prop)
    (spec : List α → σ → ρ) (out : σ → ρ)
    (hnil : ∀ s, Inv [] s → spec [] s = out s)
    (hcons : ∀ a as s, Inv (a :: as) s → match (body a s).run with
        | .done s' => spec (a :: as) s = out s'
        | .yield s' => Inv as s' ∧ spec (a :: as) s = spec as s') :
    ∀ l s res, Inv l s → runLoop body l s = res → out res = spec l s := by
  intro l s res hs hres
  subst hres
  revert s
  show ∀ s, Inv l s → out (runLoop body l s) = spec l s
  induction l with
  | nil => intro s hs; simp [runLoop, hnil s hs]
  | cons a as ih =>
    intro s hs
    have h := hcons a as s hs
    rw [runLoop]
    cases hb : (body a s).run with
    | done s' => rw [hb] at h; simpa using h.symm
    | yield s' => rw [hb] at h; simp only; rw [ih s' h.1, h.2]

/-! ### `unsigned` costs -/

theorem Cost.ofU_toU (c : Cost) (h : ∀ k, c = some k → k < topU) : Cost.ofU c.toU = c := by
  cases c with
  | none => simp [Cost.toU, Cost.ofU]
  | some k =>
    have := h k rfl
    have hne : k ≠ topU := by omega
    simp [Cost.toU, Cost.ofU, hne]

theorem Cost.toU_le (c : Cost) (h : ∀ k, c = some k → k < topU) : c.toU ≤ topU := by
  cases c with
  | none => simp [Cost.toU]
  | some k => have := h k rfl; simp [Cost.toU]; omega

theorem Cost.lt_ofU (c : Cost) (h : ∀ k, c = some k → k < topU) (n : Nat) (hn : n ≤ topU) :
    Cost.lt c (Cost.ofU n) = decide (c.toU < n) := by
  cases c with
  | none =>
    have : ¬ topU < n := by omega
    simp [Cost.toU, Cost.lt, this]
  | some k =>
    have := h k rfl
    by_cases hn' : n = topU
    · subst hn'; simp [Cost.toU, Cost.lt, Cost.ofU, this]
    · simp only [Cost.toU, Cost.lt, Cost.ofU, hn', if_false]; congr

end Tromp
