/-
  Tie/SemKill.lean — destruction of a mock object's expectation lists: `~expectations` (both specialisations, regenerated)
  decommissions the active list first, then the saturated list — the inner order of `World.killMock`; what `decommission`
  does to one list is `decommission_sem` (Tie/SemDecommission.lean).
-/
import TrompModel.Gen.Cxx.ExpectationsDtor
import TrompModel.Gen.Cxx.ExpectationsDtorNonMovable
import TrompModel.Tie.SemDecommission

namespace Tromp.Tie
open World

theorem expectations_dtor_order :
    Cxx.expectations_dtor = [Act.stmt "active.decommission()", Act.stmt "saturated.decommission()"] ∧
    Cxx.expectations_dtor_nonmovable = [Act.stmt "active.decommission()", Act.stmt "saturated.decommission()"] := ⟨rfl, rfl⟩

/-- one statement of `~expectations` of function `f` on (world, reports so far). -/
def expDtorAct (m : Mock) (f : Nat) : Act → World × List Ev → World × List Ev
  | .stmt "active.decommission()" => fun s => ((s.1.decommission (m.active f)).1, s.2 ++ (s.1.decommission (m.active f)).2)
  | .stmt "saturated.decommission()" => fun s => ((s.1.decommission (m.saturated f)).1, s.2 ++ (s.1.decommission (m.saturated f)).2)
  | _ => id

/-- the destructor of one mock function's lists is one round of the fold in `World.killMock`. -/
theorem expectations_dtor_sem (m : Mock) (f : Nat) (w : World) (evs : List Ev) :
    Cxx.expectations_dtor.foldl (fun s a => expDtorAct m f a s) (w, evs) =
      (let (w1, e1) := w.decommission (m.active f)
       let (w2, e2) := w1.decommission (m.saturated f)
       (w2, evs ++ e1 ++ e2)) := by
  simp [expectations_dtor_order.1, expDtorAct, List.append_assoc]

end Tromp.Tie
