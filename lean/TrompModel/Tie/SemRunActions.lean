/-
  Tie/SemRunActions.lean — the *meaning* of the action trace of `call_matcher::run_actions`: interpreting the recorded
  statements one after the other (each as the obvious primitive update of the World) yields exactly the state the
  model's `runActions` produces.  Together with `run_actions_order` this ties the model's transition for a call
  that found its expectation to the statement sequence of the C++ — not by inspection but by proof.
-/
import TrompModel.Tie.RunActions
import TrompModel.Lemmas.Call

namespace Tromp.Tie
open World

/-- what one recorded statement of `run_actions` does to the world (expectation `e` of function `f` of mock `o`).
    Reports, the OK report and the user's side effects change no bookkeeping state. -/
def runAct (o f e : Nat) : Act → World → World
  | .stmt "reported = true" => fun w =>
      match w.exps e with | some x => w.setExp e { x with reported := true } | none => w
  | .stmt "sequences->increment_call()" => fun w =>
      match w.exps e with | some x => w.setExp e { x with count := x.count + 1 } | none => w
  | .stmt "sequences->retire_predecessors()" => fun w =>
      match w.exps e with | some x => w.retirePredecessors (.exp e) x.seqs | none => w
  | .stmt "sequences->retire()" => fun w =>
      match w.exps e with | some x => w.retireOwn (.exp e) x.seqs | none => w
  | .stmt "this->unlink()" => fun w =>
      match w.mocks o with
      | some m => w.setMock o { m with active := fun g => if g = f then (m.active f).filter (· ≠ e) else m.active g }
      | none => w
  | .stmt "saturated_list.push_back(this)" => fun w =>
      match w.mocks o, w.exps e with
      | some m, some x =>
        (w.setMock o { m with saturated := fun g => if g = f then m.saturated f ++ [e] else m.saturated g }).setExp e
          { x with link := .saturated }
      | _, _ => w
  | _ => id

theorem runAct_reported (o f e : Nat) : runAct o f e (.stmt "reported = true") = fun w =>
    match w.exps e with | some x => w.setExp e { x with reported := true } | none => w := rfl
theorem runAct_forbidden (o f e : Nat) :
    runAct o f e (.stmt "report_forbidden_call(name, loc, params_string(params))") = id := rfl
theorem runAct_validate (o f e : Nat) : runAct o f e (.stmt "sequences->validate(severity::fatal, name, loc)") = id := rfl
theorem runAct_ok (o f e : Nat) : runAct o f e (.stmt "send_ok_report(name)") = id := rfl
theorem runAct_inc (o f e : Nat) : runAct o f e (.stmt "sequences->increment_call()") = fun w =>
    match w.exps e with | some x => w.setExp e { x with count := x.count + 1 } | none => w := rfl
theorem runAct_retpred (o f e : Nat) : runAct o f e (.stmt "sequences->retire_predecessors()") = fun w =>
    match w.exps e with | some x => w.retirePredecessors (.exp e) x.seqs | none => w := rfl
theorem runAct_retire (o f e : Nat) : runAct o f e (.stmt "sequences->retire()") = fun w =>
    match w.exps e with | some x => w.retireOwn (.exp e) x.seqs | none => w := rfl
theorem runAct_unlink (o f e : Nat) : runAct o f e (.stmt "this->unlink()") = fun w =>
    match w.mocks o with
    | some m => w.setMock o { m with active := fun g => if g = f then (m.active f).filter (· ≠ e) else m.active g }
    | none => w := rfl
theorem runAct_push (o f e : Nat) : runAct o f e (.stmt "saturated_list.push_back(this)") = fun w =>
    match w.mocks o, w.exps e with
    | some m, some x =>
      (w.setMock o { m with saturated := fun g => if g = f then m.saturated f ++ [e] else m.saturated g }).setExp e
        { x with link := .saturated }
    | _, _ => w := rfl
theorem runAct_on (o f e : Nat) (s : String) (i : Nat) : runAct o f e (.on s i) = id := rfl

def runActs (o f e : Nat) (acts : List Act) (w : World) : World := acts.foldl (fun w a => runAct o f e a w) w

theorem setExp_setSeqPending (w : World) (e : Nat) (x : Exp) (s : Nat) (g : List Owner → List Owner) :
    (w.setExp e x).setSeqPending s g = (w.setSeqPending s g).setExp e x := by
  unfold setSeqPending setExp
  simp only
  cases w.seqs s <;> rfl

theorem setExp_foldl_setSeqPending (w : World) (e : Nat) (x : Exp) (ss : List Nat) (g : List Owner → List Owner) :
    ss.foldl (fun w s => w.setSeqPending s g) (w.setExp e x) = (ss.foldl (fun w s => w.setSeqPending s g) w).setExp e x := by
  induction ss generalizing w with
  | nil => rfl
  | cons s ss ih => simp only [List.foldl_cons, setExp_setSeqPending, ih]

theorem setMock_setSeqPending (w : World) (o : Nat) (m : Mock) (s : Nat) (g : List Owner → List Owner) :
    (w.setMock o m).setSeqPending s g = (w.setSeqPending s g).setMock o m := by
  unfold setSeqPending setMock
  simp only
  cases w.seqs s <;> rfl

theorem setExp_retirePredecessors (w : World) (e : Nat) (x : Exp) (o : Owner) (ss : List Nat) :
    (w.setExp e x).retirePredecessors o ss = (w.retirePredecessors o ss).setExp e x :=
  setExp_foldl_setSeqPending w e x ss _

theorem setExp_retireOwn (w : World) (e : Nat) (x : Exp) (o : Owner) (ss : List Nat) :
    (w.setExp e x).retireOwn o ss = (w.retireOwn o ss).setExp e x :=
  setExp_foldl_setSeqPending w e x ss _

theorem setExp_setExp (w : World) (e : Nat) (x y : Exp) : (w.setExp e x).setExp e y = w.setExp e y := by
  unfold setExp
  simp only
  congr 1
  funext i
  simp only [upd]
  split <;> rfl

theorem setMock_setMock (w : World) (o : Nat) (m n : Mock) : (w.setMock o m).setMock o n = w.setMock o n := by
  unfold setMock
  simp only
  congr 1
  funext i
  simp only [upd]
  split <;> rfl

theorem setExp_setMock (w : World) (e o : Nat) (x : Exp) (m : Mock) :
    (w.setExp e x).setMock o m = (w.setMock o m).setExp e x := rfl

/-- **semantics of the trace = the model's transition** for a call whose expectation `e` was found by `find`:
    running the statements `call_matcher::run_actions` executes (as translated from /repo), in their order, on the
    world gives the world of `World.runActions`. -/
theorem run_actions_sem (w : World) (o f e : Nat) (x : Exp) (m : Mock) (a : Args) (fx : List Nat)
    (hx : w.exps e = some x) (hm : w.mocks o = some m) :
    runActs o f e (Cxx.run_actions (x.hi == 0) (w.order (.exp e) x.seqs).isSome (x.count + 1 == x.hi) fx) w
      = (w.runActions o f e x m a).1 := by
  rw [run_actions_order]
  unfold runActionsOrder World.runActions
  have hfx : ∀ (w' : World), runActs o f e (fx.map (Act.on "action")) w' = w' := by
    intro w'; unfold runActs
    induction fx generalizing w' with
    | nil => rfl
    | cons i is ih => simp only [List.map_cons, List.foldl_cons, runAct_on, id]; exact ih _
  by_cases hforb : x.hi = 0
  · -- forbidden
    simp [hforb, runActs, runAct_reported, runAct_forbidden, hx]
  · have hb : (x.hi == 0) = false := by simp [hforb]
    simp only [hb, Bool.false_eq_true, if_false, hforb]
    cases hord : w.order (.exp e) x.seqs with
    | none => simp [runActs, runAct_validate]
    | some k =>
      simp only [Option.isSome_some, Bool.not_true, Bool.false_eq_true, if_false]
      unfold bookkeep
      by_cases hsat : x.count + 1 = x.hi
      · -- saturating call
        have hs : (x.count + 1 == x.hi) = true := by simp [hsat]
        rw [if_pos hsat]
        simp only [hs, if_true]
        unfold runActs
        rw [List.foldl_append, List.foldl_append]
        show runActs o f e (fx.map (Act.on "action")) _ = _
        rw [hfx]
        simp only [List.foldl_cons, List.foldl_nil, runAct_ok, runAct_inc, runAct_retpred, runAct_retire, runAct_unlink,
          runAct_push, id, hx, setExp_exps_same, setExp_mocks, hm,
          setExp_retirePredecessors, setExp_retireOwn, retirePredecessors_mocks, retireOwn_mocks,
          setExp_setMock, setMock_mocks_same, setMock_setMock, setExp_setExp]
      · have hs : (x.count + 1 == x.hi) = false := by simp [hsat]
        rw [if_neg hsat]
        simp only [hs, Bool.false_eq_true, if_false, List.append_nil]
        unfold runActs
        rw [List.foldl_append]
        show runActs o f e (fx.map (Act.on "action")) _ = _
        rw [hfx]
        simp only [List.foldl_cons, List.foldl_nil, runAct_ok, runAct_inc, runAct_retpred, runAct_retire, runAct_unlink, runAct_push, id, hx, setExp_exps_same, setExp_retirePredecessors]

end Tromp.Tie
