/-
  Tie/HandleDetach.lean — tie theorem(s) for the regenerated translation Gen/Cxx/HandleDetach.lean (tools/cxx2lean.py).
-/
import TrompModel.Gen.Cxx.HandleDetach
import TrompModel.Tie.Base

namespace Tromp.Tie
open World

theorem handle_detach_order : Cxx.handle_detach = [Act.stmt "this->unlink()", Act.stmt "seq = nullptr"] := rfl

end Tromp.Tie
