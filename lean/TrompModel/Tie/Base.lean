/-
  Tie/Base.lean — tie theorems: the regenerated translation (Gen/Cxx) equals the hand-written model definition.
  See tools/cxx2lean.py and DESIGN.md §12.
-/
import TrompModel.Tie.Loops

namespace Tromp.Tie
open World
variable {α : Type}

theorem seqCostGo_lt {α : Type} [DecidableEq α] (sat : α → Bool) (o : α) (l : List α) (k0 k : Nat)
    (h : seqCostGo sat o k0 l = some k) : k < k0 + l.length := by
  induction l generalizing k0 with
  | nil => simp [seqCostGo] at h
  | cons a as ih =>
    simp only [seqCostGo] at h
    by_cases ha : a = o
    · simp [ha] at h; subst h; simp
    · by_cases hs : sat a = true
      · simp only [ha, hs, if_false, if_true] at h
        have := ih _ h; simp; omega
      · simp [ha, hs] at h

theorem seqCost_lt_length {α : Type} [DecidableEq α] (sat : α → Bool) (o : α) (l : List α) (k : Nat)
    (h : seqCost sat o l = some k) : k < l.length := by
  have := seqCostGo_lt sat o l 0 k h; omega

/-- costs of the model fit an `unsigned` as long as no sequence has 2^32 − 1 pending entries (trusted-base
    assumption of Model/Algo.lean, here an explicit hypothesis). -/
def SmallSeqs (w : World) : Prop := ∀ s, (w.pendingOf s).length < topU

theorem handleCost_lt {w : World} (hw : SmallSeqs w) (o : Owner) (s k : Nat) (h : w.handleCost o s = some k) : k < topU := by
  unfold handleCost at h
  split at h
  · have := seqCost_lt_length _ _ _ _ h; have := hw s; omega
  · cases h; decide

theorem order_lt {w : World} (hw : SmallSeqs w) (o : Owner) (ss : List Nat) (k : Nat) (h : w.order o ss = some k) : k < topU := by
  unfold World.order orderOf at h
  suffices hgen : ∀ (l : List Cost) (acc : Cost), (∀ k, acc = some k → k < topU) → (∀ c ∈ l, ∀ k, c = some k → k < topU) →
      ∀ k, l.foldl Cost.max acc = some k → k < topU from
    hgen _ (some 0) (by intro k hk; cases hk; decide)
      (by intro c hc k hk; obtain ⟨s, _, rfl⟩ := List.mem_map.mp hc; exact handleCost_lt hw o s k hk) k h
  intro l
  induction l with
  | nil => intro acc hacc _ k hk; exact hacc k hk
  | cons c cs ih =>
    intro acc hacc hl k hk
    rw [List.foldl_cons] at hk
    refine ih (Cost.max acc c) ?_ (fun c' hc' => hl c' (List.mem_cons_of_mem _ hc')) k hk
    intro k' hk'
    cases acc with
    | none => simp [Cost.max] at hk'
    | some x =>
      cases hc : c with
      | none => simp [hc, Cost.max] at hk'
      | some y =>
        simp only [hc, Cost.max, Option.some.injEq] at hk'
        have := hacc x rfl; have := hl c (List.mem_cons_self) y hc
        subst hk'; simp only [Nat.max_def]; split <;> omega

theorem Cost.max_toU (a b : Cost) (ha : ∀ k, a = some k → k < topU) (hb : ∀ k, b = some k → k < topU) :
    (Cost.max a b).toU = if b.toU > a.toU then b.toU else a.toU := by
  cases a with
  | none => cases b <;> simp [Cost.max, Cost.toU] <;> (have := hb _ rfl; omega)
  | some x =>
    cases b with
    | none => have := ha _ rfl; simp [Cost.max, Cost.toU]; omega
    | some y => simp only [Cost.max, Cost.toU, Nat.max_def, gt_iff_lt]; split <;> split <;> omega

/-- a loop that only appends to the trace. -/
theorem runLoop_append {α β : Type} (f : α → List β) (l : List α) (acc : List β) :
    runLoop (fun a (s : List β) => (ForInStep.yield (s ++ f a) : Id _)) l acc = acc ++ l.flatMap f := by
  induction l generalizing acc with
  | nil => simp [runLoop]
  | cons a as ih => simp [runLoop, ih, Id.run, List.append_assoc]

theorem id_pure {α : Type} (x : α) : (pure x : Id α) = x := rfl

theorem flatMap_single {α β : Type} (f : α → β) (l : List α) : l.flatMap (fun a => [f a]) = l.map f := by
  induction l with
  | nil => rfl
  | cons a as ih => simp [List.flatMap_cons, ih]

/-- `report_missed(reason)` = `reported = true; report_unfulfilled(...)` (`report_missed_order`), as one step. -/
def reportMissed (kind : Nat → Nat → Nat → Report) (e : Nat) (s : World × List Ev) : World × List Ev :=
  match s.1.exps e with
  | some x => (s.1.setExp e { x with reported := true }, s.2 ++ [s.1.rep .nonfatal (kind e x.lo x.count)])
  | none => s

end Tromp.Tie
