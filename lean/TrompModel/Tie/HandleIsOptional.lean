/-
  Tie/HandleIsOptional.lean — tie theorem(s) for the regenerated translation Gen/Cxx/HandleIsOptional.lean (tools/cxx2lean.py).
-/
import TrompModel.Gen.Cxx.HandleIsOptional
import TrompModel.Tie.Base

namespace Tromp.Tie
open World

theorem is_optional_tie (x : Exp) : Cxx.is_optional x.lo = (x.lo == 0) := by
  simp [Cxx.is_optional, Id.run, id_pure]

end Tromp.Tie
