/-
  Tie/IsNull.lean — the null test in front of every printed value (C18: "never dereferences a null pointer; null pointers and
  null-comparable objects print as nullptr").  `print(os, t)` asks `is_null(t)` first (Tie/PrintDispatch.lean); the overload set of
  `is_null` and `is_null_redirect` is regenerated from /repo as tables (Gen/Cxx/{IsNullOverloads,IsNullRedirect}.lean: enable_if
  condition, return type, parameters, body).  Read here: the one-argument `is_null(T const&)` computes a tag from three facts
  about the type and dispatches on it; tag `true` reaches `t == nullptr` through `is_null_redirect`, anything else the row that
  answers `false` without looking at the value; a `reference_wrapper` is unwrapped first.
-/
import TrompModel.Gen.Cxx.IsNullOverloads
import TrompModel.Gen.Cxx.IsNullRedirect
import TrompModel.Tie.Base

namespace Tromp.Tie

/-- the facts about the static type of the value that the tag asks for. -/
structure NullFacts where
  nullComparable : Bool     -- `t == nullptr` compiles (is_null_comparable<T>)
  isMatcher : Bool          -- T derives from trompeloeil::matcher
  isArray : Bool
  deriving DecidableEq, Repr

theorem is_null_table_tie :
    Cxx.is_null_overloads =
      [("", "auto", "T const &t, std::true_type", "return is_null_redirect(t)"),
       ("", "bool", "T const &, V", "return false"),
       ("", "bool", "T const &t",
        "using tag = std::integral_constant<bool, is_null_comparable<T>::value && !is_matcher<T>::value && !std::is_array<T>::value>; return ::trompeloeil::is_null(t, tag{})"),
       ("", "bool", "std::reference_wrapper<T> t", "return is_null(t.get())"),
       ("", "bool", "const std::expected<T, E>& e",
        "if constexpr (requires { e.value() == nullptr; }) { return e == nullptr; } else { return false; }")] ∧
    Cxx.is_null_redirect_overloads = [("", "auto", "T const &t", "return t == nullptr")] := ⟨rfl, rfl⟩

/-- the tag the one-argument row computes, read off its body. -/
def tagOfBody (body : String) (f : NullFacts) : Option Bool :=
  if body = "using tag = std::integral_constant<bool, is_null_comparable<T>::value && !is_matcher<T>::value && !std::is_array<T>::value>; return ::trompeloeil::is_null(t, tag{})"
  then some (f.nullComparable && !f.isMatcher && !f.isArray) else none

/-- what a two-argument row answers: the row taking `std::true_type` is more specialised than the one taking any `V`, so it is
    chosen exactly for tag `true`. -/
def answerOfRow (row : String × String × String × String) (eqNull : Bool) : Option Bool :=
  if row.2.2.2 = "return is_null_redirect(t)" then
    (Cxx.is_null_redirect_overloads.head?).bind (fun r => if r.2.2.2 = "return t == nullptr" then some eqNull else none)
  else if row.2.2.2 = "return false" then some false else none

/-- `is_null(t)` for a value whose type has facts `f` and for which `t == nullptr` (if it compiles) is `eqNull`, following the
    regenerated rows. -/
def isNullOf (f : NullFacts) (eqNull : Bool) : Option Bool := do
  let main ← Cxx.is_null_overloads.find? (fun r => r.2.2.1 == "T const &t")
  let tag ← tagOfBody main.2.2.2 f
  let row ← Cxx.is_null_overloads.find? (fun r => r.2.2.1 == (if tag then "T const &t, std::true_type" else "T const &, V"))
  answerOfRow row eqNull

set_option maxRecDepth 100000 in
/-- **the null test**: a value is reported null exactly when its type can be compared with `nullptr`, is neither a matcher nor an
    array, and the comparison says so; for every other type the value is not even looked at. -/
theorem is_null_sem (f : NullFacts) (eqNull : Bool) :
    isNullOf f eqNull = some (f.nullComparable && !f.isMatcher && !f.isArray && eqNull) := by
  rcases f with ⟨a, b, c⟩
  cases a <;> cases b <;> cases c <;> cases eqNull <;> decide

/-- a matcher is never taken for a null value, even one that compares equal to `nullptr` (`eq(nullptr)` is printed by its
    printer, " == nullptr"), and neither is an array. -/
theorem matcher_is_not_null (f : NullFacts) (eqNull : Bool) (h : f.isMatcher = true) : isNullOf f eqNull = some false := by
  rw [is_null_sem, h]; simp

theorem array_is_not_null (f : NullFacts) (eqNull : Bool) (h : f.isArray = true) : isNullOf f eqNull = some false := by
  rw [is_null_sem, h]; simp

/-- a `reference_wrapper` (how an argument reaches `print` from a mismatch report) is unwrapped, then tested the same way. -/
theorem reference_wrapper_unwrapped :
    (Cxx.is_null_overloads.find? (fun r => r.2.2.1 == "std::reference_wrapper<T> t")).map (·.2.2.2) = some "return is_null(t.get())" := by
  decide

end Tromp.Tie
