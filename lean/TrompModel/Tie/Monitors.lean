/-
  Tie/Monitors.lean — tie theorems for the registration of a destruction requirement with its object:
  `chain_lifetime_monitor`, `deathwatched<T>::trompeloeil_expect_death` (lifetime.hpp) and the assignment operators of
  `null_on_move<T>` (mock.hpp).  Regenerated: Gen/Cxx/{ChainLifetimeMonitor,ExpectDeath,NullOnMoveAssign*}.lean.
  The object holds a pointer to its newest requirement, every requirement one to the next older (`older_monitor`);
  the model keeps the chain as the list `Watched.monitors`, newest first.
-/
import TrompModel.Gen.Cxx.ChainLifetimeMonitor
import TrompModel.Gen.Cxx.ExpectDeath
import TrompModel.Gen.Cxx.NullOnMoveAssignPtr
import TrompModel.Gen.Cxx.NullOnMoveAssignCopy
import TrompModel.Gen.Cxx.NullOnMoveAssignMove
import TrompModel.Gen.Cxx.NullOnMoveCopyCtor
import TrompModel.Gen.Cxx.NullOnMoveMoveCtor
import TrompModel.Tie.Base

namespace Tromp.Tie

/-- the requirements reached from `head` by following `older_monitor`, at most `fuel` of them. -/
def chainOf {μ : Type} (older_of : μ → Option μ) : Nat → Option μ → List μ
  | 0, _ => []
  | _, none => []
  | n + 1, some m => m :: chainOf older_of n (older_of m)

theorem chainOf_congr {μ : Type} (f g : μ → Option μ) (n : Nat) (h : Option μ)
    (hag : ∀ x ∈ chainOf f n h, g x = f x) : chainOf g n h = chainOf f n h := by
  induction n generalizing h with
  | zero => rfl
  | succ n ih =>
    cases h with
    | none => rfl
    | some m =>
      simp only [chainOf] at hag ⊢
      rw [hag m (by simp)]
      exact congrArg _ (ih _ (fun x hx => hag x (by simp [hx])))

theorem expect_death_eq {μ : Type} [DecidableEq μ] (monitor : μ) (head : Option μ) (older_of : μ → Option μ) :
    Cxx.expect_death monitor head older_of =
      (some monitor, fun x => if x = monitor then head else older_of x) := rfl

/-- `trompeloeil_expect_death(monitor)`: the new requirement becomes the head of the object's chain and the previous
    chain hangs off it unchanged — `Watched.monitors := m :: monitors` (the link is written **before** the head is
    overwritten). -/
theorem expect_death_tie {μ : Type} [DecidableEq μ] (monitor : μ) (head : Option μ) (older_of : μ → Option μ) (n : Nat)
    (fresh : monitor ∉ chainOf older_of n head) :
    let r := Cxx.expect_death monitor head older_of
    chainOf r.2 (n + 1) r.1 = monitor :: chainOf older_of n head := by
  simp only [expect_death_eq, chainOf, if_true]
  refine congrArg _ (chainOf_congr _ _ _ _ (fun x hx => ?_))
  have : x ≠ monitor := by rintro rfl; exact fresh hx
  simp [this]

/-- assigning a raw pointer stores it; copy- and move-assignment of the holder leave the stored pointer alone (assigning
    one deathwatched object to another keeps the target's own requirement — C13 `assign_keeps`). -/
theorem null_on_move_assign_ptr_tie {μ : Type} (t p : Option μ) : Cxx.null_on_move_assign_ptr t p = t := rfl
theorem null_on_move_assign_copy_tie {μ : Type} (p : Option μ) : Cxx.null_on_move_assign_copy p = p := rfl
theorem null_on_move_assign_move_tie {μ : Type} (p : Option μ) : Cxx.null_on_move_assign_move p = p := rfl

/-- **a copy or a move of a deathwatched object is unwatched**: both constructors of the pointer holder leave the new holder
    null whatever the source holds (no member initialiser, empty body, default member initialiser `T* p = nullptr`) — the model's
    `copyw` / `movew` create a fresh object with no requirement (C13 `copy_is_unwatched`). -/
theorem null_on_move_copy_ctor_tie {μ : Type} (other : Option μ) : Cxx.null_on_move_copy_ctor other = none := rfl
theorem null_on_move_move_ctor_tie {μ : Type} (other : Option μ) : Cxx.null_on_move_move_ctor other = none := rfl

end Tromp.Tie
