/-
  Tie/Matchers.lean — `!m`, `*m` and `re(...)`: the regenerated `matches` bodies are the model's `eval` clauses.
-/
import TrompModel.Gen.Cxx.NotMatches
import TrompModel.Gen.Cxx.DerefMatches
import TrompModel.Gen.Cxx.RegexCheck
import TrompModel.Gen.Cxx.StringHelperBool
import TrompModel.Model.Matcher
import TrompModel.Tie.Base

namespace Tromp.Tie
open Tromp.Matcher

/-- `not_matcher::matches` is negation. -/
theorem not_matches_tie (orc : List Bool) (m : Mt) (x : Val) : Cxx.not_matches (eval orc m x) = eval orc (.not m) x := by
  simp [Cxx.not_matches, Id.run, id_pure, eval]

/-- `ptr_deref::matches`: non-null and the pointee is accepted; a null pointer is never dereferenced (`&&` short-circuits:
    the second operand is only meaningful when the first holds). -/
theorem deref_matches_tie (orc : List Bool) (m : Mt) (p : Option Val) :
    Cxx.deref_matches p.isSome (match p with | some v => eval orc m v | none => false) = eval orc (.deref m) (.ptr p) := by
  cases p <;> simp [Cxx.deref_matches, Id.run, id_pure, eval]

/-- `regex_check`: the string is non-null (`string_helper::operator bool` is "begin is not null") and the search finds. -/
theorem regex_check_tie (orc : List Bool) (k : Nat) (s : Option String) :
    Cxx.regex_check (Cxx.string_helper_bool s.isSome) (orc.getD k false) = eval orc (.re k) (.str s) := by
  cases s <;> simp [Cxx.regex_check, Cxx.string_helper_bool, Id.run, id_pure, eval]

end Tromp.Tie
