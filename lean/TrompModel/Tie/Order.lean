/-
  Tie/Order.lean — tie theorems: the regenerated translation (Gen/Cxx) equals the hand-written model definition.
  See tools/cxx2lean.py and DESIGN.md §12.
-/
import TrompModel.Gen.Cxx.Order
import TrompModel.Tie.Base

namespace Tromp.Tie
open World
variable {α : Type}

theorem order_eq {α : Type} (c : α → Cost) (hc : ∀ e k, c e = some k → k < topU) (l : List α) :
    Cxx.order (fun e => (c e).toU) l = (orderOf (l.map c)).toU := by
  unfold Cxx.order orderOf
  simp only [Id.run, forIn_eq_runLoop, bind, pure]
  suffices h : ∀ (acc : Cost), (∀ k, acc = some k → k < topU) →
      runLoop (fun m __s => if (c m).toU > __s then ForInStep.yield (c m).toU else ForInStep.yield __s) l acc.toU =
        (List.foldl Cost.max acc (List.map c l)).toU from h (some 0) (by intro k hk; cases hk; decide)
  induction l with
  | nil => intro acc _; rfl
  | cons a as ih =>
    intro acc hacc
    have hmax : ∀ k, Cost.max acc (c a) = some k → k < topU := by
      intro k hk
      cases hacc' : acc with
      | none => simp [hacc', Cost.max] at hk
      | some x =>
        cases hca : c a with
        | none => simp [hacc', hca, Cost.max] at hk
        | some y =>
          simp only [hacc', hca, Cost.max, Option.some.injEq] at hk
          have := hacc x hacc'; have := hc a y hca
          subst hk; simp only [Nat.max_def]; split <;> omega
    rw [runLoop, List.map_cons, List.foldl_cons, ← ih _ hmax, Cost.max_toU _ _ hacc (hc a)]
    simp only [Id.run]
    by_cases hgt : (c a).toU > acc.toU <;> simp [hgt]

/-- `sequence_matchers<N>::order()` is the model's `order`. -/
theorem order_tie {w : World} (hw : SmallSeqs w) (o : Owner) (ss : List Nat) :
    Cxx.order (fun s => (w.handleCost o s).toU) ss = (w.order o ss).toU := by
  unfold World.order
  exact order_eq (fun s => w.handleCost o s) (fun s k h => handleCost_lt hw o s k h) ss

end Tromp.Tie
