/-
  Tie/ClausePlumbing.lean — what `.WITH(…)`, `.SIDE_EFFECT(…)`, `.RETURN(…)`, `.THROW(…)` do at run time (C08: "side effects
  once, in order, then RETURN/THROW once" starts with the clauses being *registered* once, in order).  The run-time parts of
  `with::action`, `sideeffect::action`, `handle_return::action`, `handle_throw::action` and `call_matcher::set_return` are
  regenerated as action traces (Gen/Cxx/{WithAction,SideeffectAction,HandleReturnAction,HandleThrowAction,SetReturn}.lean; their
  `static_assert`s are the tables of tools/translate.py): each clause makes exactly one call into the matcher.  Read on a record
  of what the matcher holds, with `add_condition` / `add_side_effect` being the translated functions of Tie/Reports.lean, an
  expectation statement ends up holding its WITH clauses in the order written, its SIDE_EFFECT clauses in the order written, and
  the handler of its one RETURN or THROW clause.
-/
import TrompModel.Gen.Cxx.WithAction
import TrompModel.Gen.Cxx.SideeffectAction
import TrompModel.Gen.Cxx.HandleReturnAction
import TrompModel.Gen.Cxx.HandleThrowAction
import TrompModel.Gen.Cxx.SetReturn
import TrompModel.Tie.Reports

namespace Tromp.Tie

theorem clause_plumbing_tie :
    Cxx.with_action = [Act.stmt "m.matcher->add_condition(str, d)"] ∧
    Cxx.sideeffect_action = [Act.stmt "m.matcher->add_side_effect(a)"] ∧
    Cxx.handle_return_action = [Act.stmt "m.matcher->set_return(tag, h)"] ∧
    Cxx.handle_throw_action = [Act.stmt "MAKE_THROW_HANDLER(h)", Act.stmt "m.matcher->set_return(tag, std::move(handler))"] ∧
    Cxx.set_return = [Act.stmt "return_handler_obj.reset(NEW_HANDLER(h))"] := ⟨rfl, rfl, rfl, rfl, rfl⟩

/-- a clause of the expectation statement, with its payload (the lambda the macro builds) as an opaque value. -/
inductive PClause (κ : Type) | with_ (d : κ) | sideEffect (a : κ) | return_ (h : κ) | throw_ (h : κ)

/-- what the matcher holds. -/
structure Held (κ : Type) where
  conditions : List κ := []
  actions : List κ := []
  handler : Option (Bool × κ) := none       -- (is a throw handler, functor)

/-- the meaning of one recorded statement, given the clause's payload. -/
def heldStep {κ : Type} (p : κ) (isThrow : Bool) (s : Held κ) : Act → Held κ
  | .stmt "m.matcher->add_condition(str, d)" => { s with conditions := Cxx.add_condition p s.conditions }
  | .stmt "m.matcher->add_side_effect(a)" => { s with actions := Cxx.add_side_effect p s.actions }
  | .stmt "m.matcher->set_return(tag, h)" => { s with handler := some (isThrow, p) }          -- set_return: reset(new handler(h))
  | .stmt "m.matcher->set_return(tag, std::move(handler))" => { s with handler := some (isThrow, p) }
  | _ => s

def applyClause {κ : Type} (s : Held κ) : PClause κ → Held κ
  | .with_ d => Cxx.with_action.foldl (heldStep d false) s
  | .sideEffect a => Cxx.sideeffect_action.foldl (heldStep a false) s
  | .return_ h => Cxx.handle_return_action.foldl (heldStep h false) s
  | .throw_ h => Cxx.handle_throw_action.foldl (heldStep h true) s

theorem applyClause_eq {κ : Type} (s : Held κ) (c : PClause κ) :
    applyClause s c = match c with
      | .with_ d => { s with conditions := s.conditions ++ [d] }
      | .sideEffect a => { s with actions := s.actions ++ [a] }
      | .return_ h => { s with handler := some (false, h) }
      | .throw_ h => { s with handler := some (true, h) } := by
  cases c <;> rfl

def PClause.cond? {κ : Type} : PClause κ → Option κ | .with_ d => some d | _ => none
def PClause.effect? {κ : Type} : PClause κ → Option κ | .sideEffect a => some a | _ => none
def PClause.completion? {κ : Type} : PClause κ → Option (Bool × κ)
  | .return_ h => some (false, h) | .throw_ h => some (true, h) | _ => none

/-- **the clauses are registered once each, in the order written**: after the statement, the matcher holds the WITH predicates
    in declaration order, the SIDE_EFFECT functors in declaration order, and the functor of the last RETURN / THROW clause (the
    `static_assert` tables allow at most one). -/
theorem clauses_registered {κ : Type} (cs : List (PClause κ)) (s : Held κ) :
    (cs.foldl applyClause s).conditions = s.conditions ++ cs.filterMap PClause.cond? ∧
    (cs.foldl applyClause s).actions = s.actions ++ cs.filterMap PClause.effect? ∧
    (cs.foldl applyClause s).handler = ((cs.filterMap PClause.completion?).getLast?).or s.handler := by
  induction cs generalizing s with
  | nil => simp
  | cons c cs ih =>
    rw [List.foldl_cons, applyClause_eq]
    cases c <;> simp [ih, PClause.cond?, PClause.effect?, PClause.completion?, List.getLast?_cons]
    all_goals (first | rfl | exact ⟨rfl, rfl⟩)

/-- starting from the empty matcher. -/
theorem statement_registers {κ : Type} (cs : List (PClause κ)) :
    (cs.foldl applyClause {}).conditions = cs.filterMap PClause.cond? ∧
    (cs.foldl applyClause {}).actions = cs.filterMap PClause.effect? ∧
    (cs.foldl applyClause {}).handler = (cs.filterMap PClause.completion?).getLast? := by
  have := clauses_registered cs ({} : Held κ)
  simpa using this

example : (([.with_ 1, .sideEffect 2, .with_ 3, .sideEffect 4, .return_ 5] : List (PClause Nat)).foldl applyClause {}).conditions = [1, 3] := by
  decide

end Tromp.Tie
