/-
  Tie/Coro.lean — tie theorems for mocked coroutines (C20): how CO_YIELD / CO_RETURN / CO_THROW register with the
  expectation (`handle_co_yield::action`, `handle_co_return::action`, `handle_co_throw::action`, the part under
  `if constexpr (valid)`), and the coroutine body `co_return_handler_t::call`.
  Regenerated: Gen/Cxx/{HandleCoYield,HandleCoReturn,HandleCoThrow,CoBody}.lean.

  The point of the first three is **sharing**: `yield_expressions` is a `shared_ptr`; the handler installed by the
  completion clause keeps a copy of the pointer, so CO_YIELDs written *after* it still reach the list the body walks.
  `CoSt` (Model/CxxBase.lean) models the pointer as a list id into a heap of lists, so a private copy or a moved-from
  pointer would be visible.  `registered_tie`: processing the clauses of an expectation statement in the order they are
  written leaves a handler whose yield list is exactly the model's `Exp.ofClauses` (all CO_YIELDs in declaration order,
  wherever the completion clause stands).
-/
import TrompModel.Gen.Cxx.HandleCoYield
import TrompModel.Gen.Cxx.HandleCoReturn
import TrompModel.Gen.Cxx.HandleCoThrow
import TrompModel.Gen.Cxx.CoBody
import TrompModel.Model.Coro
import TrompModel.Tie.Base
import TrompModel.Gen.Cxx.YieldExprExpr
import TrompModel.Gen.Cxx.CoThrowHandlerCall

namespace Tromp.Tie
open Tromp.Coro

/-- the coroutine body: every yield expression in list order (if the promise can take the value at all), then the
    return expression — once. -/
theorem co_body_tie {ε : Type} (canYield : Bool) (ys : List ε) :
    Cxx.co_body canYield ys = (if canYield then ys.map CoAct.yield else []) ++ [CoAct.ret] := by
  unfold Cxx.co_body
  cases canYield
  · simp [Id.run]; rfl
  · simp only [Id.run, forIn_eq_runLoop, bind, pure, if_true]
    have := runLoop_append (fun e : ε => [CoAct.yield e]) ys []
    simp only [List.nil_append, flatMap_single] at this
    rw [this]

theorem handle_co_yield_eq {ε η : Type} (e : ε) (st : CoSt ε η) :
    Cxx.handle_co_yield true e st = (if st.ylist.isNone then st.fresh else st).pushBack e := by
  unfold Cxx.handle_co_yield
  cases h : st.ylist.isNone <;> simp [Id.run, h] <;> rfl

theorem handle_co_return_eq {ε η : Type} (h : η) (st : CoSt ε η) :
    Cxx.handle_co_return true h st = (if st.ylist.isNone then st.fresh else st).setHandler h := by
  unfold Cxx.handle_co_return
  cases hh : st.ylist.isNone <;> simp [Id.run, hh] <;> rfl

/-- CO_THROW installs its (wrapped) thrower exactly as CO_RETURN installs its expression. -/
theorem handle_co_throw_eq {ε η : Type} (h : η) (st : CoSt ε η) :
    Cxx.handle_co_throw true h st = Cxx.handle_co_return true h st := by
  rw [handle_co_return_eq]
  unfold Cxx.handle_co_throw
  cases hh : st.ylist.isNone <;> simp [Id.run, hh] <;> rfl

/-- an invalid clause (one of its static_asserts fails; the program does not compile anyway) changes nothing. -/
theorem handle_invalid {ε η : Type} (e : ε) (h : η) (st : CoSt ε η) :
    Cxx.handle_co_yield false e st = st ∧ Cxx.handle_co_return false h st = st ∧ Cxx.handle_co_throw false h st = st :=
  ⟨rfl, rfl, rfl⟩

/-- one CO_ clause of the statement, processed by the translated `action`. -/
def applyClause (st : CoSt Val Val) : Clause → CoSt Val Val
  | .coYield v => Cxx.handle_co_yield true v st
  | .complete r => Cxx.handle_co_return true r st

/-- once the list exists, every further clause works on that same list. -/
theorem fold_shared (cs : List Clause) (st : CoSt Val Val) (l : Nat) (hl : st.ylist = some l) :
    (cs.foldl applyClause st).ylist = some l ∧
    (cs.foldl applyClause st).lists l = st.lists l ++ cs.filterMap Clause.yield? ∧
    (cs.foldl applyClause st).handler =
      (match (cs.filterMap Clause.completion?).getLast? with | some r => some (r, some l) | none => st.handler) := by
  induction cs generalizing st with
  | nil => simp [hl]
  | cons c cs ih =>
    simp only [List.foldl_cons]
    cases c with
    | coYield v =>
      have hs : applyClause st (.coYield v) = st.pushBack v := by
        simp [applyClause, handle_co_yield_eq, hl]
      have hl' : (st.pushBack v).ylist = some l := by simp [CoSt.pushBack, hl]
      have := ih (st.pushBack v) hl'
      rw [hs]
      refine ⟨this.1, ?_, ?_⟩
      · rw [this.2.1]; simp [CoSt.pushBack, hl, Clause.yield?, List.filterMap_cons]
      · rw [this.2.2]; simp [CoSt.pushBack, hl, Clause.completion?, List.filterMap_cons]
    | complete r =>
      have hs : applyClause st (.complete r) = st.setHandler r := by
        simp [applyClause, handle_co_return_eq, hl]
      have hl' : (st.setHandler r).ylist = some l := by simp [CoSt.setHandler, hl]
      have := ih (st.setHandler r) hl'
      rw [hs]
      refine ⟨this.1, ?_, ?_⟩
      · rw [this.2.1]; simp [CoSt.setHandler, Clause.yield?, List.filterMap_cons]
      · rw [this.2.2]
        simp only [Clause.completion?, List.filterMap_cons]
        cases hrest : List.filterMap Clause.completion? cs with
        | nil => simp [CoSt.setHandler, hl]
        | cons a as =>
          cases hg : (a :: as).getLast? with
          | none => simp at hg
          | some z => rw [List.getLast?_cons_cons, hg]

/-- **C20, registration.**  For the clauses of one expectation statement, in the order written, with exactly one
    completion clause `r`: the installed handler is `r`, and the list it will walk holds every CO_YIELD of the statement
    in declaration order — those written after the completion clause included. -/
theorem registered_tie (cs : List Clause) (r : Val) (hone : cs.filterMap Clause.completion? = [r]) :
    (cs.foldl applyClause {}).handlerYields = some (r, cs.filterMap Clause.yield?) := by
  cases cs with
  | nil => simp at hone
  | cons c cs =>
    simp only [List.foldl_cons]
    have hfresh : (({} : CoSt Val Val).fresh).ylist = some 0 := rfl
    cases c with
    | coYield v =>
      have hs : applyClause ({} : CoSt Val Val) (.coYield v) = (({} : CoSt Val Val).fresh).pushBack v := by
        simp [applyClause, handle_co_yield_eq]
      have hl' : ((({} : CoSt Val Val).fresh).pushBack v).ylist = some 0 := rfl
      have := fold_shared cs _ 0 hl'
      rw [hs]
      simp only [Clause.completion?, List.filterMap_cons] at hone
      simp only [CoSt.handlerYields, this.2.2, hone, List.getLast?_singleton, Option.map_some, this.2.1,
        Clause.yield?, List.filterMap_cons]
      simp [CoSt.pushBack, CoSt.fresh]
    | complete r' =>
      have hs : applyClause ({} : CoSt Val Val) (.complete r') = (({} : CoSt Val Val).fresh).setHandler r' := by
        simp [applyClause, handle_co_return_eq]
      have hl' : ((({} : CoSt Val Val).fresh).setHandler r').ylist = some 0 := rfl
      have := fold_shared cs _ 0 hl'
      rw [hs]
      simp only [Clause.completion?, List.filterMap_cons] at hone
      have hr : r' = r ∧ cs.filterMap Clause.completion? = [] := by
        cases h : cs.filterMap Clause.completion? with
        | nil => rw [h] at hone; simp at hone; exact ⟨hone, rfl⟩
        | cons a as => rw [h] at hone; simp at hone
      have h1 := this.2.2
      rw [hr.2] at h1
      simp only [List.getLast?_nil] at h1
      have h2 := this.2.1
      unfold CoSt.handlerYields
      rw [h1]
      have h3 : (({} : CoSt Val Val).fresh.setHandler r').handler = some (r', some 0) := rfl
      rw [h3]
      simp only [Option.map_some]
      rw [h2]
      simp [CoSt.setHandler, CoSt.fresh, hr.1, Clause.yield?, List.filterMap_cons]

/-- in the model's terms: what the translated registration installs is `Exp.ofClauses`. -/
theorem registered_eq_ofClauses (cs : List Clause) (eager : Bool) (x : Coro.Exp) (hx : Coro.Exp.ofClauses cs eager = some x) :
    (cs.foldl applyClause {}).handlerYields = some (x.ret, x.yields) := by
  unfold Coro.Exp.ofClauses at hx
  split at hx
  · rename_i r hr
    cases hx
    exact registered_tie cs r hr
  · cases hx

/-- a CO_YIELD clause is its expression applied to the call's parameters (evaluated when the coroutine body reaches it,
    `co_body_tie`), and a CO_THROW clause evaluates its functor — whose body is the `throw` — once in the place of the
    completion value. -/
theorem yield_and_throw_clauses (v : Nat) :
    Cxx.yield_expr_expr v = v ∧ Cxx.co_throw_handler_call = ["h(p)", "return default_return<promise_value_type>()"] := ⟨rfl, rfl⟩

end Tromp.Tie
