/-
  Tie/RangeContainers.lean — tie theorems for the range matchers given a container or a single matcher
  (matcher/range.hpp: `is_range_checker`, `starts_with_range_checker`, `ends_with_range_checker`,
  `range_all_of_checker`, `range_none_of_checker`, `range_any_of_checker`), regenerated into
  Gen/Cxx/{IsRange,StartsWithRange,EndsWithRange,RangeAllOf,RangeNoneOf,RangeAnyOf}.lean.  Each is one standard
  algorithm with a lambda `param_matches(matcher, std::ref(member))`; the generated definitions are the model's
  `equal4`, `startsWithR`, `endsWithR`, `allOf`, `noneOf`, `anyOf`, hence (Props/C11.lean) accept exactly the
  element-wise whole / prefix / suffix matches and the ∀ / ¬∃ / ∃ of the one matcher.
  Trusted here: that `std::equal` / `std::mismatch` (four-iterator forms) and `std::all_of` / `none_of` / `any_of` are
  `Range.equal4` / `Range.mismatch` / `List.all` / `!List.any` / `List.any`.
-/
import TrompModel.Gen.Cxx.IsRange
import TrompModel.Gen.Cxx.StartsWithRange
import TrompModel.Gen.Cxx.EndsWithRange
import TrompModel.Gen.Cxx.RangeAllOf
import TrompModel.Gen.Cxx.RangeNoneOf
import TrompModel.Gen.Cxx.RangeAnyOf
import TrompModel.Model.Range
import TrompModel.Tie.Base
import TrompModel.Props.C11

namespace Tromp.Tie
open Tromp.Range

/-- `range_is(container)`: `std::equal` over both whole ranges, the container's member being the matcher. -/
theorem is_range_tie {α μ : Type} (accepts : μ → α → Bool) (r : List α) (cs : List μ) :
    Cxx.is_range accepts r cs = equal4 accepts r cs := rfl

/-- `range_starts_with(container)`: `std::mismatch` stopped at the end of the container. -/
theorem starts_with_range_tie {α μ : Type} (accepts : μ → α → Bool) (r : List α) (els : List μ) :
    Cxx.starts_with_range accepts r els = startsWithR accepts els r := rfl

/-- `range_ends_with(container)`: too short a range is rejected first; otherwise `std::mismatch` from the
    member `size - n` on. -/
theorem ends_with_range_tie {α μ : Type} (accepts : μ → α → Bool) (r : List α) (els : List μ) :
    Cxx.ends_with_range accepts r els = endsWithR accepts els r := by
  unfold Cxx.ends_with_range endsWithR
  by_cases h : r.length < els.length
  · simp [Id.run, h]; rfl
  · simp [Id.run, h]; rfl

/-- `range_all_of(m)`, `range_none_of(m)`, `range_any_of(m)`: ∀, ¬∃, ∃ of the one matcher over the members. -/
theorem range_all_of_tie {α μ : Type} (accepts : μ → α → Bool) (r : List α) (m : μ) :
    Cxx.range_all_of accepts r m = allOf (accepts m) r := rfl
theorem range_none_of_tie {α μ : Type} (accepts : μ → α → Bool) (r : List α) (m : μ) :
    Cxx.range_none_of accepts r m = noneOf (accepts m) r := rfl
theorem range_any_of_tie {α μ : Type} (accepts : μ → α → Bool) (r : List α) (m : μ) :
    Cxx.range_any_of accepts r m = anyOf (accepts m) r := rfl

/-- What the six accept, stated on the translated C++ directly. -/
theorem range_containers_accept {α μ : Type} (accepts : μ → α → Bool) (r : List α) (els : List μ) (m : μ) :
    (Cxx.is_range accepts r els = true ↔ List.Forall₂ (fun m x => accepts m x = true) els r) ∧
    (Cxx.starts_with_range accepts r els = true ↔
        ∃ pre suf, r = pre ++ suf ∧ List.Forall₂ (fun m x => accepts m x = true) els pre) ∧
    (Cxx.ends_with_range accepts r els = true ↔
        ∃ pre suf, r = pre ++ suf ∧ List.Forall₂ (fun m x => accepts m x = true) els suf) ∧
    (Cxx.range_all_of accepts r m = true ↔ ∀ x ∈ r, accepts m x = true) ∧
    (Cxx.range_none_of accepts r m = true ↔ ∀ x ∈ r, accepts m x = false) ∧
    (Cxx.range_any_of accepts r m = true ↔ ∃ x ∈ r, accepts m x = true) := by
  rw [is_range_tie, starts_with_range_tie, ends_with_range_tie, range_all_of_tie, range_none_of_tie, range_any_of_tie]
  exact ⟨C11.equal4_iff _ _ _, C11.startsWithR_iff _ _ _, C11.endsWithR_iff _ _ _, C11.allOf_iff _ _, C11.noneOf_iff _ _, C11.anyOf_iff _ _⟩

end Tromp.Tie
