/-
  Tie/IsUnfulfilled.lean — tie theorem(s) for the regenerated translation Gen/Cxx/IsUnfulfilled.lean (tools/cxx2lean.py).
-/
import TrompModel.Gen.Cxx.IsUnfulfilled
import TrompModel.Tie.Base

namespace Tromp.Tie
open World

/-- `call_matcher::is_unfulfilled` is the model's `isUnfulfilled`. -/
theorem is_unfulfilled_tie (x : Exp) :
    Cxx.is_unfulfilled x.reported (x.link != .unlinked) (decide (x.lo ≤ x.count)) = isUnfulfilled x := by
  simp only [Cxx.is_unfulfilled, Id.run, isUnfulfilled, pure]
  cases x.reported <;> cases (x.link != .unlinked) <;> by_cases h : x.lo ≤ x.count <;> simp [h] <;> omega

end Tromp.Tie
