/-
  Tie/NoMatch.lean — tie theorems for matching one expectation against a call and for the no-match report:
  `call_matcher::match_conditions`, `call_matcher::matches`, `call_matcher::report_mismatch` (the "Tried …" explanation),
  the free `trompeloeil::report_mismatch` (the fatal "No match for call" report) and `call_matcher::hook_last`
  (regenerated: Gen/Cxx/{MatchConditions,CallMatcherMatches,ReportMismatchMember,ReportMismatchFree,HookLast}.lean)
  equal the definitions of Model/Algo.lean and Model/World.lean that C01, C04, C08 and C15 are stated about.
  The user's WITH predicates are observable: the translations log every evaluation, and the theorems pin which
  predicates are evaluated (up to and including the first that fails, none if a parameter rejects the call).
-/
import TrompModel.Gen.Cxx.MatchConditions
import TrompModel.Gen.Cxx.CallMatcherMatches
import TrompModel.Gen.Cxx.ReportMismatchMember
import TrompModel.Gen.Cxx.ReportMismatchFree
import TrompModel.Gen.Cxx.HookLast
import TrompModel.Tie.Base

namespace Tromp.Tie
open World

/-- how many conditions the loop evaluates: up to and including the first that fails. -/
def evalCnt {κ : Type} (check : κ → Bool) : List κ → Nat
  | [] => 0
  | c :: cs => if check c then 1 + evalCnt check cs else 1

theorem evalCnt_eq_condsEvaluated {α : Type} (cs : List (α → Bool)) (a : α) :
    evalCnt (fun c => c a) cs = condsEvaluated cs a := by
  induction cs with
  | nil => rfl
  | cons c cs ih => simp [evalCnt, condsEvaluated, ih]

theorem match_conditions_loop {κ : Type} (check : κ → Bool) (cs : List κ) (acc : List κ) :
    runLoop (fun c (s : Option (Bool × List κ) × List κ) =>
        (if (!check c) = true then ForInStep.done (some (false, s.snd ++ [c]), s.snd ++ [c])
         else ForInStep.yield (none, s.snd ++ [c]) : Id _)) cs (none, acc)
      = (if cs.all check then none else some (false, acc ++ cs.take (evalCnt check cs)), acc ++ cs.take (evalCnt check cs)) := by
  induction cs generalizing acc with
  | nil => simp [runLoop, evalCnt]
  | cons c cs ih =>
    rw [runLoop]
    by_cases hc : check c = true
    · simp only [hc, Bool.not_true, Bool.false_eq_true, if_false, Id.run, ih, List.all_cons, Bool.true_and, evalCnt, if_true]
      have : 1 + evalCnt check cs = evalCnt check cs + 1 := by omega
      simp [this, List.append_assoc]
    · simp [hc, Id.run, evalCnt]

/-- `call_matcher::match_conditions`: the verdict is "all WITH predicates hold", and exactly the predicates up to and
    including the first failing one are evaluated, in order, once each. -/
theorem match_conditions_eq {κ : Type} (check : κ → Bool) (cs : List κ) :
    Cxx.match_conditions check cs = (cs.all check, cs.take (evalCnt check cs)) := by
  unfold Cxx.match_conditions
  simp only [Id.run, forIn_eq_runLoop, bind, pure]
  rw [match_conditions_loop]
  by_cases h : cs.all check = true <;> simp [h]

theorem match_conditions_tie {α : Type} (cs : List (α → Bool)) (a : α) :
    Cxx.match_conditions (fun c => c a) cs = (condsOk cs a, cs.take (condsEvaluated cs a)) := by
  rw [match_conditions_eq, evalCnt_eq_condsEvaluated]; rfl

/-- `call_matcher::matches` = the model's `expMatches` / `matchLog`: parameters first; the WITH predicates are looked
    at only if every parameter accepts. -/
theorem matches_tie {α : Type} (ps : Bool) (cs : List (α → Bool)) (a : α) :
    Cxx.call_matcher_matches ps (fun c => c a) cs =
      (ps && condsOk cs a, if ps then cs.take (condsEvaluated cs a) else []) := by
  unfold Cxx.call_matcher_matches
  cases ps <;> simp [Id.run, match_conditions_tie] <;> rfl

theorem report_mismatch_loop {κ : Type} (check : κ → Bool) (cs : List κ) (os : List (MTok κ)) (acc : List κ) :
    runLoop (fun cond (s : List (MTok κ) × List κ) =>
        (if (!check cond) = true then ForInStep.done (s.fst ++ [MTok.text, MTok.failedWith cond, MTok.text], s.snd ++ [cond])
         else ForInStep.yield (s.fst, s.snd ++ [cond]) : Id _)) cs (os, acc)
      = (os ++ (match cs.find? (fun c => !check c) with | some c => [MTok.text, MTok.failedWith c, MTok.text] | none => []),
         acc ++ cs.take (evalCnt check cs)) := by
  induction cs generalizing acc os with
  | nil => simp [runLoop, evalCnt]
  | cons c cs ih =>
    rw [runLoop]
    by_cases hc : check c = true
    · simp only [hc, Bool.not_true, Bool.false_eq_true, if_false, Id.run, ih, evalCnt, if_true, List.find?_cons]
      have : 1 + evalCnt check cs = evalCnt check cs + 1 := by omega
      simp [this, List.append_assoc]
    · simp [hc, Id.run, evalCnt, List.find?_cons]

/-- `call_matcher::report_mismatch` (member): sets `reported`, prints the signature, then either the first failing WITH
    (evaluating the predicates up to and including it — `break`) or, if a parameter rejects, the parameter mismatch
    without evaluating any predicate. -/
theorem report_mismatch_member_eq {κ : Type} (ps : Bool) (check : κ → Bool) (cs : List κ) :
    Cxx.report_mismatch_member ps check cs =
      (true,
       if ps then [MTok.signature] ++ (match cs.find? (fun c => !check c) with
                                       | some c => [MTok.text, MTok.failedWith c, MTok.text] | none => [])
       else [MTok.signature, MTok.text, MTok.paramMismatch],
       if ps then cs.take (evalCnt check cs) else []) := by
  unfold Cxx.report_mismatch_member
  cases ps
  · simp [Id.run]; rfl
  · simp only [Id.run, forIn_eq_runLoop, bind, pure, if_true, List.nil_append]
    rw [report_mismatch_loop]; simp

/-- in the model's terms (`whyOf`, `triedLog`): the explanation names the first failing WITH and the log holds the
    evaluations `0 … i` (all of them if none fails). -/
theorem report_mismatch_member_tie {α : Type} (ps : Bool) (cs : List (α → Bool)) (a : α) :
    (Cxx.report_mismatch_member ps (fun c => c a) cs).1 = true ∧
    (Cxx.report_mismatch_member ps (fun c => c a) cs).2.2.length =
      (if ps then (match firstFailing cs a with | some i => i + 1 | none => cs.length) else 0) := by
  rw [report_mismatch_member_eq]
  refine ⟨rfl, ?_⟩
  cases ps
  · simp
  · simp only [if_true, evalCnt_eq_condsEvaluated]
    induction cs with
    | nil => simp [condsEvaluated, firstFailing]
    | cons c cs ih =>
      by_cases hc : c a = true
      · simp only [condsEvaluated, hc, if_true, firstFailing, List.findIdx?_cons, Bool.not_true, Bool.false_eq_true, if_false] at ih ⊢
        rw [show 1 + condsEvaluated cs a = condsEvaluated cs a + 1 by omega, List.take_succ_cons, List.length_cons, ih]
        cases h : List.findIdx? (fun c => !c a) cs <;> simp [h]
      · simp [condsEvaluated, hc, firstFailing, List.findIdx?_cons]

theorem saturated_loop {α : Type} (m : α → Bool) (sat : List α) (os : List (Tok α)) (b : Bool) :
    runLoop (fun x (s : List (Tok α) × Bool) =>
        (if m x = true then
           (if (!s.snd) = true then ForInStep.yield (s.fst ++ [Tok.key "matchesSaturated"] ++ [Tok.text] ++ [Tok.expectation x, Tok.text], true)
            else ForInStep.yield (s.fst ++ [Tok.text] ++ [Tok.expectation x, Tok.text], s.snd))
         else ForInStep.yield (s.fst, s.snd) : Id _)) sat (os, b)
      = (os ++ (if !b && !(sat.filter m).isEmpty then [Tok.key "matchesSaturated"] else []) ++
            (sat.filter m).flatMap (fun x => [Tok.text, Tok.expectation x, Tok.text]),
         b || !(sat.filter m).isEmpty) := by
  induction sat generalizing os b with
  | nil => simp [runLoop]
  | cons x sat ih =>
    rw [runLoop]
    by_cases hx : m x = true
    · cases b
      · simp only [hx, ↓reduceIte, Bool.not_false, Id.run]; rw [ih]; simp [List.filter_cons, hx, List.append_assoc]
      · simp only [hx, ↓reduceIte, Bool.not_true, Bool.false_eq_true, Id.run]; rw [ih]; simp [List.filter_cons, hx, List.append_assoc]
    · simp only [hx, ↓reduceIte, Id.run, Bool.false_eq_true]; rw [ih]; simp [List.filter_cons, hx]

/-- the free `trompeloeil::report_mismatch`: the header, then **either** the saturated expectations that match the call
    (every one of them — the scan does not stop at a saturated expectation that does not match) **or**, only if there
    is none, a "Tried" explanation of every active expectation (which marks each of them `reported`,
    `report_mismatch_member_eq`). -/
theorem report_mismatch_free_eq {α : Type} (m : α → Bool) (act sat : List α) :
    Cxx.report_mismatch_free m act sat =
      [Tok.key "noMatchCall", Tok.matchName, Tok.text, Tok.text] ++
      (if (sat.filter m).isEmpty then act.flatMap (fun x => [Tok.key "tried", Tok.tried x])
       else Tok.key "matchesSaturated" :: (sat.filter m).flatMap (fun x => [Tok.text, Tok.expectation x, Tok.text])) := by
  unfold Cxx.report_mismatch_free
  simp only [Id.run, forIn_eq_runLoop, bind, pure, List.nil_append]
  rw [saturated_loop]
  by_cases h : (sat.filter m).isEmpty = true
  · have h' : sat.filter m = [] := by simpa using h
    simp only [h', List.isEmpty_nil, Bool.not_true, Bool.and_false, Bool.false_eq_true, if_false, List.append_nil,
      List.flatMap_nil, Bool.or_false, Bool.not_false, if_true]
    have := runLoop_append (fun x : α => [Tok.key "tried", Tok.tried x]) act
      [Tok.key "noMatchCall", Tok.matchName, Tok.text, Tok.text]
    simpa [List.append_assoc] using this
  · simp [h]

def satListed {α : Type} (ts : List (Tok α)) : List α := ts.filterMap (fun t => match t with | .expectation x => some x | _ => none)
def triedListed {α : Type} (ts : List (Tok α)) : List α := ts.filterMap (fun t => match t with | .tried x => some x | _ => none)

theorem satListed_append {α : Type} (a b : List (Tok α)) : satListed (a ++ b) = satListed a ++ satListed b := by
  simp [satListed, List.filterMap_append]
theorem triedListed_append {α : Type} (a b : List (Tok α)) : triedListed (a ++ b) = triedListed a ++ triedListed b := by
  simp [triedListed, List.filterMap_append]

theorem satListed_flatMap {α : Type} (l : List α) :
    satListed (l.flatMap (fun x => [Tok.text, Tok.expectation x, Tok.text])) = l := by
  induction l with
  | nil => rfl
  | cons x l ih => simp only [List.flatMap_cons, satListed, List.filterMap_append] at ih ⊢; simp [ih]

theorem triedListed_flatMap {α : Type} (l : List α) :
    triedListed (l.flatMap (fun x => [Tok.key "tried", Tok.tried x])) = l := by
  induction l with
  | nil => rfl
  | cons x l ih => simp only [List.flatMap_cons, triedListed, List.filterMap_append] at ih ⊢; simp [ih]

theorem satListed_tried {α : Type} (l : List α) : satListed (l.flatMap (fun x => [Tok.key "tried", Tok.tried x])) = [] := by
  induction l with
  | nil => rfl
  | cons x l ih => simp only [List.flatMap_cons, satListed, List.filterMap_append] at ih ⊢; simp [ih]

theorem triedListed_sat {α : Type} (l : List α) :
    triedListed (l.flatMap (fun x => [Tok.text, Tok.expectation x, Tok.text])) = [] := by
  induction l with
  | nil => rfl
  | cons x l ih => simp only [List.flatMap_cons, triedListed, List.filterMap_append] at ih ⊢; simp [ih]

/-- in the model's terms (`World.reportMismatch`): the report lists as saturated matches exactly
    `satl.filter (w.expMatches a)`, and as tried — hence marked `reported` — exactly the active list when there is no
    saturated match and nothing otherwise. -/
theorem report_mismatch_free_tie (w : World) (mk : Mock) (f : Nat) (a : Args) :
    let ts := Cxx.report_mismatch_free (w.expMatches a) (mk.active f) (mk.saturated f)
    satListed ts = (mk.saturated f).filter (w.expMatches a) ∧
    triedListed ts = (if ((mk.saturated f).filter (w.expMatches a)).isEmpty then mk.active f else []) := by
  simp only [report_mismatch_free_eq]
  have hdr1 : satListed ([Tok.key "noMatchCall", Tok.matchName, Tok.text, Tok.text] : List (Tok Nat)) = [] := rfl
  have hdr2 : triedListed ([Tok.key "noMatchCall", Tok.matchName, Tok.text, Tok.text] : List (Tok Nat)) = [] := rfl
  by_cases h : ((mk.saturated f).filter (w.expMatches a)).isEmpty = true
  · have h' : (mk.saturated f).filter (w.expMatches a) = [] := by simpa using h
    simp only [h', List.isEmpty_nil, if_true]
    exact ⟨by rw [satListed_append, hdr1, satListed_tried]; rfl, by rw [triedListed_append, hdr2, triedListed_flatMap]; rfl⟩
  · simp only [h, Bool.false_eq_true, if_false]
    refine ⟨?_, ?_⟩
    · rw [satListed_append, hdr1, ← List.singleton_append, satListed_append, satListed_flatMap]; rfl
    · rw [triedListed_append, hdr2, ← List.singleton_append, triedListed_append, triedListed_sat]; rfl

/-- `call_matcher::hook_last`: a new expectation goes to the **front** of the active list (newest first — what `find`'s
    tie-break "newest" relies on). -/
theorem hook_last_tie {α : Type} (e : α) (l : List α) : Cxx.hook_last e l = e :: l := rfl

end Tromp.Tie
