/-
  Tie/CanBeCalled.lean — tie theorem(s) for the regenerated translation Gen/Cxx/CanBeCalled.lean (tools/cxx2lean.py).
-/
import TrompModel.Gen.Cxx.CanBeCalled
import TrompModel.Tie.Base

namespace Tromp.Tie
open World

/-- `sequence_handler<N>::can_be_called`: the order is not `~0U`. -/
theorem can_be_called_tie (c : Cost) (hc : ∀ k, c = some k → k < topU) : Cxx.can_be_called c.toU = c.isSome := by
  cases c with
  | none => simp [Cxx.can_be_called, Id.run, Cost.toU, id_pure]
  | some k =>
    have := hc k rfl
    have hne : k ≠ topU := by omega
    simp [Cxx.can_be_called, Id.run, Cost.toU, id_pure, hne]

end Tromp.Tie
