/-
  Tie/MockDestroyed.lean — tie theorem(s) for the regenerated translation Gen/Cxx/MockDestroyed.lean (tools/cxx2lean.py).
-/
import TrompModel.Gen.Cxx.MockDestroyed
import TrompModel.Tie.Base

namespace Tromp.Tie
open World

theorem mock_destroyed_order (u : Bool) :
    Cxx.mock_destroyed u = if u then [Act.stmt "report_missed(\"Pending expectation on destroyed mock object\")"] else [] := by
  cases u <;> rfl

end Tromp.Tie
