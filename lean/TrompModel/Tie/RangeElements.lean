/-
  Tie/RangeElements.lean — tie theorems for `range_is(e…)`, `range_starts_with(e…)`, `range_ends_with(e…)` with listed
  elements (matcher/range.hpp: `is_elements_checker`, `starts_with_elements_checker`, `ends_with_checker`), regenerated
  into Gen/Cxx/{IsElements,StartsWithElements,EndsWithElements}.lean: the loops are the model's `elemFold`, hence
  (Props/C11.lean) accept exactly the whole-range / prefix / suffix element-wise matches.
-/
import TrompModel.Gen.Cxx.IsElements
import TrompModel.Gen.Cxx.StartsWithElements
import TrompModel.Gen.Cxx.EndsWithElements
import TrompModel.Model.Range
import TrompModel.Tie.Base

namespace Tromp.Tie
open Tromp.Range

theorem elem_loop {α μ : Type} (accepts : μ → α → Bool) (els : List μ) (it : List α) (b : Bool) :
    runLoop (fun compare (s : List α × Bool) =>
        (if s.2 = true then
           (match s.1 with
            | [] => ForInStep.yield (s.1, false)
            | v :: rest => ForInStep.yield (rest, accepts compare v))
         else ForInStep.yield (s.1, s.2) : Id _)) els (it, b)
      = ((els.foldl (elemStep accepts) (b, it)).2, (els.foldl (elemStep accepts) (b, it)).1) := by
  induction els generalizing it b with
  | nil => rfl
  | cons m ms ih =>
    rw [runLoop, List.foldl_cons]
    cases b
    · simp only [Bool.false_eq_true, if_false, Id.run]; rw [ih]; simp [elemStep]
    · cases it with
      | nil => simp only [if_true, Id.run]; rw [ih]; simp [elemStep]
      | cons v rest => simp only [if_true, Id.run]; rw [ih]; simp [elemStep]

/-- `range_is(e₁, …, eₙ)`: the fold over the listed elements with the range iterator, then "iterator at the end". -/
theorem is_elements_tie {α μ : Type} (accepts : μ → α → Bool) (r : List α) (els : List μ) :
    Cxx.is_elements accepts r els = isElements accepts els r := by
  unfold Cxx.is_elements isElements elemFold
  simp only [Id.run, forIn_eq_runLoop, bind, pure]
  erw [elem_loop]

/-- `range_starts_with(e₁, …, eₙ)`: the same fold, the rest of the range is not looked at. -/
theorem starts_with_elements_tie {α μ : Type} (accepts : μ → α → Bool) (r : List α) (els : List μ) :
    Cxx.starts_with_elements accepts r els = startsWithE accepts els r := by
  unfold Cxx.starts_with_elements startsWithE elemFold
  simp only [Id.run, forIn_eq_runLoop, bind, pure]
  erw [elem_loop]

/-- `range_ends_with(e₁, …, eₙ)`: too short a range is rejected before anything is matched; otherwise the iterator is
    advanced to the last n members and the same fold runs. -/
theorem ends_with_elements_tie {α μ : Type} (accepts : μ → α → Bool) (r : List α) (els : List μ) :
    Cxx.ends_with_elements accepts r els = endsWithE accepts els r := by
  unfold Cxx.ends_with_elements endsWithE elemFold
  by_cases h : r.length < els.length
  · simp [Id.run, h]; rfl
  · simp only [Id.run, forIn_eq_runLoop, bind, pure, h, decide_false, Bool.false_eq_true, if_false]
    erw [elem_loop]

end Tromp.Tie
