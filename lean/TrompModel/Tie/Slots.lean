/-
  Tie/Slots.lean — tie theorems for the small state-changing functions: call limits (`set_limits`, `RT_TIMES`),
  sequence registration (`add_last`, `add_retired`), the tracer slot (`set_tracer`) and the reporter slots
  (`set_reporter`, both overloads).  Regenerated: Gen/Cxx/{SetLimits,RuntimeTimes,AddLast,AddRetired,SetTracer,
  SetReporter1,SetReporter2}.lean.
-/
import TrompModel.Gen.Cxx.SetLimits
import TrompModel.Gen.Cxx.RuntimeTimes
import TrompModel.Gen.Cxx.AddLast
import TrompModel.Gen.Cxx.AddRetired
import TrompModel.Gen.Cxx.SetTracer
import TrompModel.Gen.Cxx.SetReporter1
import TrompModel.Gen.Cxx.SetReporter2
import TrompModel.Tie.Base

namespace Tromp.Tie
open World

/-- `set_limits(L, H)`: the lower bound is `L`, the upper bound `H` (not swapped, both written). -/
theorem set_limits_tie (L H : Nat) (lim : Nat × Nat) : Cxx.set_limits L H lim = (L, H) := rfl

/-- `RT_TIMES(low, high)`: `std::logic_error` iff `high < low` — in which case the limits are never written — otherwise
    the limits are exactly `(low, high)`.  (C03: an inverted RT_TIMES leaves nothing behind.) -/
theorem runtime_times_tie (low high : Nat) (lim : Nat × Nat) :
    Cxx.runtime_times low high lim = if high < low then none else some (low, high) := by
  unfold Cxx.runtime_times
  by_cases h : high < low <;> simp [h, Id.run, set_limits_tie] <;> rfl

/-- `IN_SEQUENCE`: a new handle goes to the **end** of the sequence's pending list (steps are ordered by creation). -/
theorem add_last_tie {α : Type} (m : α) (l : List α) : Cxx.add_last m l = l ++ [m] := rfl

theorem add_retired_tie {α : Type} (m : α) (l : List α) : Cxx.add_retired m l = l ++ [m] := rfl

/-- `set_tracer(obj)` installs `obj` and answers the previously installed tracer (what `tracer::previous` records). -/
theorem set_tracer_tie {τ : Type} (obj cur : Option τ) : Cxx.set_tracer obj cur = (cur, obj) := rfl

/-- one-argument `set_reporter`: answers the previous violation reporter, installs the new one — and has no access to
    the OK reporter slot at all (it is not a parameter of the translation). -/
theorem set_reporter1_tie {ρ : Type} (f rep : ρ) : Cxx.set_reporter1 f rep = (rep, f) := rfl

/-- two-argument `set_reporter`: answers the previous pair, installs the new pair. -/
theorem set_reporter2_tie {ρ κ : Type} (rf : ρ) (orf : κ) (rep : ρ) (ok : κ) :
    Cxx.set_reporter2 rf orf rep ok = ((rep, ok), (rf, orf)) := rfl

/-- in the model's terms: the `setreporter` step of `Model/World.lean`. -/
theorem setreporter_sem (w : World) (r : Nat) (ok : Option Nat) :
    let res := w.step (.setreporter r ok)
    (res.1.reporter, res.1.okReporter) =
      (match ok with
       | none => ((Cxx.set_reporter1 r w.reporter).2, w.okReporter)
       | some k => (Cxx.set_reporter2 r k w.reporter w.okReporter).2) ∧
    res.2 = (match ok with
       | none => [Ev.reporterWas (Cxx.set_reporter1 r w.reporter).1]
       | some k => [Ev.reporterWas (Cxx.set_reporter2 r k w.reporter w.okReporter).1.1,
                    Ev.okReporterWas (Cxx.set_reporter2 r k w.reporter w.okReporter).1.2]) := by
  cases ok <;> simp [World.step, World.legal, set_reporter1_tie, set_reporter2_tie]

end Tromp.Tie
