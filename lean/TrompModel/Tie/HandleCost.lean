/-
  Tie/HandleCost.lean — tie theorem(s) for the regenerated translation Gen/Cxx/HandleCost.lean (tools/cxx2lean.py).
-/
import TrompModel.Gen.Cxx.HandleCost
import TrompModel.Tie.Base

namespace Tromp.Tie
open World

/-- `sequence_matcher::cost`: a handle whose sequence object is gone costs 0 (the model's `handleCost`). -/
theorem handle_cost_tie {w : World} (o : Owner) (s : Nat) :
    Cxx.handle_cost (w.seqAlive s) (seqCost w.ownerSat o (w.pendingOf s)).toU = (w.handleCost o s).toU := by
  unfold Cxx.handle_cost handleCost
  cases w.seqAlive s <;> simp [Id.run, Cost.toU, pure]

end Tromp.Tie
