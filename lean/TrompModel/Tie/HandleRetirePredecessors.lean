/-
  Tie/HandleRetirePredecessors.lean — tie theorem(s) for the regenerated translation Gen/Cxx/HandleRetirePredecessors.lean (tools/cxx2lean.py).
-/
import TrompModel.Gen.Cxx.HandleRetirePredecessors
import TrompModel.Tie.Base

namespace Tromp.Tie
open World

theorem handle_retire_predecessors_order (att : Bool) :
    Cxx.handle_retire_predecessors att = if att then [Act.stmt "seq->retire_until(this)"] else [] := by
  cases att <;> rfl

end Tromp.Tie
