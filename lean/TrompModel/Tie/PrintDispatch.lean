/-
  Tie/PrintDispatch.lean — tie theorems for value printing (C18): `print(os, t)`, the default `printer<T>::print`, and
  the four `streamer<>` bodies (streamable value, pair, tuple, collection, opaque object).  Regenerated:
  Gen/Cxx/{PrintTop,PrinterDefault,StreamerStreamable,StreamerPair,StreamerTuple,StreamerCollection,StreamerOpaque}.lean.
  The translations are traces of what each function does to the stream; `runTrace` reads a trace on the stream state of
  `Model/Print.lean` (string literals are inserted as they are — *without* a sentry, so they are padded by whatever
  width the caller left —, a `stream_sentry` governs the rest of the function and then restores, a recursive `print`
  of component `i` is the model's `print`); the theorems say that this is the model's `print` for each kind of value.
-/
import TrompModel.Gen.Cxx.PrintTop
import TrompModel.Gen.Cxx.PrinterDefault
import TrompModel.Gen.Cxx.StreamerStreamable
import TrompModel.Gen.Cxx.StreamerPair
import TrompModel.Gen.Cxx.StreamerTuple
import TrompModel.Gen.Cxx.StreamerCollection
import TrompModel.Gen.Cxx.StreamerOpaque
import TrompModel.Model.Print
import TrompModel.Tie.Base

namespace Tromp.Tie
open Tromp.Print

/-- read a trace: `v` is the value being printed (for the leaf actions), `children` its components. -/
def runTrace (v : PV) (children : List PV) : St → List PrTok → Option (String × St)
  | st, [] => some ("", st)
  | st, .lit s :: rest => do
    let (o1, s1) := pad st s
    let (o2, s2) ← runTrace v children s1 rest
    some (o1 ++ o2, s2)
  | st, .sentry :: rest => do
    -- the sentry establishes `sentrySt` for the rest of the function and restores the caller's state at its end
    let (o, _) ← runTrace v children sentrySt rest
    some (o, st)
  | st, .printSub i :: rest => do
    let c ← children[i]?
    let (o1, s1) ← print st c
    let (o2, s2) ← runTrace v children s1 rest
    some (o1 ++ o2, s2)
  | st, .streamValue :: rest => do
    let t ← leafText v
    let (o1, s1) := pad st t
    let (o2, s2) ← runTrace v children s1 rest
    some (o1 ++ o2, s2)
  | st, .hexdump :: rest => do
    let bytes ← (match v with | .blob b => some b | _ => none)
    let (o2, s2) ← runTrace v children st rest          -- hexdump works under its own sentry (Tie/Hexdump.lean)
    some (Print.hexdump bytes ++ o2, s2)
  | _, .toPrinter :: _ => none
  | _, .toStreamer :: _ => none

/-- `print(os, t)`: the null test comes first; a null value is written as "nullptr" under a sentry; anything else goes to
    `printer<T>`, whose default goes to `streamer<T>`. -/
theorem print_dispatch : Cxx.print_top true = [PrTok.sentry, PrTok.lit "nullptr"] ∧
    Cxx.print_top false = [PrTok.toPrinter] ∧ Cxx.printer_default = [PrTok.toStreamer] := ⟨rfl, rfl, rfl⟩

theorem pad_sentry (s : String) : pad sentrySt s = (s, sentrySt) := by
  simp [pad, sentrySt]

/-- a null value, at any depth (the recursive calls go through `print` again): "nullptr", stream state untouched. -/
theorem print_null_tie (st : St) (v : PV) : runTrace v [] st (Cxx.print_top true) = some ("nullptr", st) := by
  simp [print_dispatch.1, runTrace, pad_sentry]

theorem print_null_model (st : St) (v : PV) (hn : isNull v = true) : print st v = some ("nullptr", st) := by
  cases v <;> simp [isNull] at hn <;> simp [print, isNull, hn]
  all_goals (rename_i x; cases x <;> simp_all [print, isNull])

/-- a streamable value: its own `operator<<` under a sentry — formatted with the default state, caller's state restored. -/
theorem streamer_streamable_tie (st : St) (v : PV) :
    runTrace v [] st Cxx.streamer_streamable = (leafText v).map (fun t => (t, st)) := by
  have : Cxx.streamer_streamable = [PrTok.sentry, PrTok.streamValue] := rfl
  rw [this]
  cases h : leafText v <;> simp [runTrace, h, pad_sentry]

/-- an object with neither `operator<<` nor iteration: hex dump. -/
theorem streamer_opaque_tie (st : St) (bytes : List Nat) :
    runTrace (.blob bytes) [] st Cxx.streamer_opaque = print st (.blob bytes) := by
  have : Cxx.streamer_opaque = [PrTok.hexdump] := rfl
  rw [this]; simp [runTrace, print]

/-- a pair: "{ " first ", " second " }" with both components printed recursively. -/
theorem streamer_pair_tie (st : St) (a b : PV) :
    runTrace (.pair a b) [a, b] st Cxx.streamer_pair = print st (.pair a b) := by
  have : Cxx.streamer_pair =
      [PrTok.lit "{ ", PrTok.printSub 0, PrTok.lit ", ", PrTok.printSub 1, PrTok.lit " }"] := rfl
  rw [this]
  simp only [runTrace, print, List.getElem?_cons_zero, List.getElem?_cons_succ, Option.bind_eq_bind, Option.bind_some]
  cases h1 : print (pad st "{ ").2 a with
  | none => simp [h1]
  | some r1 =>
    simp only [h1, Option.bind_some]
    cases h2 : print (pad r1.2 ", ").2 b with
    | none => simp [h2]
    | some r2 => simp [h2, String.append_assoc]

/-- the tokens of the element loop: separator, element, with the separator empty before the first. -/
def seqToks : List Nat → Bool → List PrTok
  | [], _ => []
  | i :: is, first => PrTok.lit (if first then "" else ", ") :: PrTok.printSub i :: seqToks is false

theorem seq_loop (els : List Nat) (acts : List PrTok) (first : Bool) :
    runLoop (fun element (s : List PrTok × String) =>
        (ForInStep.yield (s.1 ++ [PrTok.lit s.2] ++ [PrTok.printSub element], ", ") : Id _)) els
        (acts, if first then "" else ", ") =
      (acts ++ seqToks els first, if els.isEmpty then (if first then "" else ", ") else ", ") := by
  induction els generalizing acts first with
  | nil => simp [runLoop, seqToks]
  | cons i is ih =>
    rw [runLoop]
    simp only [Id.run]
    have := ih (acts ++ [PrTok.lit (if first then "" else ", ")] ++ [PrTok.printSub i]) false
    simp only [Bool.false_eq_true, if_false] at this
    rw [this]
    simp [seqToks, List.append_assoc]

theorem streamer_collection_eq (els : List Nat) :
    Cxx.streamer_collection els = [PrTok.lit "{ "] ++ seqToks els true ++ [PrTok.lit " }"] := by
  unfold Cxx.streamer_collection
  simp only [Id.run, forIn_eq_runLoop, bind, pure, List.nil_append]
  have := seq_loop els [PrTok.lit "{ "] true
  simp only [if_true] at this
  rw [this]

theorem streamer_tuple_eq (els : List Nat) :
    Cxx.streamer_tuple els = [PrTok.lit "{ "] ++ seqToks els true ++ [PrTok.lit " }"] := by
  unfold Cxx.streamer_tuple
  simp only [Id.run, forIn_eq_runLoop, bind, pure, List.nil_append]
  have := seq_loop els [PrTok.lit "{ "] true
  simp only [if_true] at this
  rw [this]

theorem runTrace_append (v : PV) (ch : List PV) (st : St) (a b : List PrTok)
    (ha : ∀ t ∈ a, (∃ s, t = PrTok.lit s) ∨ (∃ i, t = PrTok.printSub i)) :
    runTrace v ch st (a ++ b) =
      (runTrace v ch st a).bind (fun r => (runTrace v ch r.2 b).map (fun r2 => (r.1 ++ r2.1, r2.2))) := by
  induction a generalizing st with
  | nil => simp [runTrace]
  | cons t a ih =>
    have ha' : ∀ t ∈ a, (∃ s, t = PrTok.lit s) ∨ (∃ i, t = PrTok.printSub i) := fun t h => ha t (List.mem_cons_of_mem _ h)
    rcases ha t (List.mem_cons_self) with ⟨s, rfl⟩ | ⟨i, rfl⟩
    · simp only [List.cons_append, runTrace, ih _ ha', Option.bind_eq_bind]
      cases runTrace v ch (pad st s).2 a with
      | none => simp
      | some r =>
        simp only [Option.bind_some]
        cases runTrace v ch r.2 b <;> simp [String.append_assoc]
    · simp only [List.cons_append, runTrace, Option.bind_eq_bind]
      cases ch[i]? with
      | none => simp
      | some c =>
        simp only [Option.bind_some]
        cases print st c with
        | none => simp
        | some r1 =>
          simp only [Option.bind_some, ih _ ha']
          cases runTrace v ch r1.2 a with
          | none => simp
          | some r =>
            simp only [Option.bind_some]
            cases runTrace v ch r.2 b <;> simp [String.append_assoc]

/-- the element loop, read on the stream, is the model's `printSeq` (elements `k, k+1, …` of the children). -/
theorem seqToks_run (v : PV) (pre l : List PV) (st : St) (first : Bool) :
    runTrace v (pre ++ l) st (seqToks (List.range' pre.length l.length) first) = printSeq st l first := by
  induction l generalizing pre st first with
  | nil => simp [seqToks, runTrace, printSeq]
  | cons c l ih =>
    simp only [List.length_cons, List.range'_succ, seqToks, runTrace, printSeq, Option.bind_eq_bind]
    have hget : (pre ++ c :: l)[pre.length]? = some c := by simp
    rw [hget]
    simp only [Option.bind_some]
    cases h1 : print (pad st (if first then "" else ", ")).2 c with
    | none => simp
    | some r1 =>
      simp only [Option.bind_some]
      have := ih (pre ++ [c]) r1.2 false
      simp only [List.append_assoc, List.singleton_append, List.length_append, List.length_singleton] at this
      rw [this]
      cases printSeq r1.2 l false <;> simp [String.append_assoc]

theorem seqToks_shape (els : List Nat) (first : Bool) :
    ∀ t ∈ seqToks els first, (∃ s, t = PrTok.lit s) ∨ (∃ i, t = PrTok.printSub i) := by
  induction els generalizing first with
  | nil => simp [seqToks]
  | cons i is ih =>
    intro t ht
    simp only [seqToks, List.mem_cons] at ht
    rcases ht with rfl | rfl | ht
    · exact Or.inl ⟨_, rfl⟩
    · exact Or.inr ⟨_, rfl⟩
    · exact ih false t ht

theorem braces_run (v : PV) (l : List PV) (st : St) :
    runTrace v l st ([PrTok.lit "{ "] ++ seqToks (List.range l.length) true ++ [PrTok.lit " }"]) =
      (do let (o1, s1) := pad st "{ "
          let (o2, s2) ← printSeq s1 l true
          let (o3, s3) := pad s2 " }"
          some (o1 ++ o2 ++ o3, s3)) := by
  rw [List.append_assoc]
  simp only [List.singleton_append, runTrace, Option.bind_eq_bind]
  rw [runTrace_append _ _ _ _ _ (seqToks_shape _ _)]
  have := seqToks_run v [] l (pad st "{ ").2 true
  simp only [List.length_nil, List.nil_append] at this
  rw [List.range_eq_range', this]
  cases printSeq (pad st "{ ").2 l true with
  | none => simp
  | some r => simp [runTrace, String.append_assoc]

/-- a collection: "{ " e₀ ", " e₁ … " }", every element printed recursively (so null elements are caught by the null
    test of `print`, at any depth). -/
theorem streamer_collection_tie (st : St) (l : List PV) :
    runTrace (.coll l) l st (Cxx.streamer_collection (List.range l.length)) = print st (.coll l) := by
  rw [streamer_collection_eq, braces_run]; simp [print]

/-- a tuple: the same shape. -/
theorem streamer_tuple_tie (st : St) (l : List PV) :
    runTrace (.tuple l) l st (Cxx.streamer_tuple (List.range l.length)) = print st (.tuple l) := by
  rw [streamer_tuple_eq, braces_run]; simp [print]

end Tromp.Tie
