/-
  Tie/HandleValidate.lean — tie theorem(s) for the regenerated translation Gen/Cxx/HandleValidate.lean (tools/cxx2lean.py).
-/
import TrompModel.Gen.Cxx.HandleValidate
import TrompModel.Tie.Base

namespace Tromp.Tie
open World

theorem handle_validate_order (att : Bool) :
    Cxx.handle_validate att = if att then [Act.stmt "seq->validate_match(s, this, seq_name, match_name, loc)"] else [] := by
  cases att <;> rfl

end Tromp.Tie
