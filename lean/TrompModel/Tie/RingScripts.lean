/-
  Tie/RingScripts.lean — which ring operations the translated C++ performs.

  Props/C14_WorldRing.lean and Props/C14_SeqRing.lean prove, for each World operation, that a certain *script* of ring
  operations takes a heap representing the lists before to one representing them after.  That the library runs exactly
  that script was an inspection.  Here it is read off the regenerated translations: the action trace of
  `call_matcher::run_actions`, `lifetime_monitor::notify` and `call_matcher_list::decommission` is interpreted statement by
  statement into ring operations (`this->unlink()` ↦ `unlink` of the expectation's address, `saturated_list.push_back(this)`
  ↦ `push_back` on the saturated list object of the mock function, `sequences->retire_predecessors()` / `sequences->retire()`
  ↦ the scripts of Props/C14_SeqRing.lean, whose own C++ is tied in Tie/RetireUntil.lean, Tie/HandleRetire.lean,
  Tie/AllRetire*.lean), and the interpretation of the trace is proved to be the script of the heap theorem.
-/
import TrompModel.Gen.Cxx.RunActions
import TrompModel.Gen.Cxx.Notify
import TrompModel.Gen.Cxx.Decommission
import TrompModel.Tie.RunActions
import TrompModel.Tie.Notify
import TrompModel.Tie.Decommission
import TrompModel.Tie.SemKill
import TrompModel.Props.C14_SeqRing
import TrompModel.Props.C14_SeqHeapRefines
import TrompModel.Tie.IsCompleted
import TrompModel.Tie.HandleRetire
import TrompModel.Tie.HandleDetach
import TrompModel.Tie.SeqDtor
import TrompModel.Tie.Cost
import TrompModel.Tie.RetireUntil
import TrompModel.Props.C14_HandlePending
import TrompModel.Props.C14_HandleWorld

namespace Tromp.Tie
open Tromp Tromp.Ring World Tromp.C14Ring

/-! ### the mock-function lists -/

/-- what one statement of an action trace of the expectation `e` (on function `f` of object `o`) does to the
    mock-function lists. -/
def listOpsOfAct (o f e : Nat) (a : Act) : List (Ring.Op Addr) :=
  if a = Act.stmt "this->unlink()" then [Ring.Op.unlink (Addr.exp e)]
  else if a = Act.stmt "saturated_list.push_back(this)" then [Ring.Op.pushBack (Addr.sat o f) (Addr.exp e)]
  else match a with
    | Act.on "unlink" m => [Ring.Op.unlink (Addr.exp m)]        -- `m.unlink()` inside `decommission`
    | _ => []

def listOps (o f e : Nat) (acts : List Act) : List (Ring.Op Addr) := acts.flatMap (listOpsOfAct o f e)

theorem listOps_append (o f e : Nat) (a b : List Act) : listOps o f e (a ++ b) = listOps o f e a ++ listOps o f e b := by
  simp [listOps]

theorem listOps_actions (o f e : Nat) (actions : List Nat) : listOps o f e (actions.map (Act.on "action")) = [] := by
  induction actions with
  | nil => rfl
  | cons a as ih =>
    simp only [List.map_cons, listOps, List.flatMap_cons] at ih ⊢
    rw [ih]
    rfl

/-- **`run_actions` touches the lists only when the call saturates the expectation, and then by `unlink` followed by
    `push_back` on the saturated list** — read off the translation of the C++. -/
theorem run_actions_list_script (o f e : Nat) (forbidden callable saturates : Bool) (actions : List Nat) :
    listOps o f e (Cxx.run_actions forbidden callable saturates actions) =
      if !forbidden && callable && saturates then [Ring.Op.unlink (Addr.exp e), Ring.Op.pushBack (Addr.sat o f) (Addr.exp e)] else [] := by
  rw [run_actions_order]
  unfold runActionsOrder
  cases forbidden <;> cases callable <;> cases saturates <;>
    simp only [Bool.not_true, Bool.not_false, Bool.false_eq_true, if_false, if_true, Bool.and_true, Bool.and_false, Bool.true_and,
      listOps_append, listOps_actions, List.append_nil] <;> rfl

/-- **the saturating call, from the C++ text to the pointers**: running the ring operations the translated `run_actions`
    performs takes a heap representing the lists before the call to one representing the lists after the model's `bookkeep`. -/
theorem run_actions_heap (hp : Heap Addr) {w : World} (h : WF w) (R : Rep hp (ringOf w)) (o f e : Nat) (x : Exp) (m : Mock)
    (hm : w.mocks o = some m) (hx : w.exps e = some x) (hin : e ∈ m.active f) (hf : f < nFns)
    (hw' : WF (w.bookkeep o f e x m)) (actions : List Nat) :
    Rep (run (ringOf w, hp) (listOps o f e (Cxx.run_actions false true (decide (x.count + 1 = x.hi)) actions))).2
        (ringOf (w.bookkeep o f e x m)) := by
  rw [run_actions_list_script]
  by_cases hsat : x.count + 1 = x.hi
  · simp only [hsat, decide_true, Bool.not_false, Bool.and_self, if_true]
    exact saturating_call_heap hp h R o f e x m hm hx hin hf hsat hw'
  · simp only [hsat, decide_false, Bool.and_false, Bool.false_eq_true, if_false]
    have := accepted_call_ring h o f e x m hm hx hin
    rw [if_neg hsat] at this
    show Rep hp _
    rw [this]; exact R

/-! ### the sequence lists -/

/-- what one statement of an action trace of the owner `ow` (registered in the sequences `ss`) does to the sequences'
    pending lists in the world `w`. -/
def seqOpsOfAct (w : World) (ow : Owner) (ss : List Nat) (a : Act) : List (Ring.Op SAddr) :=
  if a = Act.stmt "sequences->retire_predecessors()" then skipScript w ow ss
  else if a = Act.stmt "sequences->retire()" then retireScript ow ss
  else []

def seqOps (w : World) (ow : Owner) (ss : List Nat) (acts : List Act) : List (Ring.Op SAddr) :=
  acts.flatMap (seqOpsOfAct w ow ss)

theorem seqOps_append (w : World) (ow : Owner) (ss : List Nat) (a b : List Act) :
    seqOps w ow ss (a ++ b) = seqOps w ow ss a ++ seqOps w ow ss b := by
  simp [seqOps]

theorem seqOps_actions (w : World) (ow : Owner) (ss : List Nat) (actions : List Nat) :
    seqOps w ow ss (actions.map (Act.on "action")) = [] := by
  induction actions with
  | nil => rfl
  | cons a as ih =>
    simp only [List.map_cons, seqOps, List.flatMap_cons] at ih ⊢
    rw [ih]
    rfl

theorem seqOps_cons (w : World) (ow : Owner) (ss : List Nat) (a : Act) (as : List Act) :
    seqOps w ow ss (a :: as) = seqOpsOfAct w ow ss a ++ seqOps w ow ss as := rfl

theorem seqOps_nil (w : World) (ow : Owner) (ss : List Nat) : seqOps w ow ss [] = [] := rfl

theorem seqOp_ok (w : World) (ow : Owner) (ss : List Nat) : seqOpsOfAct w ow ss (Act.stmt "send_ok_report(name)") = [] := rfl
theorem seqOp_inc (w : World) (ow : Owner) (ss : List Nat) : seqOpsOfAct w ow ss (Act.stmt "sequences->increment_call()") = [] := rfl
theorem seqOp_skip (w : World) (ow : Owner) (ss : List Nat) :
    seqOpsOfAct w ow ss (Act.stmt "sequences->retire_predecessors()") = skipScript w ow ss := rfl
theorem seqOp_retire (w : World) (ow : Owner) (ss : List Nat) : seqOpsOfAct w ow ss (Act.stmt "sequences->retire()") = retireScript ow ss := rfl
theorem seqOp_unlink (w : World) (ow : Owner) (ss : List Nat) : seqOpsOfAct w ow ss (Act.stmt "this->unlink()") = [] := rfl
theorem seqOp_push (w : World) (ow : Owner) (ss : List Nat) : seqOpsOfAct w ow ss (Act.stmt "saturated_list.push_back(this)") = [] := rfl
theorem seqOp_died (w : World) (ow : Owner) (ss : List Nat) : seqOpsOfAct w ow ss (Act.stmt "died = true") = [] := rfl
theorem seqOp_validate (w : World) (ow : Owner) (ss : List Nat) :
    seqOpsOfAct w ow ss (Act.stmt "sequences->validate(severity::nonfatal, call_name, loc)") = [] := rfl

/-- **`run_actions` on the sequence lists**: `retire_predecessors()` always, `retire()` on saturation, in that order. -/
theorem run_actions_seq_script (w : World) (e : Nat) (x : Exp) (actions : List Nat) :
    seqOps w (.exp e) x.seqs (Cxx.run_actions false true (decide (x.count + 1 = x.hi)) actions) = callSeqScript w e x := by
  rw [run_actions_order]
  unfold runActionsOrder callSeqScript
  by_cases hsat : x.count + 1 = x.hi
  · simp only [hsat, decide_true, Bool.not_true, Bool.false_eq_true, if_false, if_true, seqOps_append, seqOps_actions, List.append_nil,
      seqOps_cons, seqOps_nil, seqOp_ok, seqOp_inc, seqOp_skip, seqOp_retire, seqOp_unlink, seqOp_push, List.nil_append]
  · simp only [hsat, decide_false, Bool.not_true, Bool.false_eq_true, if_false, seqOps_append, seqOps_actions, List.append_nil,
      seqOps_cons, seqOps_nil, seqOp_ok, seqOp_inc, seqOp_skip, List.nil_append]

/-- **an accepted call on the sequence lists, from the C++ text to the pointers.** -/
theorem run_actions_seq_heap {w : World} (h : WFSeq w) {n : Nat} {hp : Heap SAddr} (R : Rep hp (seqRingOf w n))
    (o f e : Nat) (x : Exp) (m : Mock) (hx : w.exps e = some x) (actions : List Nat) :
    Rep (run (seqRingOf w n, hp) (seqOps w (.exp e) x.seqs (Cxx.run_actions false true (decide (x.count + 1 = x.hi)) actions))).2
        (seqRingOf (w.bookkeep o f e x m) n) := by
  rw [run_actions_seq_script]
  exact accepted_call_seq_heap h R o f e x m hx

/-- **`lifetime_monitor::notify` on the sequence lists**: `retire_predecessors()` then `retire()`. -/
theorem notify_seq_script (w : World) (mon : Nat) (ss : List Nat) :
    seqOps w (.mon mon) ss Cxx.notify = skipScript w (.mon mon) ss ++ retireScript (.mon mon) ss := by
  rw [notify_order]
  simp only [seqOps_cons, seqOps_nil, seqOp_died, seqOp_validate, seqOp_inc, seqOp_skip, seqOp_retire, List.nil_append, List.append_nil]

/-- the death of a watched object, on the sequence lists: after the ring operations of the translated `notify` the heap
    represents the pending lists of the world in which the monitor has skipped its predecessors and left its sequences. -/
theorem notify_seq_heap {w : World} {n : Nat} {hp : Heap SAddr} (R : Rep hp (seqRingOf w n)) (mon : Nat) (ss : List Nat)
    (hss : ss.Nodup) (hnd : ∀ s, (w.pendingOf s).Nodup) :
    Rep (run (seqRingOf w n, hp) (seqOps w (.mon mon) ss Cxx.notify)).2
        (seqRingOf ((w.retirePredecessors (.mon mon) ss).retireOwn (.mon mon) ss) n) := by
  rw [notify_seq_script, C14Ring.run_append]
  obtain ⟨_, e1⟩ := skip_run w n hp (.mon mon) ss hss hnd
  have R1 := skip_heap R (.mon mon) ss hss hnd
  have hst : run (seqRingOf w n, hp) (skipScript w (.mon mon) ss) =
      (seqRingOf (w.retirePredecessors (.mon mon) ss) n, (run (seqRingOf w n, hp) (skipScript w (.mon mon) ss)).2) := by
    rw [← e1]
  rw [hst]
  exact retire_heap R1 (.mon mon) ss (retirePredecessors_nodup w _ _ hnd)

/-! ### destruction of a mock object -/

/-- **`decommission` unlinks every element of the list it is given, in list order** (and nothing else touches a ring). -/
theorem decommission_list_script (o f e : Nat) (l : List Nat) :
    listOps o f e (Cxx.decommission l) = l.map (fun m => Ring.Op.unlink (Addr.exp m)) := by
  rw [decommission_order]
  induction l with
  | nil => rfl
  | cons a as ih =>
    simp only [List.flatMap_cons, listOps, List.map_cons, List.flatMap_append] at ih ⊢
    rw [ih]
    rfl

/-- the ring operations of one statement of `~expectations` of function `f`: each `decommission()` stands for the ring
    operations of its own translation on the list it is called on. -/
def expDtorOps (m : Mock) (f : Nat) (a : Act) : List (Ring.Op Addr) :=
  if a = Act.stmt "active.decommission()" then listOps 0 0 0 (Cxx.decommission (m.active f))
  else if a = Act.stmt "saturated.decommission()" then listOps 0 0 0 (Cxx.decommission (m.saturated f))
  else []

theorem expectations_dtor_list_script (m : Mock) (f : Nat) :
    Cxx.expectations_dtor.flatMap (expDtorOps m f) = (m.active f ++ m.saturated f).map (fun e => Ring.Op.unlink (Addr.exp e)) := by
  rw [expectations_dtor_order.1]
  have h1 : expDtorOps m f (Act.stmt "active.decommission()") = listOps 0 0 0 (Cxx.decommission (m.active f)) := rfl
  have h2 : expDtorOps m f (Act.stmt "saturated.decommission()") = listOps 0 0 0 (Cxx.decommission (m.saturated f)) := rfl
  simp only [List.flatMap_cons, List.flatMap_nil, h1, h2, decommission_list_script, List.append_nil, List.map_append]

/-- **destruction of a mock object, from the C++ text to the pointers**: the ring operations of the translated
    `~expectations` of every mock function (members are destroyed in reverse order of declaration) are the script of
    `kill_heap`; so after them the heap represents the lists of the world after the model's `kill` step. -/
theorem kill_script_from_cxx (m : Mock) :
    (List.range nFns).reverse.flatMap (fun f => Cxx.expectations_dtor.flatMap (expDtorOps m f)) = killScript m := by
  unfold killScript killed allListed
  simp only [expectations_dtor_list_script, List.map_flatMap]

theorem kill_heap_from_cxx (hp : Heap Addr) {w : World} (h : WF w) (R : Rep hp (ringOf w)) (o : Nat) (m : Mock)
    (hm : w.mocks o = some m) :
    Rep (run (ringOf w, hp) ((List.range nFns).reverse.flatMap (fun f => Cxx.expectations_dtor.flatMap (expDtorOps m f)))).2
        (ringOf (w.killMock o m).1) := by
  rw [kill_script_from_cxx]; exact kill_heap hp h R o m hm

/-! ### from the pointers back up: `sequence::is_completed()` evaluated on the heap -/

/-- the owner a handle address belongs to. -/
def ownerOfHandle : SAddr → Option Owner
  | .handle o _ => some o
  | .pending _ => none

/-- **`is_completed()` on the real layout**: at any point of any history, the translated `sequence_type::is_completed` run over
    the elements an iterator visits in the heap (`begin()` … `end()` of the list object of sequence `s`) returns the answer of the
    model's `completed` query — C++ text → loop over pointers → World, every arrow a theorem. -/
theorem is_completed_on_heap (n : Nat) (ops : List Tromp.Op) (hb : ∀ op ∈ ops, ∀ s ∈ registers op, s < n) (s : Nat) (hs : s < n) :
    let w := (World.run {} ops).1
    let hp := (seqHeapRun n ({}, Heap.init) ops).2
    Cxx.is_completed (fun a => match ownerOfHandle a with | some o => w.ownerSat o | none => true)
        (toList hp (SAddr.pending s) ((w.pendingOf s).length + 1)) =
      (w.pendingOf s).all w.ownerSat := by
  intro w hp
  have hwalk := (pending_walkable n ops hb s hs).1
  simp only [List.length_map] at hwalk
  rw [hwalk, is_completed_eq, List.all_map]
  rfl

/-! ### the handle operations of the machine (Props/C14_HandleMachine.lean), read off the translations -/

/-- what one statement of `sequence_matcher::retire` / `detach` does to the rings (handle of owner `o` in sequence `s`, of `n`). -/
def handleOpsOfAct (n : Nat) (o : Owner) (s : Nat) (a : Act) : List (Ring.Op SAddr) :=
  if a = Act.stmt "this->unlink()" then [Ring.Op.unlink (SAddr.handle o s)]
  else if a = Act.stmt "seq->add_retired(this)" then [Ring.Op.pushBack (retiredObj n s) (SAddr.handle o s)]
  else []

/-- **`sequence_matcher::retire` is the machine's `retire`**: `unlink()`, then `push_back` on the sequence's retired ring exactly
    if the handle is still attached (`if (seq)`). -/
theorem handle_retire_script (n : Nat) (st : HState) (o : Owner) (s : Nat) :
    (Cxx.handle_retire (st.ptr o s)).flatMap (handleOpsOfAct n o s) = hScript n st (.retire o s) := by
  rw [handle_retire_order]
  cases h : st.ptr o s <;> simp [hScript, h] <;> rfl

/-- **`sequence_matcher::detach` is the machine's `detach`** on the rings (its second statement, `seq = nullptr`, is the
    machine's clearing of the attached flag). -/
theorem handle_detach_script (n : Nat) (st : HState) (o : Owner) (s : Nat) :
    Cxx.handle_detach.flatMap (handleOpsOfAct n o s) = hScript n st (.detach o s) := by
  rw [handle_detach_order]; rfl

/-! ### `~sequence_type` evaluated on the machine's rings -/

/-- **the teardown report of a sequence object, on the real layout**: at any point of any history, the translated
    `~sequence_type` run over what an iterator visits on the machine's pending and retired rings of sequence `s` reports exactly
    the World's pending list of `s`, in registration order (nothing if it is empty), whatever is on the retired ring, and leaves
    both lists empty — C06's teardown clause, from the C++ text down to the pointers and back. -/
theorem seq_dtor_on_machine (n : Nat) (ops : List Tromp.Op) (hb : ∀ op ∈ ops, ∀ s ∈ registers op, s < n) (s : Nat) (hs : s < n) :
    let st := (machineRun n ({}, hInit n) ops).2
    let w := (World.run {} ops).1
    Cxx.seq_dtor (toList st.hp (SAddr.pending s) ((st.a.lists (SAddr.pending s)).length + 1))
                 (toList st.hp (retiredObj n s) ((st.a.lists (retiredObj n s)).length + 1)) =
      (if (w.pendingOf s).isEmpty then none
       else some (Sev.nonfatal, teardownText ((w.pendingOf s).map (fun o => SAddr.handle o s))), [], []) := by
  intro st w
  obtain ⟨I, _⟩ := machine_follows_world n ops hb
  have hp := machine_pending_is_world n ops hb s hs
  have r1 := I.rep.rings (SAddr.pending s) (pending_head I (by omega))
  have r2 := I.rep.rings (retiredObj n s) (pending_head I (k := n + s) (by omega))
  have w1 := toList_ring r1 0
  have w2 := toList_ring r2 0
  simp only [Nat.add_zero] at w1 w2
  rw [w1, w2, seq_dtor_eq, hp]
  simp only [List.isEmpty_iff, List.map_eq_nil_iff]
  rfl

/-! ### `sequence_type::cost` evaluated on the machine's pending ring -/

theorem seqCostGo_map {α β : Type} [DecidableEq α] [DecidableEq β] (f : α → β) (hf : Function.Injective f)
    (sat : α → Bool) (satb : β → Bool) (hs : ∀ a, satb (f a) = sat a) (h : α) (k : Nat) (l : List α) :
    seqCostGo satb (f h) k (l.map f) = seqCostGo sat h k l := by
  induction l generalizing k with
  | nil => rfl
  | cons x xs ih =>
    simp only [List.map_cons, seqCostGo, hs]
    by_cases e : x = h
    · simp [e]
    · have : f x ≠ f h := fun e' => e (hf e')
      simp only [e, this, if_false]
      split
      · exact ih _
      · rfl

/-- **`cost()` on the real layout**: at any point of any history, the translated `sequence_type::cost` of the handle of owner `o`
    run over what an iterator visits on the machine's pending ring of sequence `s` is the model's cost of `o` in the World's
    pending list of `s` (`~0U` for "not callable") — the number `find` compares when several expectations match (C02, C05). -/
theorem cost_on_machine (n : Nat) (ops : List Tromp.Op) (hb : ∀ op ∈ ops, ∀ s ∈ registers op, s < n) (s : Nat) (hs : s < n) (o : Owner)
    (hlen : ((World.run {} ops).1.pendingOf s).length < topU) :
    let st := (machineRun n ({}, hInit n) ops).2
    let w := (World.run {} ops).1
    Cxx.cost (fun a => match ownerOfHandle a with | some o' => w.ownerSat o' | none => true) (SAddr.handle o s)
        (toList st.hp (SAddr.pending s) ((st.a.lists (SAddr.pending s)).length + 1)) =
      (seqCost w.ownerSat o (w.pendingOf s)).toU := by
  intro st w
  obtain ⟨I, _⟩ := machine_follows_world n ops hb
  have hp := machine_pending_is_world n ops hb s hs
  have r1 := I.rep.rings (SAddr.pending s) (pending_head I (by omega))
  have w1 := toList_ring r1 0
  simp only [Nat.add_zero] at w1
  rw [w1, hp, cost_eq _ _ _ (by simpa using hlen)]
  unfold seqCost
  rw [seqCostGo_map (fun o' => SAddr.handle o' s) (handle_injective s) w.ownerSat _ (fun a => rfl)]

/-! ### `sequence_type::retire_until` evaluated on the machine's pending ring -/

theorem dropWhile_map_ne {α β : Type} [DecidableEq α] [DecidableEq β] (f : α → β) (hf : Function.Injective f) (h : α) (l : List α) :
    (l.map f).dropWhile (· ≠ f h) = (l.dropWhile (· ≠ h)).map f := by
  induction l with
  | nil => rfl
  | cons x xs ih =>
    by_cases e : x = h
    · subst e; simp [List.dropWhile]
    · have : f x ≠ f h := fun e' => e (hf e')
      simp only [List.map_cons, List.dropWhile, ne_eq, this, not_false_eq_true, decide_true, e]
      exact ih

theorem retireUntil_map {α β : Type} [DecidableEq α] [DecidableEq β] (f : α → β) (hf : Function.Injective f) (h : α) (l : List α) :
    retireUntil (f h) (l.map f) = (retireUntil h l).map f := by
  unfold retireUntil
  have hmem : f h ∈ l.map f ↔ h ∈ l := by
    constructor
    · intro hm; obtain ⟨a, ha, e⟩ := List.mem_map.mp hm; rw [← hf e]; exact ha
    · intro hm; exact List.mem_map.mpr ⟨h, hm, rfl⟩
  by_cases c : h ∈ l
  · simp only [c, hmem.2 c, if_true]; exact dropWhile_map_ne f hf h l
  · have : ¬ f h ∈ l.map f := fun hm => c (hmem.1 hm)
    simp only [c, this, if_false]

/-- **`retire_until` on the real layout**: the translated `sequence_type::retire_until(m)` run over what an iterator visits on
    the machine's pending ring of `s` leaves exactly the handles of the model's `retireUntil o (pendingOf s)` — what
    `skipScript` / `skipH` then unlink is what the C++ loop retires. -/
theorem retire_until_on_machine (n : Nat) (ops : List Tromp.Op) (hb : ∀ op ∈ ops, ∀ s ∈ registers op, s < n) (s : Nat) (hs : s < n)
    (o : Owner) :
    let st := (machineRun n ({}, hInit n) ops).2
    let w := (World.run {} ops).1
    Cxx.retire_until (SAddr.handle o s) (toList st.hp (SAddr.pending s) ((st.a.lists (SAddr.pending s)).length + 1)) =
      (retireUntil o (w.pendingOf s)).map (fun o' => SAddr.handle o' s) := by
  intro st w
  obtain ⟨I, _⟩ := machine_follows_world n ops hb
  have hp := machine_pending_is_world n ops hb s hs
  have r1 := I.rep.rings (SAddr.pending s) (pending_head I (by omega))
  have w1 := toList_ring r1 0
  simp only [Nat.add_zero] at w1
  rw [w1, hp, retire_until_eq]
  exact retireUntil_map (fun o' => SAddr.handle o' s) (handle_injective s) o _

end Tromp.Tie
