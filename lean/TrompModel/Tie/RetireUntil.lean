/-
  Tie/RetireUntil.lean — tie theorems: the regenerated translation (Gen/Cxx) equals the hand-written model definition.
  See tools/cxx2lean.py and DESIGN.md §12.
-/
import TrompModel.Gen.Cxx.RetireUntil
import TrompModel.Tie.Base

namespace Tromp.Tie
open World
variable {α : Type}

theorem retire_until_eq {α : Type} [DecidableEq α] (m : α) (l : List α) :
    Cxx.retire_until m l = retireUntil m l := by
  unfold Cxx.retire_until retireUntil
  simp only [Id.run, forIn_eq_runLoop, bind, pure]
  -- first loop: is `m` still in the list?
  have key1 := fun body => runLoop_spec (α := α) body (fun (_ : Bool) => True)
    (fun l (st : Bool) => st || decide (m ∈ l)) (fun (st : Bool) => st)
  generalize hp : runLoop _ l false = p
  have h1 := key1 _ ?_ ?_ l false p trivial hp
  -- second loop: pop the front until `m` is the front
  have key2 := fun body => runLoop_spec_list (α := α) body
    (fun l (st : Option (List α) × List α) => st.1 = none ∧ st.2 = l)
    (fun l (_ : Option (List α) × List α) => l.dropWhile (fun x => decide (x ≠ m)))
    (fun (st : Option (List α) × List α) => match st.1 with | some r => r | none => st.2)
  generalize hr : runLoop _ l (none, l) = r
  have h2 := key2 _ ?_ ?_ l (none, l) r ⟨rfl, rfl⟩ hr
  · simp only [Bool.false_or] at h1
    subst h1
    by_cases hm : m ∈ l
    · simp only [hm, decide_true, Bool.not_true, Bool.false_eq_true, if_false, if_true]
      revert h2; rcases r with ⟨_ | r, k⟩ <;> simp
    · simp [hm]
  · rintro ⟨r, k⟩ ⟨hr, hk⟩
    simp only at hr hk; subst hr; subst hk; simp
  · rintro a as ⟨r, k⟩ ⟨hr, hk⟩
    simp only at hr hk; subst hr; subst hk
    simp only [Id.run]
    by_cases ha : a = m
    · simp [ha]
    · simp [ha]
  · intro s _; simp
  · intro a as s _
    simp only [Id.run]
    by_cases ha : a = m
    · simp [ha]
    · have : ¬ m = a := fun h => ha h.symm
      simp [ha, this]

/-- `sequence_type::retire_until` is the model's `retireUntil` (used by `retirePredecessors`). -/
theorem retire_tie (o : Owner) (l : List Owner) : Cxx.retire_until o l = retireUntil o l := retire_until_eq o l

end Tromp.Tie
