/-
  Tie/Mkarg.lean — what `_k` is bound to (C09, C19): `mkarg<N>(params)` and the two `arg<N>` overloads it dispatches to,
  regenerated from mock.hpp (Gen/Cxx/{Mkarg,ArgInRange,ArgOutOfRange}.lean).
-/
import TrompModel.Gen.Cxx.ArgInRange
import TrompModel.Gen.Cxx.ArgOutOfRange
import TrompModel.Gen.Cxx.Mkarg
import TrompModel.Tie.Base

namespace Tromp.Tie

/-- `mkarg<N>` on a parameter tuple of `size` elements: the reference held at position `N − 1` when `N ≤ size`,
    otherwise a value of type `illegal_argument` (every use of which is a static_assert "illegal argument"). -/
theorem mkarg_tie (N size : Nat) : Cxx.mkarg N size = if N ≤ size then some (N - 1) else none := rfl

/-- with the regenerated macro table (`_k ↦ mkarg<k>`, Props/C09 `bind_positional`): `_k` is the k-th argument
    (0-based position k − 1) exactly for 1 ≤ k ≤ arity. -/
theorem underscore_k (k arity : Nat) (hk : 1 ≤ k) :
    Cxx.mkarg k arity = (if k ≤ arity then some (k - 1) else none) ∧
    (Cxx.mkarg k arity).isSome = decide (k ≤ arity) ∧
    (∀ p, Cxx.mkarg k arity = some p → p + 1 = k) := by
  refine ⟨rfl, ?_, ?_⟩
  · rw [mkarg_tie]; by_cases h : k ≤ arity <;> simp [h]
  · intro p hp; rw [mkarg_tie] at hp
    by_cases h : k ≤ arity
    · simp [h] at hp; omega
    · simp [h] at hp

end Tromp.Tie
