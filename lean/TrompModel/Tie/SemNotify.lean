/-
  Tie/SemNotify.lean — the meaning of the action trace of `lifetime_monitor::notify`: interpreting the recorded
  statements in their order gives the model's `World.notify` (state and reports).  In particular the non-fatal sequence
  validation sees the sequences *before* they move, although `died` has already been set — harmless, because the cost
  walk stops at the monitor's own handle before asking whether it is satisfied (`seqCost_congr_except`).
-/
import TrompModel.Tie.Notify
import TrompModel.Tie.SemRunActions

namespace Tromp.Tie
open World

theorem seqCostGo_congr_except {α : Type} [DecidableEq α] (sat sat' : α → Bool) (o : α)
    (h : ∀ x, x ≠ o → sat x = sat' x) (k : Nat) (l : List α) : seqCostGo sat o k l = seqCostGo sat' o k l := by
  induction l generalizing k with
  | nil => rfl
  | cons a as ih =>
    simp only [seqCostGo]
    by_cases ha : a = o
    · simp [ha]
    · simp only [ha, if_false, h a ha, ih]

def monAct (m : Nat) : Act → World × List Ev → World × List Ev
  | .stmt "died = true" => fun s =>
      match s.1.mons m with
      | some x => ({ s.1 with mons := upd s.1.mons m { x with died := true } }, s.2)
      | none => s
  | .stmt "sequences->validate(severity::nonfatal, call_name, loc)" => fun s =>
      match s.1.mons m with
      | some x => (s.1, s.2 ++ (s.1.validateAll (.mon m) x.seqs).map (s.1.rep .nonfatal))
      | none => s
  | .stmt "sequences->retire_predecessors()" => fun s =>
      match s.1.mons m with | some x => (s.1.retirePredecessors (.mon m) x.seqs, s.2) | none => s
  | .stmt "sequences->retire()" => fun s =>
      match s.1.mons m with | some x => (s.1.retireOwn (.mon m) x.seqs, s.2) | none => s
  | _ => id

theorem monAct_died (m : Nat) : monAct m (.stmt "died = true") = fun s =>
    match s.1.mons m with
    | some x => ({ s.1 with mons := upd s.1.mons m { x with died := true } }, s.2)
    | none => s := rfl
theorem monAct_validate (m : Nat) : monAct m (.stmt "sequences->validate(severity::nonfatal, call_name, loc)") = fun s =>
    match s.1.mons m with
    | some x => (s.1, s.2 ++ (s.1.validateAll (.mon m) x.seqs).map (s.1.rep .nonfatal))
    | none => s := rfl
theorem monAct_inc (m : Nat) : monAct m (.stmt "sequences->increment_call()") = id := rfl
theorem monAct_retpred (m : Nat) : monAct m (.stmt "sequences->retire_predecessors()") = fun s =>
    match s.1.mons m with | some x => (s.1.retirePredecessors (.mon m) x.seqs, s.2) | none => s := rfl
theorem monAct_retire (m : Nat) : monAct m (.stmt "sequences->retire()") = fun s =>
    match s.1.mons m with | some x => (s.1.retireOwn (.mon m) x.seqs, s.2) | none => s := rfl

theorem foldl_setSeqPending_mons' (w : World) (ss : List Nat) (g : List Owner → List Owner) :
    (ss.foldl (fun w s => w.setSeqPending s g) w).mons = w.mons := by
  induction ss generalizing w with
  | nil => rfl
  | cons s ss ih => simp only [List.foldl_cons, ih, setSeqPending_mons]

/-- setting `died` of monitor `m` does not change what `validate` reports for `m`'s own handles. -/
theorem validateAll_died (w : World) (m : Nat) (x : Mon) (ss : List Nat) :
    ({ w with mons := upd w.mons m { x with died := true } } : World).validateAll (.mon m) ss = w.validateAll (.mon m) ss := by
  unfold validateAll
  congr 1
  funext s
  unfold validateOne handleCost
  have hsat : ∀ o : Owner, o ≠ .mon m →
      ({ w with mons := upd w.mons m { x with died := true } } : World).ownerSat o = w.ownerSat o := by
    intro o ho
    cases o with
    | exp e => rfl
    | mon k =>
      have hk : k ≠ m := fun h => ho (by rw [h])
      simp [ownerSat, upd, hk]
  have hcost : seqCost ({ w with mons := upd w.mons m { x with died := true } } : World).ownerSat (.mon m)
        (({ w with mons := upd w.mons m { x with died := true } } : World).pendingOf s) =
      seqCost w.ownerSat (.mon m) (w.pendingOf s) := by
    unfold seqCost
    exact seqCostGo_congr_except _ _ _ hsat 0 _
  have hlist : ∀ l b, ({ w with mons := upd w.mons m { x with died := true } } : World).seqListing l b = w.seqListing l b := by
    intro l
    induction l with
    | nil => intro b; rfl
    | cons a as ih =>
      intro b
      have hopt : ({ w with mons := upd w.mons m { x with died := true } } : World).ownerOptional a = w.ownerOptional a := by
        cases a <;> rfl
      simp only [seqListing, hopt, ih]
  have halive : ({ w with mons := upd w.mons m { x with died := true } } : World).seqAlive s = w.seqAlive s := rfl
  have hpend : ({ w with mons := upd w.mons m { x with died := true } } : World).pendingOf s = w.pendingOf s := rfl
  rw [hcost, halive, hpend]
  simp only [hlist]

/-- **semantics of the trace of `notify` = `World.notify`**. -/
theorem notify_sem (w : World) (m : Nat) (x : Mon) (hx : w.mons m = some x) :
    Cxx.notify.foldl (fun s a => monAct m a s) (w, []) = w.notify m := by
  rw [notify_order]
  unfold World.notify
  simp only [hx, List.foldl_cons, List.foldl_nil, monAct_died, monAct_validate, monAct_inc, monAct_retpred, monAct_retire,
    id, upd_same, List.nil_append]
  have h1 : (({ w with mons := upd w.mons m { x with died := true } } : World).retirePredecessors (.mon m) x.seqs).mons m
      = some { x with died := true } := by
    unfold retirePredecessors
    rw [foldl_setSeqPending_mons']
    simp
  simp only [h1, validateAll_died]
  rfl

end Tromp.Tie
