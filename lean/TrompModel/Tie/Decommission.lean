/-
  Tie/Decommission.lean — tie theorem(s) for the regenerated translation Gen/Cxx/Decommission.lean (tools/cxx2lean.py).
-/
import TrompModel.Gen.Cxx.Decommission
import TrompModel.Tie.Base

namespace Tromp.Tie
open World

/-- `call_matcher_list::decommission`: every element, in list order: `mock_destroyed()` then `unlink()`. -/
theorem decommission_order (l : List Nat) :
    Cxx.decommission l = l.flatMap (fun m => [Act.on "mock_destroyed" m, Act.on "unlink" m]) := by
  unfold Cxx.decommission
  simp only [Id.run, forIn_eq_runLoop, bind, pure]
  have h := runLoop_append (fun m : Nat => [Act.on "mock_destroyed" m, Act.on "unlink" m]) l []
  rw [List.nil_append] at h
  rw [← h]; congr 1; funext m st; simp [List.append_assoc]

end Tromp.Tie
