/-
  Tie/TracerDtor.lean — tie theorem(s) for the regenerated translation Gen/Cxx/TracerDtor.lean (tools/cxx2lean.py).
-/
import TrompModel.Gen.Cxx.TracerDtor
import TrompModel.Tie.Base

namespace Tromp.Tie
open World

/-- `~tracer`: the dying tracer leaves the chain of live tracers, the others keep their order; for a duplicate-free
    chain that is the model's `filter (· ≠ t)`. -/
theorem tracer_dtor_tie (t : Nat) (chain : List Nat) (hn : chain.Nodup) :
    Cxx.tracer_dtor t chain = chain.filter (· ≠ t) := by
  have : Cxx.tracer_dtor t chain = chain.erase t := rfl
  rw [this, hn.erase_eq_filter]
  congr 1; funext x; by_cases hx : x = t <;> simp [hx]

end Tromp.Tie
