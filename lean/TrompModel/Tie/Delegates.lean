/-
  Tie/Delegates.lean — the thin layers between the public queries / the per-expectation handler and the functions tied
  elsewhere, regenerated into Gen/Cxx/{CmIsSatisfied,CmIsSaturated,CmSequenceCost,ShOrder,ShValidate,ShRetire,
  ShRetirePredecessors,Sm0Order,LmIsSatisfied,LmIsSaturated,SeqIsCompleted,ConditionCheck,GetMinCalls,GetCalls,
  SmIsSatisfied}.lean.  Each is one delegation; the theorems compose them with the ties of what they delegate to, so that
  the answer of the *public* query (`expectation::is_satisfied()`, `sequence::is_completed()`, …) is the World's answer.
-/
import TrompModel.Gen.Cxx.CmIsSatisfied
import TrompModel.Gen.Cxx.CmIsSaturated
import TrompModel.Gen.Cxx.CmSequenceCost
import TrompModel.Gen.Cxx.ShOrder
import TrompModel.Gen.Cxx.ShValidate
import TrompModel.Gen.Cxx.ShRetire
import TrompModel.Gen.Cxx.ShRetirePredecessors
import TrompModel.Gen.Cxx.Sm0Order
import TrompModel.Gen.Cxx.LmIsSatisfied
import TrompModel.Gen.Cxx.LmIsSaturated
import TrompModel.Gen.Cxx.SeqIsCompleted
import TrompModel.Gen.Cxx.ConditionCheck
import TrompModel.Gen.Cxx.GetMinCalls
import TrompModel.Gen.Cxx.GetCalls
import TrompModel.Gen.Cxx.SmIsSatisfied
import TrompModel.Tie.HandlerIsSatisfied
import TrompModel.Tie.HandlerIsSaturated
import TrompModel.Tie.Base

namespace Tromp.Tie
open World

/-- the public `is_satisfied()` / `is_saturated()` of an expectation take the lock and return the handler's answer … -/
theorem cm_queries_delegate (b : Bool) : Cxx.cm_is_satisfied b = b ∧ Cxx.cm_is_saturated b = b := ⟨rfl, rfl⟩

/-- … hence are the answers of the World's `sat` / `satd` operations for a live expectation. -/
theorem public_is_satisfied_tie (w : World) (e : Nat) (x : Exp) (hx : w.exps e = some x) (hl : w.legal (.sat e) = true) :
    (w.step (.sat e)).2 = [.answer (Cxx.cm_is_satisfied (Cxx.is_satisfied x.lo x.hi x.count))] := by
  rw [(cm_queries_delegate _).1, is_satisfied_tie]
  simp [World.step, ownerSat, hx, hl]

theorem public_is_saturated_tie (w : World) (e : Nat) (x : Exp) (hx : w.exps e = some x) (hl : w.legal (.satd e) = true) :
    (w.step (.satd e)).2 = [.answer (Cxx.cm_is_saturated (Cxx.is_saturated x.lo x.hi x.count))] := by
  rw [(cm_queries_delegate _).2, is_saturated_tie]
  simp [World.step, hx, hl]

/-- a destruction requirement is satisfied and saturated exactly when its object has died. -/
theorem lm_queries (died : Bool) : Cxx.lm_is_satisfied died = died ∧ Cxx.lm_is_saturated died = died := ⟨rfl, rfl⟩

theorem public_monitor_queries_tie (w : World) (m : Nat) (x : Mon) (hx : w.mons m = some x)
    (hl : w.legal (.msat m) = true) (hl' : w.legal (.msatd m) = true) :
    (w.step (.msat m)).2 = [.answer (Cxx.lm_is_satisfied x.died)] ∧
    (w.step (.msatd m)).2 = [.answer (Cxx.lm_is_saturated x.died)] := by
  simp [World.step, ownerSat, hx, hl, hl', (lm_queries _).1, (lm_queries _).2]

/-- what a sequence step reports as "satisfied" is its handler's answer (so `cost` and `is_completed`, which ask the step,
    ask the expectation's call count). -/
theorem sm_is_satisfied_delegates (b : Bool) : Cxx.sm_is_satisfied b = b := rfl

/-- `sequence::is_completed()` is `sequence_type::is_completed()` of the owned object. -/
theorem seq_is_completed_delegates (b : Bool) : Cxx.seq_is_completed b = b := rfl

/-- the handler of an expectation with N sequences passes `validate`, `order`, `retire`, `retire_predecessors` on to its
    array of steps — nothing more (no test in front, no second action) … -/
theorem sh_delegates (k : Nat) : Cxx.sh_order k = k ∧ Cxx.sh_validate = ["matchers.validate"] ∧
    Cxx.sh_retire = ["matchers.retire"] ∧ Cxx.sh_retire_predecessors = ["matchers.retire_predecessors"] := ⟨rfl, rfl, rfl, rfl⟩

/-- … the cost `find` compares is that `order()` … -/
theorem cm_sequence_cost_delegates (k : Nat) : Cxx.cm_sequence_cost k = k := rfl

/-- … and an expectation without IN_SEQUENCE passes over no step. -/
theorem sm0_order_zero : Cxx.sm0_order = 0 := rfl

/-- a WITH clause is its predicate applied to the call's parameters. -/
theorem condition_check_delegates (b : Bool) : Cxx.condition_check b = b := rfl

/-- the two accessors used by the reports ("called N times", "expected at least M"). -/
theorem call_count_accessors (x : Exp) : Cxx.get_min_calls x.lo x.hi x.count = x.lo ∧ Cxx.get_calls x.lo x.hi x.count = x.count :=
  ⟨rfl, rfl⟩

end Tromp.Tie
