/-
  Tie/SemRelease.lean — meaning of the trace of `~call_matcher` = the model's `releaseExp`.
-/
import TrompModel.Tie.CallMatcherDtor
import TrompModel.Tie.IsUnfulfilled
import TrompModel.Tie.ReportMissed
import TrompModel.Tie.SemRunActions

namespace Tromp.Tie
open World

/-! ### `~call_matcher` -/


def dtorAct (e : Nat) : Act → World × List Ev → World × List Ev
  | .stmt "report_missed(\"Unfulfilled expectation\")" => reportMissed Report.unfulfilled e
  | .stmt "this->unlink()" => fun s =>
      match s.1.exps e with | some x => (s.1.unlinkExp e x, s.2) | none => s
  | .stmt "sequences.reset()" => fun s =>
      match s.1.exps e with | some x => (s.1.retireOwn (.exp e) x.seqs, s.2) | none => s
  | _ => id

theorem dtorAct_missed (e : Nat) :
    dtorAct e (.stmt "report_missed(\"Unfulfilled expectation\")") = reportMissed Report.unfulfilled e := rfl
theorem dtorAct_unlink (e : Nat) : dtorAct e (.stmt "this->unlink()") = fun s =>
    match s.1.exps e with | some x => (s.1.unlinkExp e x, s.2) | none => s := rfl
theorem dtorAct_reset (e : Nat) : dtorAct e (.stmt "sequences.reset()") = fun s =>
    match s.1.exps e with | some x => (s.1.retireOwn (.exp e) x.seqs, s.2) | none => s := rfl

theorem unlinkExp_reported (w : World) (e : Nat) (x : Exp) (b : Bool) :
    (w.setExp e { x with reported := b }).unlinkExp e { x with reported := b } = (w.unlinkExp e x).setExp e { x with reported := b } := by
  unfold unlinkExp
  simp only [setExp_mocks]
  cases w.mocks x.obj with
  | none => rfl
  | some m => by_cases h : (x.link == Link.unlinked) = true <;> simp [h, setExp_setMock]

/-- **`~call_matcher` = the model's `releaseExp`**: the statements of the destructor, in order, then the object is gone
    (`alive := false`; an unlinked element is on no list). -/
theorem release_sem (w : World) (e : Nat) (x : Exp) (hx : w.exps e = some x) :
    (let s := (Cxx.call_matcher_dtor (Cxx.is_unfulfilled x.reported (x.link != .unlinked) (decide (x.lo ≤ x.count)))).foldl
        (fun s a => dtorAct e a s) (w, [])
     match s.1.exps e with
     | some x' => (s.1.setExp e { x' with alive := false, link := .unlinked }, s.2)
     | none => s) = w.releaseExp e x := by
  rw [is_unfulfilled_tie, call_matcher_dtor_order]
  unfold releaseExp
  cases hu : isUnfulfilled x with
  | false =>
    simp only [Bool.false_eq_true, if_false, List.nil_append, List.foldl_cons, List.foldl_nil, dtorAct_unlink, dtorAct_reset, hx]
    have h1 : (w.unlinkExp e x).exps e = some x := by
      unfold unlinkExp; cases w.mocks x.obj <;> simp [hx]; split <;> simp [hx]
    simp only [h1]
    have h2 : ((w.unlinkExp e x).retireOwn (.exp e) x.seqs).exps e = some x := by rw [retireOwn_exps]; exact h1
    simp [h2]
  | true =>
    simp only [if_true, List.cons_append, List.nil_append, List.foldl_cons, List.foldl_nil, dtorAct_missed, dtorAct_unlink,
      dtorAct_reset, reportMissed, hx, setExp_exps_same, List.nil_append]
    rw [unlinkExp_reported]
    simp only [setExp_exps_same, setExp_retireOwn, setExp_setExp, Bool.or_true]

end Tromp.Tie
