/-
  Model/Nested.lean — re-entrant mock calls: a SIDE_EFFECT of the handling expectation that itself calls a mock
  function (mock.hpp: the global lock is recursive; `run_actions` has finished all bookkeeping — count, retirement,
  saturation — before `for (auto& a : actions) a.action(params)` runs, and the outer trace record is emitted by
  `~trace_agent` after everything).  Core Lean only.

  `nest e i = some (o', f', a')`: side effect number `i` of expectation `e`, after logging itself, calls
  `o'.f'(a')`; what the nested call throws (a fatal report, or its own RETURN/THROW) propagates through the side
  effect.  Fuel bounds the nesting depth (the generator only nests into functions of higher index).
-/
import TrompModel.Model.World

namespace Tromp
namespace World

abbrev NestMap := Nat → Nat → Option (Nat × Nat × Args)

def noNest : NestMap := fun _ _ => none

/-- the result event of a call. -/
def resultOf : List Ev → Option Outcome
  | [] => none
  | .result r :: _ => some r
  | _ :: rest => resultOf rest

def dropResult (evs : List Ev) : List Ev := evs.filter (fun e => match e with | .result _ => false | _ => true)

mutual
/-- the side effects in order; effect `i` logs itself, runs its nested call (if any), then may throw. -/
def runEffectsN (nest : NestMap) (fuel : Nat) (e : Nat) (a : Args) :
    List (Args → Option Exc) → Nat → World → World × List Ev × Option Exc
  | [], _, w => (w, [], none)
  | fx :: rest, i, w =>
    let (w1, nevs, nthrown) : World × List Ev × Option Exc :=
      match nest e i with
      | none => (w, [], none)
      | some (o', f', a') =>
        match fuel with
        | 0 => (w, [.badOp], none)
        | fuel' + 1 =>
          let (w', evs) := callN nest fuel' w o' f' a'
          (w', dropResult evs, match resultOf evs with | some (.threw x) => some x | _ => none)
    match nthrown with
    | some x => (w1, Ev.evalFx e i :: nevs, some x)
    | none =>
      match fx a with
      | some x => (w1, Ev.evalFx e i :: nevs, some x)
      | none =>
        let (w2, evs, r) := runEffectsN nest fuel e a rest (i + 1) w1
        (w2, Ev.evalFx e i :: nevs ++ evs, r)
termination_by l _ _ => (fuel, 0, l.length)

/-- `mock_func` with re-entrant side effects. -/
def callN (nest : NestMap) (fuel : Nat) (w : World) (o f : Nat) (a : Args) : World × List Ev :=
  if !w.legal (.call o f a) then (w, [.badOp]) else
  match w.mocks o with
  | none => (w, [.badOp])
  | some m =>
    let (found, visited) := find (w.expMatches a) w.expOrder (m.active f)
    let log := visited.flatMap (w.matchLog a)
    match found with
    | none =>
      let (w', evs) := w.reportMismatch m f a
      (w', log ++ evs)
    | some e =>
      match w.exps e with
      | none => (w, [.badOp])
      | some x =>
        if x.hi = 0 ∨ w.order (.exp e) x.seqs = none then
          let (w', evs) := w.runActions o f e x m a
          (w', log ++ evs)
        else
          let w1 := w.bookkeep o f e x m
          let (w2, fxEvs, thrown) := runEffectsN nest fuel e a x.effects 0 w1
          let (retEvs, res) : List Ev × Outcome :=
            match thrown with
            | some exc => ([], .threw exc)
            | none =>
              match x.ret with
              | some r => ([Ev.evalRet e], r a)
              | none => ([], .void)
          (w2, log ++ [Ev.ok w.okReporter e] ++ fxEvs ++ retEvs ++ w.traceEv e a res ++ [.result res])
termination_by (fuel, 1, 0)
end

end World
end Tromp
