/-
  Model/World.lean — expectations, calls, sequences, lifetime monitors, tracers, reporters.
  Mirrors mock.hpp / sequence.hpp / lifetime.hpp of /repo (see DESIGN.md §3.1 for the table
  "model definition ↔ C++ it mirrors").  Core Lean only.

  Ids are natural numbers handed out by the script; `legal` requires fresh ids to be the next
  counter value, so "newer" = "larger id".
-/
import TrompModel.Model.Algo

namespace Tromp

abbrev Args := List Int

/-- `2^64 − 1`: the `max_calls` of ALLOW_CALL / AT_LEAST (`~size_t(0)`), mock.hpp. -/
def infinity : Nat := 18446744073709551615

inductive Owner
  | exp (e : Nat)
  | mon (m : Nat)
  deriving DecidableEq, Repr, Inhabited

inductive Link | active | saturated | unlinked
  deriving DecidableEq, Repr, Inhabited

inductive Exc | std | other | rep      -- std::exception-derived / anything else / thrown by the reporter
  deriving DecidableEq, Repr, Inhabited

inductive Outcome
  | void
  | val (v : Int)
  | threw (x : Exc)
  deriving DecidableEq, Repr, Inhabited

inductive Sev | fatal | nonfatal
  deriving DecidableEq, Repr, Inhabited

/-- why a "Tried" expectation rejected the call (`call_matcher::report_mismatch`). -/
inductive Why
  | params (idx : List Nat)        -- the parameters that reject it
  | cond (i : Option Nat)          -- all parameters fit; first failing WITH (none: no WITH fails)
  deriving DecidableEq, Repr, Inhabited

inductive Report
  | noMatch (fn : Nat) (args : Args) (saturated : List Nat) (tried : List (Nat × Why))
  | forbidden (e : Nat) (args : Args)
  | seqNoMore (s : Nat) (o : Owner)
  | seqMismatch (s : Nat) (o : Owner) (listed : List (Owner × Bool))   -- (owner, optional?)
  | unfulfilled (e lo n : Nat)
  | pendingDestroyed (e lo n : Nat)
  | stillAlive (m : Nat)
  | unexpectedDestruction (x : Nat)
  | seqTeardown (s : Nat) (missing : List Owner)
  deriving DecidableEq, Repr, Inhabited

inductive Ev
  | evalWith (e i : Nat)
  | evalFx (e i : Nat)
  | evalRet (e : Nat)
  | report (sev : Sev) (reporter : Nat) (r : Report)
  | ok (reporter : Nat) (e : Nat)
  | trace (t : Nat) (e : Nat) (args : Args) (res : Outcome)
  | result (r : Outcome)
  | answer (b : Bool)
  | threwLogic
  | reporterWas (r : Nat)
  | okReporterWas (r : Nat)
  | badOp
  deriving DecidableEq, Repr, Inhabited

structure Exp where
  obj     : Nat
  fn      : Nat
  params  : List (Int → Bool)
  conds   : List (Args → Bool)
  effects : List (Args → Option Exc)
  ret     : Option (Args → Outcome)
  lo      : Nat
  hi      : Nat
  count   : Nat := 0
  seqs    : List Nat
  reported : Bool := false
  link    : Link := .active
  alive   : Bool := true

structure Mon where
  target : Nat
  seqs   : List Nat
  died   : Bool := false
  alive  : Bool := true

structure Seq where
  alive   : Bool := true
  pending : List Owner := []      -- registration order, front = current position

structure Mock where
  alive     : Bool := true
  movable   : Bool
  active    : Nat → List Nat := fun _ => []     -- per function, newest first
  saturated : Nat → List Nat := fun _ => []     -- per function, in order of saturation

structure Watched where
  alive    : Bool := true
  monitors : List Nat := []        -- newest first

structure World where
  exps    : Nat → Option Exp := fun _ => none
  mons    : Nat → Option Mon := fun _ => none
  seqs    : Nat → Option Seq := fun _ => none
  mocks   : Nat → Option Mock := fun _ => none
  watched : Nat → Option Watched := fun _ => none
  tracers : List Nat := []         -- live tracers, newest first
  deadTracers : List Nat := []
  reporter : Nat := 0
  okReporter : Nat := 0        -- the OK reporter is a slot of its own (mock.hpp: ok_reporter_obj())
  nextE : Nat := 0
  nextM : Nat := 0
  nextS : Nat := 0
  nextO : Nat := 0
  nextW : Nat := 0
  nextT : Nat := 0

/-- number of mock functions of the harness' mock classes: `fv(int)`, `fi(int)`, `g(int,int)`,
    `fi(long)`; members are destroyed in reverse declaration order. -/
def nFns : Nat := 4
def fnArity : Nat → Nat
  | 2 => 2
  | _ => 1

def upd (f : Nat → Option α) (k : Nat) (v : α) : Nat → Option α :=
  fun i => if i = k then some v else f i

structure ExpectSpec where
  obj : Nat
  fn : Nat
  params : List (Int → Bool)
  conds : List (Args → Bool)
  effects : List (Args → Option Exc)
  ret : Option (Args → Outcome)
  lo : Nat
  hi : Nat
  rt : Bool            -- bounds given through RT_TIMES (checked at run time)
  seqs : List Nat

inductive Op
  | mock (o : Nat) (movable : Bool)
  | seq (s : Nat)
  | expect (e : Nat) (x : ExpectSpec)
  | call (o f : Nat) (a : Args)
  | sat (e : Nat)
  | satd (e : Nat)
  | release (e : Nat)
  | move (o o' : Nat)
  | kill (o : Nat)
  | killseq (s : Nat)
  | completed (s : Nat)
  | watched (x : Nat)
  | copyw (x y : Nat)
  | movew (x y : Nat)
  | assignw (dst src : Nat)
  | killw (x : Nat)
  | monitor (m x : Nat) (seqs : List Nat)
  | msat (m : Nat)
  | msatd (m : Nat)
  | releasemon (m : Nat)
  | tracer (t : Nat)
  | killtracer (t : Nat)
  | setreporter (r : Nat) (ok : Option Nat)    -- `set_reporter(f)` / `set_reporter(f, ok_f)`

namespace World

def expAlive (w : World) (e : Nat) : Bool :=
  match w.exps e with | some x => x.alive | none => false
def monAlive (w : World) (m : Nat) : Bool :=
  match w.mons m with | some x => x.alive | none => false
def seqAlive (w : World) (s : Nat) : Bool :=
  match w.seqs s with | some x => x.alive | none => false
def mockAlive (w : World) (o : Nat) : Bool :=
  match w.mocks o with | some x => x.alive | none => false
def watchedAlive (w : World) (x : Nat) : Bool :=
  match w.watched x with | some y => y.alive | none => false

/-- `sequence_matcher::is_satisfied` → `sequence_handler_base::is_satisfied` of the owner. -/
def ownerSat (w : World) : Owner → Bool
  | .exp e => match w.exps e with | some x => decide (x.lo ≤ x.count) | none => true
  | .mon m => match w.mons m with | some x => x.died | none => true

/-- `sequence_matcher::is_optional`: `min_calls == 0`. -/
def ownerOptional (w : World) : Owner → Bool
  | .exp e => match w.exps e with | some x => x.lo == 0 | none => false
  | .mon _ => false

def pendingOf (w : World) (s : Nat) : List Owner :=
  match w.seqs s with | some x => x.pending | none => []

/-- `sequence_matcher::cost`: a handle whose sequence object has died imposes no order (0);
    otherwise `sequence_type::cost`. -/
def handleCost (w : World) (o : Owner) (s : Nat) : Cost :=
  if w.seqAlive s then seqCost w.ownerSat o (w.pendingOf s) else some 0

/-- `sequence_handler<N>::order`. -/
def order (w : World) (o : Owner) (ss : List Nat) : Cost :=
  orderOf (ss.map (w.handleCost o))

def expOrder (w : World) (e : Nat) : Cost :=
  match w.exps e with | some x => w.order (.exp e) x.seqs | none => none

/-- `call_matcher::matches`. -/
def expMatches (w : World) (a : Args) (e : Nat) : Bool :=
  match w.exps e with
  | some x => paramsOk x.params a && condsOk x.conds a
  | none => false

/-- the WITH evaluations `matches` performs for `e`. -/
def matchLog (w : World) (a : Args) (e : Nat) : List Ev :=
  match w.exps e with
  | some x =>
    if paramsOk x.params a then (List.range (condsEvaluated x.conds a)).map (Ev.evalWith e) else []
  | none => []

def setSeqPending (w : World) (s : Nat) (f : List Owner → List Owner) : World :=
  match w.seqs s with
  | some x => { w with seqs := upd w.seqs s { x with pending := f x.pending } }
  | none => w

/-- `sequence_matchers<N>::retire_predecessors`. -/
def retirePredecessors (w : World) (o : Owner) (ss : List Nat) : World :=
  ss.foldl (fun w s => w.setSeqPending s (retireUntil o)) w

/-- `sequence_matchers<N>::retire` and the handle destructors: leave every sequence. -/
def retireOwn (w : World) (o : Owner) (ss : List Nat) : World :=
  ss.foldl (fun w s => w.setSeqPending s (fun l => l.filter (· ≠ o))) w

def register (w : World) (o : Owner) (ss : List Nat) : World :=
  ss.foldl (fun w s => w.setSeqPending s (fun l => l ++ [o])) w

/-- the listing of `sequence_type::validate_match` (sequence.hpp:253-283). -/
def seqListing (w : World) : List Owner → Bool → List (Owner × Bool)
  | [], _ => []
  | m :: ms, first =>
    if first || !w.ownerOptional m then
      if w.ownerOptional m then (m, true) :: seqListing w ms false
      else [(m, false)]
    else seqListing w ms false

/-- `sequence_type::validate_match` for one handle: silent when callable in that sequence. -/
def validateOne (w : World) (o : Owner) (s : Nat) : Option Report :=
  match w.handleCost o s with
  | some _ => none
  | none =>
    match w.pendingOf s with
    | [] => some (.seqNoMore s o)
    | l => some (.seqMismatch s o (w.seqListing l true))

/-- `sequence_matchers<N>::validate`: with a fatal severity the reporter throws at the first
    violated sequence; with non-fatal every violated sequence is reported. -/
def validateAll (w : World) (o : Owner) (ss : List Nat) : List Report :=
  ss.filterMap (w.validateOne o)

def setExp (w : World) (e : Nat) (x : Exp) : World := { w with exps := upd w.exps e x }
def setMock (w : World) (o : Nat) (x : Mock) : World := { w with mocks := upd w.mocks o x }

def rep (w : World) (sev : Sev) (r : Report) : Ev := .report sev w.reporter r

/-- mark listed expectations `reported` (`call_matcher::report_mismatch`, mock.hpp:3110). -/
def markReported (w : World) (es : List Nat) : World :=
  es.foldl (fun w e => match w.exps e with
    | some x => w.setExp e { x with reported := true }
    | none => w) w

def whyOf (x : Exp) (a : Args) : Why :=
  if paramsOk x.params a then .cond (firstFailing x.conds a) else .params (failingParams x.params a 0)

/-- WITH evaluations of `call_matcher::report_mismatch`: up to and including the first failing. -/
def triedLog (w : World) (a : Args) (e : Nat) : List Ev :=
  match w.exps e with
  | some x =>
    if paramsOk x.params a then
      (List.range (match firstFailing x.conds a with | some i => i + 1 | none => x.conds.length)).map (Ev.evalWith e)
    else []
  | none => []

/-- free `report_mismatch` (mock.hpp:2334-2370). -/
def reportMismatch (w : World) (m : Mock) (f : Nat) (a : Args) : World × List Ev :=
  let satl := m.saturated f
  let satLog := satl.flatMap (w.matchLog a)
  let satMatches := satl.filter (w.expMatches a)
  if satMatches.isEmpty then
    let act := m.active f
    let tried := act.filterMap (fun e => (w.exps e).map (fun x => (e, whyOf x a)))
    let log := act.flatMap (w.triedLog a)
    (w.markReported act, satLog ++ log ++ [w.rep .fatal (.noMatch f a [] tried), .result (.threw .rep)])
  else
    (w, satLog ++ [w.rep .fatal (.noMatch f a satMatches []), .result (.threw .rep)])

/-- the side effects, in order, stopping at the first that throws. -/
def runEffects (e : Nat) (a : Args) : List (Args → Option Exc) → Nat → List Ev × Option Exc
  | [], _ => ([], none)
  | fx :: rest, i =>
    match fx a with
    | some x => ([Ev.evalFx e i], some x)
    | none =>
      let (evs, r) := runEffects e a rest (i + 1)
      (Ev.evalFx e i :: evs, r)

def traceEv (w : World) (e : Nat) (a : Args) (r : Outcome) : List Ev :=
  match w.tracers with
  | t :: _ => [Ev.trace t e a r]
  | [] => []

/-- the bookkeeping of an accepted call (`run_actions`, mock.hpp:3081-3092): count, retire the
    predecessors in every sequence, and on saturation leave the sequences and move to the
    saturated list. -/
def bookkeep (w : World) (o f e : Nat) (x : Exp) (m : Mock) : World :=
  let cnt := x.count + 1
  let w1 := w.retirePredecessors (.exp e) x.seqs
  if cnt = x.hi then
    let w2 := w1.retireOwn (.exp e) x.seqs
    let m' := { m with active := fun g => if g = f then (m.active f).filter (· ≠ e) else m.active g
                       saturated := fun g => if g = f then m.saturated f ++ [e] else m.saturated g }
    (w2.setMock o m').setExp e { x with count := cnt, link := .saturated }
  else w1.setExp e { x with count := cnt }

/-- side effects in order, then (unless one threw) the RETURN/THROW expression. -/
def actionEvents (e : Nat) (x : Exp) (a : Args) : List Ev × Outcome :=
  let (fxEvs, thrown) := runEffects e a x.effects 0
  match thrown with
  | some exc => (fxEvs, .threw exc)
  | none =>
    match x.ret with
    | some r => (fxEvs ++ [Ev.evalRet e], r a)
    | none => (fxEvs, .void)

/-- `mock_func` after `find` succeeded: `run_actions` + `return_value` + trace record. -/
def runActions (w : World) (o f e : Nat) (x : Exp) (m : Mock) (a : Args) : World × List Ev :=
  if x.hi = 0 then
    -- forbidden: reported = true, fatal report, nothing else happens
    let w' := w.setExp e { x with reported := true }
    (w', [w.rep .fatal (.forbidden e a)] ++ w.traceEv e a (.threw .rep) ++ [.result (.threw .rep)])
  else
    match w.order (.exp e) x.seqs with
    | none =>
      let r := (w.validateAll (.exp e) x.seqs).head?.getD (.seqNoMore 0 (.exp e))
      (w, [w.rep .fatal r] ++ w.traceEv e a (.threw .rep) ++ [.result (.threw .rep)])
    | some _ =>
      let res := actionEvents e x a
      (w.bookkeep o f e x m, [Ev.ok w.okReporter e] ++ res.1 ++ w.traceEv e a res.2 ++ [.result res.2])

/-- `mock_func` (mock.hpp:3372-3406). -/
def callFn (w : World) (o f : Nat) (a : Args) : World × List Ev :=
  match w.mocks o with
  | none => (w, [.badOp])
  | some m =>
    let (found, visited) := find (w.expMatches a) w.expOrder (m.active f)
    let log := visited.flatMap (w.matchLog a)
    match found with
    | none =>
      let (w', evs) := w.reportMismatch m f a
      (w', log ++ evs)
    | some e =>
      match w.exps e with
      | none => (w, [.badOp])
      | some x =>
        let (w', evs) := w.runActions o f e x m a
        (w', log ++ evs)

/-- `call_matcher::is_unfulfilled`. -/
def isUnfulfilled (x : Exp) : Bool :=
  !x.reported && x.link != .unlinked && decide (x.count < x.lo)

/-- remove `e` from the mock function list it is on (`list_elem::unlink`). -/
def unlinkExp (w : World) (e : Nat) (x : Exp) : World :=
  match w.mocks x.obj with
  | some m =>
    if x.link == .unlinked then w else
    w.setMock x.obj { m with active := fun g => if g = x.fn then (m.active g).filter (· ≠ e) else m.active g
                             saturated := fun g => if g = x.fn then (m.saturated g).filter (· ≠ e) else m.saturated g }
  | none => w

/-- `~call_matcher` (mock.hpp:2965-2973) + member destructors. -/
def releaseExp (w : World) (e : Nat) (x : Exp) : World × List Ev :=
  let evs := if isUnfulfilled x then [w.rep .nonfatal (.unfulfilled e x.lo x.count)] else []
  let w1 := w.unlinkExp e x
  let w2 := w1.retireOwn (.exp e) x.seqs
  (w2.setExp e { x with alive := false, link := .unlinked,
                        reported := x.reported || isUnfulfilled x }, evs)

/-- one iteration of `call_matcher_list::decommission` (mock.hpp:1988-2000):
    `mock_destroyed()` (report if unfulfilled) then `unlink()`. -/
def decomStep (acc : World × List Ev) (e : Nat) : World × List Ev :=
  match acc.1.exps e with
  | some x =>
    if isUnfulfilled x then
      (acc.1.setExp e { x with reported := true, link := .unlinked },
       acc.2 ++ [acc.1.rep .nonfatal (.pendingDestroyed e x.lo x.count)])
    else (acc.1.setExp e { x with link := .unlinked }, acc.2)
  | none => acc

/-- `call_matcher_list::decommission` over one list. -/
def decommission (w : World) (es : List Nat) : World × List Ev :=
  es.foldl decomStep (w, [])

/-- `~expectations` of every mock function, members destroyed in reverse declaration order. -/
def killMock (w : World) (o : Nat) (m : Mock) : World × List Ev :=
  let fns := (List.range nFns).reverse
  let (w', evs) := fns.foldl (fun (acc : World × List Ev) f =>
    let (w, evs) := acc
    let (w1, e1) := w.decommission (m.active f)
    let (w2, e2) := w1.decommission (m.saturated f)
    (w2, evs ++ e1 ++ e2)) (w, [])
  (w'.setMock o { m with alive := false, active := fun _ => [], saturated := fun _ => [] }, evs)

/-- `lifetime_monitor::notify` (lifetime.hpp:106-118). -/
def notify (w : World) (m : Nat) : World × List Ev :=
  match w.mons m with
  | none => (w, [])
  | some x =>
    let reports := (w.validateAll (.mon m) x.seqs).map (w.rep .nonfatal)
    let w1 := { w with mons := upd w.mons m { x with died := true } }
    let w2 := w1.retirePredecessors (.mon m) x.seqs
    let w3 := w2.retireOwn (.mon m) x.seqs
    (w3, reports)

/-- `expectations<true,Sig>(expectations&&)`: both lists of every mock function change owner, order
    kept; the moved-from object stays alive with empty lists. -/
def moveMock (w : World) (o o' : Nat) (m : Mock) : World :=
  let w1 : World := { w with nextO := o' + 1,
                             exps := fun i => (w.exps i).map (fun (x : Exp) =>
                               if x.obj = o && x.link != Link.unlinked then { x with obj := o' } else x) }
  let w2 := w1.setMock o' { m with alive := true }
  w2.setMock o { m with active := fun _ => [], saturated := fun _ => [] }

def legal (w : World) : Op → Bool
  | .mock o _ => o == w.nextO
  | .seq s => s == w.nextS
  | .expect e x => e == w.nextE && w.mockAlive x.obj && decide (x.fn < nFns)
      && x.seqs.all w.seqAlive && x.seqs.Nodup
      && x.params.length == fnArity x.fn
      && (x.rt || decide (x.lo ≤ x.hi))
  | .call o f a => w.mockAlive o && decide (f < nFns) && a.length == fnArity f
  | .sat e | .satd e | .release e => w.expAlive e
  | .move o o' => o' == w.nextO && (match w.mocks o with | some m => m.alive && m.movable | none => false)
  | .kill o => w.mockAlive o
  | .killseq s | .completed s => w.seqAlive s
  | .watched x => x == w.nextW
  | .copyw x y | .movew x y => y == w.nextW && w.watchedAlive x
  | .assignw d s => w.watchedAlive d && w.watchedAlive s
  | .killw x => w.watchedAlive x
  | .monitor m x ss => m == w.nextM && w.watchedAlive x && ss.all w.seqAlive && ss.Nodup
  | .msat m | .msatd m | .releasemon m => w.monAlive m
  | .tracer t => t == w.nextT
  | .killtracer t => w.tracers.contains t
  | .setreporter _ _ => true

def step (w : World) (op : Op) : World × List Ev :=
  if !w.legal op then (w, [.badOp]) else
  match op with
  | .mock o mv => ({ w with mocks := upd w.mocks o { movable := mv }, nextO := o + 1 }, [])
  | .seq s => ({ w with seqs := upd w.seqs s {}, nextS := s + 1 }, [])
  | .expect e x =>
    let w0 := { w with nextE := e + 1 }
    if x.rt && decide (x.hi < x.lo) then (w0, [.threwLogic]) else
    match w0.mocks x.obj with
    | none => (w, [.badOp])
    | some m =>
      let w1 := w0.register (.exp e) x.seqs
      let w2 := w1.setExp e { obj := x.obj, fn := x.fn, params := x.params, conds := x.conds,
                              effects := x.effects, ret := x.ret, lo := x.lo, hi := x.hi, seqs := x.seqs }
      (w2.setMock x.obj { m with active := fun g => if g = x.fn then e :: m.active g else m.active g }, [])
  | .call o f a => w.callFn o f a
  | .sat e => (w, [.answer (w.ownerSat (.exp e))])
  | .satd e => (w, [.answer (match w.exps e with | some x => x.count == x.hi | none => false)])
  | .release e =>
    match w.exps e with
    | some x => w.releaseExp e x
    | none => (w, [.badOp])
  | .move o o' =>
    match w.mocks o with
    | none => (w, [.badOp])
    | some m => (w.moveMock o o' m, [])
  | .kill o =>
    match w.mocks o with
    | some m => w.killMock o m
    | none => (w, [.badOp])
  | .killseq s =>
    match w.seqs s with
    | none => (w, [.badOp])
    | some x =>
      let evs := if x.pending.isEmpty then [] else [w.rep .nonfatal (.seqTeardown s x.pending)]
      ({ w with seqs := upd w.seqs s { alive := false, pending := [] } }, evs)
  | .completed s => (w, [.answer ((w.pendingOf s).all w.ownerSat)])
  | .watched x => ({ w with watched := upd w.watched x {}, nextW := x + 1 }, [])
  | .copyw _ y | .movew _ y => ({ w with watched := upd w.watched y {}, nextW := y + 1 }, [])
  | .assignw _ _ => (w, [])
  | .killw x =>
    match w.watched x with
    | none => (w, [.badOp])
    | some y =>
      let w0 := { w with watched := upd w.watched x { alive := false, monitors := [] } }
      if y.monitors.isEmpty then (w0, [w.rep .nonfatal (.unexpectedDestruction x)])
      else y.monitors.foldl (fun (acc : World × List Ev) m =>
        let (w1, e1) := acc.1.notify m
        (w1, acc.2 ++ e1)) (w0, [])
  | .monitor m x ss =>
    match w.watched x with
    | none => (w, [.badOp])
    | some y =>
      let w1 := { w with nextM := m + 1,
                         mons := upd w.mons m { target := x, seqs := ss },
                         watched := upd w.watched x { y with monitors := m :: y.monitors } }
      (w1.register (.mon m) ss, [])
  | .msat m | .msatd m => (w, [.answer (w.ownerSat (.mon m))])
  | .releasemon m =>
    match w.mons m with
    | none => (w, [.badOp])
    | some x =>
      let evs := if x.died then [] else [w.rep .nonfatal (.stillAlive m)]
      let w1 := if x.died then w else
        match w.watched x.target with
        | some y => { w with watched := upd w.watched x.target { y with monitors := y.monitors.filter (· ≠ m) } }
        | none => w
      let w2 := w1.retireOwn (.mon m) x.seqs
      ({ w2 with mons := upd w2.mons m { x with alive := false } }, evs)
  | .tracer t => ({ w with tracers := t :: w.tracers, nextT := t + 1 }, [])
  | .killtracer t => ({ w with tracers := w.tracers.filter (· ≠ t) }, [])
  | .setreporter r ok =>
    -- the one-argument form replaces the violation reporter only; the OK reporter stays installed
    ({ w with reporter := r, okReporter := ok.getD w.okReporter },
     .reporterWas w.reporter :: (match ok with | some _ => [.okReporterWas w.okReporter] | none => []))

/-- run a script; the event lists per operation. -/
def run (w : World) : List Op → World × List (List Ev)
  | [] => (w, [])
  | op :: ops =>
    let (w1, evs) := w.step op
    let (w2, rest) := w1.run ops
    (w2, evs :: rest)

end World
end Tromp
