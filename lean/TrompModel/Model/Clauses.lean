/-
  Model/Clauses.lean — legality of clause lists (C19): a fold over the clauses of an expectation
  statement that checks, for each clause, the GENERATED `static_assert` guards of its modifier in
  the type-state built so far, and applies the injector; finally the guards of
  `call_validator_t::operator+`.
-/
import TrompModel.Gen.StaticAsserts

namespace Tromp.Clauses
open Tromp.Gen

inductive Sig | void_ | value | coroVoid | coroValue
  deriving DecidableEq, Repr

def Sig.isCoro : Sig → Bool
  | .coroVoid | .coroValue => true
  | _ => false

/-- the function's return type is `void` (a coroutine type never is). -/
def Sig.isVoid : Sig → Bool
  | .void_ => true
  | _ => false

/-- `matcher_info` + injectors: the compile-time state of the expectation under construction. -/
structure TS where
  hasReturn : Bool := false
  hasCoReturn : Bool := false
  throws : Bool := false
  sideEffects : Bool := false
  limitSet : Bool := false
  forbidden : Bool := false
  seqSet : Bool := false
  deriving DecidableEq, Repr

/-- properties of the expression given to RETURN, as the guards see them. -/
structure RetAttr where
  fits : Bool := true
  illegalArg : Bool := false
  sigPtr : Bool := false
  retPtr : Bool := false
  sigPtrConst : Bool := false
  retPtrConst : Bool := false
  sigRef : Bool := false
  retRef : Bool := false
  sigRefConst : Bool := false
  retRefConst : Bool := false
  deriving DecidableEq, Repr

inductive Clause
  | with_
  | sideEffect
  | ret (a : RetAttr)
  | throw_
  | times (l h : Nat)
  | rtTimes
  | inSeq
  | coReturn (exprVoid fits : Bool)
  | coThrow
  | coYield (exprVoid fits : Bool)
  deriving DecidableEq, Repr

def env (sig : Sig) (st : TS) (c : Clause) : Env :=
  let a : RetAttr := match c with | .ret a => a | _ => {}
  let (ev, cf) : Bool × Bool := match c with
    | .coReturn v f => (v, f) | .coYield v f => (v, f) | _ => (false, true)
  let (l, h) : Nat × Nat := match c with | .times l h => (l, h) | _ => (1, 1)
  { isCoro := sig.isCoro, sigVoid := sig.isVoid,
    hasReturn := st.hasReturn, hasCoReturn := st.hasCoReturn, throws := st.throws, sideEffects := st.sideEffects,
    limitSet := st.limitSet, forbidden := st.forbidden, seqSet := st.seqSet,
    retFits := a.fits, illegalArg := a.illegalArg, sigPtr := a.sigPtr, retPtr := a.retPtr,
    sigPtrConst := a.sigPtrConst, retPtrConst := a.retPtrConst, sigRef := a.sigRef, retRef := a.retRef,
    sigRefConst := a.sigRefConst, retRefConst := a.retRefConst,
    exprVoid := ev, coFits := cf, L := l, H := h, arity := 0, declared := 0 }

def guardsOf : Clause → List Guard
  | .with_ => guards_with
  | .sideEffect => guards_sideeffect
  | .ret _ => guards_handle_return
  | .throw_ => guards_handle_throw
  | .times _ _ => guards_times
  | .rtTimes => guards_runtime_times
  | .inSeq => guards_in_sequence
  | .coReturn _ _ => guards_handle_co_return
  | .coThrow => guards_handle_co_throw
  | .coYield _ _ => guards_handle_co_yield

def injOf : Clause → Inj
  | .with_ => inj_with
  | .sideEffect => inj_sideeffect
  | .ret _ => inj_handle_return
  | .throw_ => inj_handle_throw
  | .times _ _ => inj_times
  | .rtTimes => inj_runtime_times
  | .inSeq => inj_in_sequence
  | .coReturn _ _ => inj_handle_co_return
  | .coThrow => inj_handle_co_throw
  | .coYield _ _ => inj_handle_co_yield

/-- the injector templates (mock.hpp:2566-2606). -/
def applyInj (sig : Sig) (c : Clause) (st : TS) : Inj → TS
  | .none => st
  | .sideeffect => { st with sideEffects := true }
  | .ret => { st with hasReturn := st.hasReturn || !sig.isVoid }   -- return_type = return_of_t<signature> (≠ void unless the function returns void)
  | .throw_ => { st with throws := true }
  | .limit => { st with limitSet := true, forbidden := match c with | .times _ h => h == 0 | _ => false }
  | .limitRt => { st with limitSet := true, forbidden := false }
  | .seq => { st with seqSet := true }
  | .coRet => { st with hasCoReturn := st.hasCoReturn || !sig.isVoid }

/-- message of the first guard that fails. -/
def firstFailing (gs : List Guard) (e : Env) : Option String :=
  (gs.find? (fun g => !g.cond e)).map (·.msg)

def step (sig : Sig) (st : TS) (c : Clause) : Except String TS :=
  match firstFailing (guardsOf c) (env sig st c) with
  | some msg => .error msg
  | none => .ok (applyInj sig c st (injOf c))

def run (sig : Sig) : TS → List Clause → Except String TS
  | st, [] => .ok st
  | st, c :: cs =>
    match step sig st c with
    | .error m => .error m
    | .ok st' => run sig st' cs

/-- does `REQUIRE_CALL(obj, f(...)).c₁.c₂…` compile? -/
def accepts (sig : Sig) (cs : List Clause) : Except String Unit :=
  match run sig {} cs with
  | .error m => .error m
  | .ok st =>
    match firstFailing guards_final (env sig st .with_) with
    | some msg => .error msg
    | none => .ok ()

def Clause.isLimit : Clause → Bool
  | .times _ _ | .rtTimes => true
  | _ => false

def isOk : Except String α → Bool
  | .ok _ => true
  | .error _ => false

end Tromp.Clauses
