/-
  Model/Ring.lean — the intrusive ring of `list_elem<T>` / `list<T, Disposer>` (mock.hpp) as a heap of
  `next`/`prev` pointers.  Core Lean only (the driver links it).

  A pointer is a `Nat`; a heap gives every address its `next` and `prev` member.  `list_elem()` initialises
  both to `this`, so the initial heap is the identity in both members and "never linked" and "unlinked"
  are the same state.  The operations below are the hand-written counterparts of the C++ member functions;
  `Gen/Cxx/Ring*.lean` (regenerated from /repo) are proved equal to them in `Tie/Ring.lean`, and
  `Lemmas/Ring.lean` proves that they refine the operations on abstract lists the World model uses.
-/
namespace Tromp.Ring

abbrev Ptr := Nat

variable {P : Type} [DecidableEq P]

structure Heap (P : Type) where
  next : P → P
  prev : P → P

namespace Heap

/-- all elements freshly constructed: `next = this`, `prev = this`. -/
def init : Heap P := ⟨id, id⟩

def setNext (h : Heap P) (a b : P) : Heap P := { h with next := fun x => if x = a then b else h.next x }
def setPrev (h : Heap P) (a b : P) : Heap P := { h with prev := fun x => if x = a then b else h.prev x }

@[simp] theorem setNext_next (h : Heap P) (a b x : P) : (h.setNext a b).next x = if x = a then b else h.next x := rfl
@[simp] theorem setNext_prev (h : Heap P) (a b x : P) : (h.setNext a b).prev x = h.prev x := rfl
@[simp] theorem setPrev_prev (h : Heap P) (a b x : P) : (h.setPrev a b).prev x = if x = a then b else h.prev x := rfl
@[simp] theorem setPrev_next (h : Heap P) (a b x : P) : (h.setPrev a b).next x = h.next x := rfl

end Heap

/-- `list_elem::is_linked()` -/
def isLinked (this : P) (h : Heap P) : Bool := h.next this != this

/-- `list_elem::unlink()` -/
def unlink (this : P) (h : Heap P) : Heap P :=
  let n := h.next this
  let p := h.prev this
  let h := h.setPrev n p
  let h := h.setNext p n
  let h := h.setNext this this
  h.setPrev this this

/-- `list::push_front(t)`; `hd` is the list object itself (the sentinel element). -/
def pushFront (hd t : P) (h : Heap P) : Heap P :=
  let h := h.setNext t (h.next hd)
  let h := h.setPrev t hd
  let h := h.setPrev (h.next hd) t
  h.setNext hd t

/-- `list::push_back(t)` -/
def pushBack (hd t : P) (h : Heap P) : Heap P :=
  let h := h.setPrev t (h.prev hd)
  let h := h.setNext t hd
  let h := h.setNext (h.prev hd) t
  h.setPrev hd t

/-- `list_elem::operator=(list_elem&& r)`: `this` takes `r`'s place in `r`'s ring, `r` ends up unlinked.
    (`list(list&&)` and `list_elem(list_elem&&)` are this on a freshly initialised `this`.) -/
def moveAssign (this r : P) (h : Heap P) : Heap P :=
  if this ≠ r then
    let h := h.setNext this (h.next r)
    let h := h.setPrev this r
    let h := h.setPrev (h.next this) this
    let h := h.setNext r this
    unlink r h
  else h

/-- the elements an iterator visits from `begin()` (= `next` of the sentinel) until it equals `end()` (= the
    sentinel); `fuel` bounds the walk (a well-formed ring of `n` elements needs `n + 1`). -/
def walk (h : Heap P) (hd : P) : Nat → P → List P
  | 0, _ => []
  | fuel + 1, p => if p = hd then [] else p :: walk h hd fuel (h.next p)

def toList (h : Heap P) (hd : P) (fuel : Nat) : List P := walk h hd fuel (h.next hd)

/-- the same walk through `prev` (what `invariant_check` also follows). -/
def walkBack (h : Heap P) (hd : P) : Nat → P → List P
  | 0, _ => []
  | fuel + 1, p => if p = hd then [] else p :: walkBack h hd fuel (h.prev p)

def toListBack (h : Heap P) (hd : P) (fuel : Nat) : List P := walkBack h hd fuel (h.prev hd)

/-- `list::empty()` : `begin() == end()` -/
def isEmpty (hd : P) (h : Heap P) : Bool := h.next hd == hd

/-- `list::~list()` with `delete_disposer`, as far as the ring is concerned: walk from `begin()`, advance, then
    destroy the element (`~list_elem` = `unlink`); finally `~list_elem` of the sentinel.  `fuel` as in `walk`. -/
def disposeLoop (hd : P) : Nat → P → Heap P → Heap P
  | 0, _, h => h
  | fuel + 1, i, h => if i = hd then h else
      let nxt := h.next i
      disposeLoop hd fuel nxt (unlink i h)

def listDtor (hd : P) (fuel : Nat) (h : Heap P) : Heap P :=
  unlink hd (disposeLoop hd fuel (h.next hd) h)

/-! ### operations of the abstract specification (what the World model does with its lists) -/

/-- the ring operations the library performs, as a script. -/
inductive Op (P : Type)
  | newList (hd : P)              -- `list()`            (nothing happens in the heap)
  | pushFront (hd t : P)
  | pushBack (hd t : P)
  | unlink (x : P)                -- `unlink()` / `~list_elem()` of an element
  | moveList (new old : P)        -- `list(list&&)` : `new` freshly constructed
  | dropList (hd : P)             -- `~list()` with every element already gone (ignore_disposer lists)
  | disposeList (hd : P)          -- `~list()` with delete_disposer: every element destroyed, then the sentinel
  deriving Repr, DecidableEq

/-- abstract state: which addresses are list objects, and the contents of each. -/
structure Abs (P : Type) where
  heads : List P
  lists : P → List P

def Abs.init : Abs P := ⟨[], fun _ => []⟩

def Abs.set (a : Abs P) (hd : P) (l : List P) : Abs P := { a with lists := fun x => if x = hd then l else a.lists x }

/-- an address is in use if it is a list object or an element of one. -/
def Abs.used (a : Abs P) (y : P) : Prop := ∃ hd ∈ a.heads, y ∈ hd :: a.lists hd

instance (a : Abs P) (y : P) : Decidable (a.used y) := by unfold Abs.used; exact inferInstance

def Abs.step (a : Abs P) : Op P → Abs P
  | .newList hd => { a with heads := hd :: a.heads, lists := fun x => if x = hd then [] else a.lists x }
  | .pushFront hd t => a.set hd (t :: a.lists hd)
  | .pushBack hd t => a.set hd (a.lists hd ++ [t])
  | .unlink x => { a with lists := fun hd => (a.lists hd).erase x }
  | .moveList new old =>
      { heads := new :: a.heads.erase old,
        lists := fun x => if x = new then a.lists old else if x = old then [] else a.lists x }
  | .dropList hd => { a with heads := a.heads.erase hd }
  | .disposeList hd => { heads := a.heads.erase hd, lists := fun x => if x = hd then [] else a.lists x }

/-- what the C++ requires of the caller (each is guaranteed by the World invariant `WF`: an expectation, handle or
    monitor is pushed only while it is on no list, list objects are distinct from elements, …). -/
def Abs.legal (a : Abs P) : Op P → Prop
  | .newList hd => ¬ a.used hd
  | .pushFront hd t => hd ∈ a.heads ∧ ¬ a.used t
  | .pushBack hd t => hd ∈ a.heads ∧ ¬ a.used t
  | .unlink x => x ∉ a.heads
  | .moveList new old => old ∈ a.heads ∧ ¬ a.used new
  | .dropList hd => hd ∈ a.heads ∧ a.lists hd = []
  | .disposeList hd => hd ∈ a.heads

instance (a : Abs P) (op : Op P) : Decidable (a.legal op) := by
  cases op <;> unfold Abs.legal <;> exact inferInstance

/-- the heap side of each operation. -/
def exec (a : Abs P) (h : Heap P) : Op P → Heap P
  | .newList _ => h
  | .pushFront hd t => pushFront hd t h
  | .pushBack hd t => pushBack hd t h
  | .unlink x => unlink x h
  | .moveList new old => moveAssign new old h
  | .dropList hd => unlink hd h
  | .disposeList hd => listDtor hd ((a.lists hd).length + 1) h

def run : Abs P × Heap P → List (Op P) → Abs P × Heap P
  | s, [] => s
  | (a, h), op :: ops => run (a.step op, exec a h op) ops

end Tromp.Ring
