/-
  Model/ClausesBase.lean — vocabulary of the clause-legality model (C19): the compile-time
  type-state of an expectation under construction (matcher_info + the injector templates,
  mock.hpp:2564-2606, 2926-2937) and the atoms the `static_assert` conditions are written in.
  The guard tables themselves are GENERATED from /repo by tools/translate.py (Gen/StaticAsserts.lean).
-/
namespace Tromp.Clauses

/-- everything a `static_assert` condition of a clause modifier can mention. -/
structure Env where
  -- the mock function's signature
  isCoro : Bool          -- trompeloeil::is_coroutine<return_of_t<signature>>
  sigVoid : Bool         -- return type is void
  -- type-state accumulated from the clauses so far (Parent)
  hasReturn : Bool       -- return_type ≠ void
  hasCoReturn : Bool     -- co_return_type ≠ void
  throws : Bool
  sideEffects : Bool
  limitSet : Bool        -- call_limit_set
  forbidden : Bool       -- upper_call_limit == 0
  seqSet : Bool          -- sequence_set
  -- the expression of a RETURN clause
  retFits : Bool         -- std::is_constructible<sigret, ret>
  illegalArg : Bool
  sigPtr : Bool
  retPtr : Bool
  sigPtrConst : Bool
  retPtrConst : Bool
  sigRef : Bool
  retRef : Bool
  sigRefConst : Bool
  retRefConst : Bool
  -- the expression of a CO_RETURN / CO_YIELD clause
  exprVoid : Bool
  coFits : Bool          -- accepted by the promise (return_value / return_void / yield_value)
  -- TIMES<L,H>
  L : Nat
  H : Nat
  -- MAKE_MOCKn
  arity : Nat
  declared : Nat
  deriving Repr

structure Guard where
  cond : Env → Bool
  msg : String

/-- which injector template the `action` wraps the Parent in. -/
inductive Inj | none | sideeffect | ret | throw_ | limit | limitRt | seq | coRet
  deriving DecidableEq, Repr

end Tromp.Clauses
