/-
  Model/Coro.lean — mocked coroutines (coro.hpp:120-154, 175-317): the body of
  `co_return_handler_t::call` as a resumable machine.

      for (auto& e : *yields) co_yield e.expr(params);
      co_return func(params);

  A clause evaluation may throw.  When the machine is stepped is decided by the promise type of the
  function's return type: `eager` (initial_suspend = suspend_never: the body runs up to its first
  suspension inside the mock call) or `lazy` (nothing runs before the first resume).  The promise
  types are the harness' own and are part of the trusted base.
-/
namespace Tromp.Coro

/-- what evaluating a clause gives. -/
inductive Val
  | v (n : Int)
  | void
  | throws
  deriving DecidableEq, Repr, Inhabited

/-- what the consumer of the coroutine receives from one resume. -/
inductive Item
  | yielded (n : Int)
  | returned (n : Int)
  | returnedVoid
  | threw
  | done                -- resumed after completion
  deriving DecidableEq, Repr, Inhabited

/-- evaluation log: which clause of which expectation was evaluated. -/
inductive Ev
  | fx (e : Nat)                 -- SIDE_EFFECT at call time
  | evalYield (e i : Nat)
  | evalReturn (e : Nat)
  deriving DecidableEq, Repr, Inhabited

structure Exp where
  yields : List Val             -- CO_YIELD clauses in declaration order (their values / `throws`)
  ret : Val                     -- CO_RETURN value, `void` (plain completion), `throws` (CO_THROW or throwing expression)
  eager : Bool
  count : Nat := 0
  deriving Repr, Inhabited

/-- the CO_ clauses of an expectation statement, as written. -/
inductive Clause
  | coYield (v : Val)           -- CO_YIELD
  | complete (r : Val)          -- CO_RETURN / CO_THROW
  deriving DecidableEq, Repr, Inhabited

/-- `handle_co_yield::action` appends to the expectation's one shared list of yield expressions (created
    by whichever CO_ clause is processed first, coro.hpp:190-317); `handle_co_return` / `handle_co_throw`
    install the handler that iterates *that same* list when the coroutine body runs.  So where the
    completion clause stands among the CO_YIELDs does not matter; exactly one completion clause is legal
    (static_assert, C19). -/
def Clause.yield? : Clause → Option Val
  | .coYield v => some v
  | .complete _ => none
def Clause.completion? : Clause → Option Val
  | .coYield _ => none
  | .complete r => some r

def Exp.ofClauses (cs : List Clause) (eager : Bool) : Option Exp :=
  match cs.filterMap Clause.completion? with
  | [r] => some { yields := cs.filterMap Clause.yield?, ret := r, eager := eager }
  | _ => none

/-- one coroutine frame: its own cursor into the shared yield list. -/
structure Co where
  e : Nat
  pos : Nat := 0
  finished : Bool := false
  stash : Option Item := none   -- eager start: the item produced inside the call
  deriving Repr, Inhabited

/-- run the body to its next suspension point. -/
def advance (eid : Nat) (x : Exp) (c : Co) : Co × Item × List Ev :=
  if c.finished then (c, .done, [])
  else
    match x.yields[c.pos]? with
    | some (.v n) => ({ c with pos := c.pos + 1 }, .yielded n, [.evalYield eid c.pos])
    | some .void => ({ c with pos := c.pos + 1 }, .yielded 0, [.evalYield eid c.pos])
    | some .throws => ({ c with finished := true }, .threw, [.evalYield eid c.pos])
    | none =>
      match x.ret with
      | .v n => ({ c with finished := true }, .returned n, [.evalReturn eid])
      | .void => ({ c with finished := true }, .returnedVoid, [])        -- `CO_RETURN()`: no expression to evaluate
      | .throws => ({ c with finished := true }, .threw, [.evalReturn eid])

/-- the mock call: count, side effect, create the frame; an eagerly started coroutine runs to its
    first suspension now and keeps what it produced for the first `next`. -/
def call (eid : Nat) (x : Exp) : Exp × Co × List Ev :=
  let x' := { x with count := x.count + 1 }
  let c : Co := { e := eid }
  if x.eager then
    let (c', item, evs) := advance eid x c
    (x', { c' with stash := some item }, Ev.fx eid :: evs)
  else (x', c, [Ev.fx eid])

/-- one pull by the consumer. -/
def next (eid : Nat) (x : Exp) (c : Co) : Co × Item × List Ev :=
  match c.stash with
  | some item => ({ c with stash := none }, item, [])
  | none => advance eid x c

/-- pull `n` times. -/
def pulls (eid : Nat) (x : Exp) : Co → Nat → List Item
  | _, 0 => []
  | c, n + 1 =>
    let (c', item, _) := next eid x c
    item :: pulls eid x c' n

/-- the specification: the yields in declaration order (up to the first that throws), then the
    return value / completion / exception; afterwards `done`. -/
def specFrom (ys : List Val) (ret : Val) : List Item :=
  match ys with
  | [] =>
    match ret with
    | .v n => [.returned n]
    | .void => [.returnedVoid]
    | .throws => [.threw]
  | .v n :: rest => .yielded n :: specFrom rest ret
  | .void :: rest => .yielded 0 :: specFrom rest ret
  | .throws :: _ => [.threw]

def spec (x : Exp) : List Item := specFrom x.yields x.ret

end Tromp.Coro
