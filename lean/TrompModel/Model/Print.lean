/-
  Model/Print.lean — value printing for reports and traces (mock.hpp:943-1273): stream_sentry,
  is_null guard, printer<T> / streamer<T> dispatch, tuple / pair / collection printing, hexdump.
  Core Lean only.

  The only stream insertions that are *not* made under a `stream_sentry` are those of string
  literals ("{ ", ", ", " }", the empty first separator) and whatever a user-provided printer<T>
  writes; the model's user printers write strings.  The rendering of a string by the standard
  stream under a given state (`pad`) is the documented behaviour of `operator<<(ostream&, const
  char*)` and is part of the trusted base.
-/
namespace Tromp.Print

inductive Base | dec | hex | oct | none deriving DecidableEq, Repr
inductive Adjust | left | right | internal | none deriving DecidableEq, Repr

/-- the formatting state of the destination stream that trompeloeil touches. -/
structure St where
  width  : Nat
  base   : Base
  adjust : Adjust
  fill   : Char
  extra  : Nat        -- all other flag bits (showpos, uppercase, skipws …), opaque
  deriving DecidableEq, Repr

/-- the state a `stream_sentry` establishes: `width(0)`, `flags(dec | left)`, `fill(' ')`. -/
def sentrySt : St := { width := 0, base := .dec, adjust := .left, fill := ' ', extra := 0 }

/-- `os << "text"`: padded to `width` with `fill` (after the text for `left`, before it otherwise);
    `width` is reset to 0 (standard formatted-output behaviour). -/
def pad (st : St) (s : String) : String × St :=
  let n := s.length
  let fillStr := String.ofList (List.replicate (st.width - n) st.fill)
  let out := if st.adjust = .left then s ++ fillStr else fillStr ++ s
  (out, { st with width := 0 })

def hexDigit (n : Nat) : Char := "0123456789abcdef".toList.getD n '?'

/-- `" 0x" << setw(2) << right << byte` with fill '0' and `hex`. -/
def hexByte (b : Nat) : String := " 0x" ++ String.ofList [hexDigit (b / 16), hexDigit (b % 16)]

/-- the loop of `hexdump` (mock.hpp:1179-1196): newline after every 16th byte. -/
def hexBytes : List Nat → Nat → String
  | [], _ => ""
  | b :: bs, k => hexByte b ++ (if k % 16 = 15 then "\n" else "") ++ hexBytes bs (k + 1)

def hexdump (bytes : List Nat) : String :=
  toString bytes.length ++ "-byte object={" ++ (if bytes.length > 8 then "\n" else "") ++ hexBytes bytes 0 ++ " }"

/-- printable values of the harness' type family. -/
inductive PV
  | int (i : Int)                    -- has operator<<
  | str (s : String)                 -- std::string
  | cstr (s : Option String)         -- const char* (null-comparable, streaming a null one is UB)
  | ptr (isNull : Bool)              -- T* / smart pointer; a non-null one prints an address
  | nullp                            -- std::nullptr_t
  | pair (a b : PV)
  | tuple (l : List PV)
  | coll (l : List PV)               -- anything iterable (vector, map, array, C array, nested)
  | blob (bytes : List Nat)        -- no operator<<, not iterable: hex dump of sizeof(T) bytes
  | user (s : String)                -- has a printer<T> specialisation (writes "U" then s)
  | both (s : String)                -- has operator<< AND printer<T>: printer<T> wins
  deriving Repr, Inhabited

/-- what `os << t` writes for a streamable leaf under the sentry's state; `none` = undefined
    behaviour (streaming a null `const char*`). -/
def leafText : PV → Option String
  | .int i => some (toString i)
  | .str s => some s
  | .cstr (some s) => some s
  | .cstr none => none
  | .ptr false => some "<addr>"
  | .ptr true => some "0"             -- what a raw null pointer would stream as; never reached
  | _ => some ""

def isNull : PV → Bool
  | .cstr none => true
  | .ptr true => true
  | .nullp => true
  | _ => false

mutual
/-- `trompeloeil::print(os, t)`; `none` would mean that undefined behaviour was reached. -/
def print (st : St) : PV → Option (String × St)
  | .pair a b => do
    let (o1, s1) := pad st "{ "
    let (o2, s2) ← print s1 a
    let (o3, s3) := pad s2 ", "
    let (o4, s4) ← print s3 b
    let (o5, s5) := pad s4 " }"
    some (o1 ++ o2 ++ o3 ++ o4 ++ o5, s5)
  | .tuple l => do
    let (o1, s1) := pad st "{ "
    let (o2, s2) ← printSeq s1 l true
    let (o3, s3) := pad s2 " }"
    some (o1 ++ o2 ++ o3, s3)
  | .coll l => do
    let (o1, s1) := pad st "{ "
    let (o2, s2) ← printSeq s1 l true
    let (o3, s3) := pad s2 " }"
    some (o1 ++ o2 ++ o3, s3)
  | .blob bytes => some (hexdump bytes, st)                  -- under a sentry: state restored
  | .user s =>
    let (o1, s1) := pad st "U"
    let (o2, s2) := pad s1 s
    some (o1 ++ o2, s2)
  | .both s =>
    let (o1, s1) := pad st "U"
    let (o2, s2) := pad s1 s
    some (o1 ++ o2, s2)
  | v =>
    if isNull v then some ("nullptr", st)                      -- is_null guard, under a sentry
    else (leafText v).map (fun t => (t, st))                   -- streamer<T,true,*>: sentry, os << t
/-- the elements of a tuple / collection: `os << sep; print(os, element); sep = ", "`. -/
def printSeq (st : St) : List PV → Bool → Option (String × St)
  | [], _ => some ("", st)
  | v :: vs, first => do
    let (o1, s1) := pad st (if first then "" else ", ")
    let (o2, s2) ← print s1 v
    let (o3, s3) ← printSeq s2 vs false
    some (o1 ++ o2 ++ o3, s3)
end

mutual
/-- the stateless structural rendering the property describes. -/
def render : PV → String
  | .int i => toString i
  | .str s => s
  | .cstr (some s) => s
  | .cstr none => "nullptr"
  | .ptr true => "nullptr"
  | .ptr false => "<addr>"
  | .nullp => "nullptr"
  | .pair a b => "{ " ++ render a ++ ", " ++ render b ++ " }"
  | .tuple l => "{ " ++ renderSeq l true ++ " }"
  | .coll l => "{ " ++ renderSeq l true ++ " }"
  | .blob bytes => hexdump bytes
  | .user s => "U" ++ s
  | .both s => "U" ++ s
def renderSeq : List PV → Bool → String
  | [], _ => ""
  | v :: vs, first => (if first then "" else ", ") ++ render v ++ renderSeq vs false
end

/-- leaves: directly streamable values, null pointers, hex-dumped objects. -/
def isLeaf : PV → Bool
  | .int _ | .str _ | .cstr _ | .ptr _ | .nullp | .blob _ => true
  | _ => false

/-- parse a hex dump back into its bytes (for the round-trip theorem). -/
def unhex (c : Char) : Option Nat :=
  let n := c.toNat
  if 48 ≤ n ∧ n ≤ 57 then some (n - 48) else if 97 ≤ n ∧ n ≤ 102 then some (n - 87) else none

def parseHexBytes : List Char → Option (List Nat)
  | [] => some []
  | ' ' :: '0' :: 'x' :: h :: l :: rest => do
    let hi ← unhex h
    let lo ← unhex l
    let bs ← parseHexBytes rest
    some ((hi * 16 + lo) :: bs)
  | '\n' :: rest => parseHexBytes rest
  | ' ' :: '}' :: [] => some []
  | _ => none

end Tromp.Print
