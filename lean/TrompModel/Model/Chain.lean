/-
  Model/Chain.lean — the two singly linked chains of the library as pointers: the live tracers (`tracer_obj()` → `previous` → …)
  and the destruction requirements of a watched object (`trompeloeil_lifetime_monitor` → `older_monitor` → …).  Core Lean only.

  A chain is a head slot and a `next` member per node.  The operations are the hand-written counterparts of the three idioms the
  translator recognises in the C++ text (tools/cxx2lean.py `special`: (3) unlink-this, (4) walk; the push is
  `previous = set_tracer(this)` / `chain_lifetime_monitor` + `trompeloeil_expect_death`):

    push x       `x->next = head; head = x;`
    unlinkThis x `for (auto p = &head; *p; p = &(*p)->next) { if (*p == x) { *p = x->next; break; } }`
    walk         `for (auto m = head; m; m = m->next) visit(m);`

  `p` is a pointer to a slot: the head slot or the `next` member of a node.  Lemmas/Chain.lean proves that on a well-formed chain
  these are `x :: l`, `l.erase x` and `l` — what the translator emits for the idioms.
-/
namespace Tromp.Chain

structure Heap where
  head : Option Nat
  next : Nat → Option Nat

/-- a slot: the head pointer or the `next` member of a node. -/
inductive Slot
  | head
  | nextOf (x : Nat)
  deriving DecidableEq, Repr

def Heap.read (h : Heap) : Slot → Option Nat
  | .head => h.head
  | .nextOf x => h.next x

def Heap.write (h : Heap) : Slot → Option Nat → Heap
  | .head, v => { h with head := v }
  | .nextOf x, v => { h with next := fun y => if y = x then v else h.next y }

def init : Heap := ⟨none, fun _ => none⟩

/-- constructor of a node that hooks itself in front: `x->next = head; head = x`. -/
def push (x : Nat) (h : Heap) : Heap :=
  let h1 := h.write (.nextOf x) h.head
  h1.write .head (some x)

/-- the unlink-this loop, with fuel (a chain of `k` nodes needs `k + 1` rounds). -/
def unlinkLoop (x : Nat) : Nat → Slot → Heap → Heap
  | 0, _, h => h
  | fuel + 1, p, h =>
    match h.read p with
    | none => h                                        -- `*p` is null: the loop ends
    | some y =>
      if y = x then h.write p (h.next x)               -- `*p = x->next; break;`
      else unlinkLoop x fuel (.nextOf y) h             -- `p = &(*p)->next`

def unlinkThis (x : Nat) (fuel : Nat) (h : Heap) : Heap := unlinkLoop x fuel .head h

/-- the nodes a walk visits: `for (m = head; m; m = m->next)`. -/
def walkFrom (h : Heap) : Nat → Option Nat → List Nat
  | 0, _ => []
  | _ + 1, none => []
  | fuel + 1, some m => m :: walkFrom h fuel (h.next m)

def toList (h : Heap) (fuel : Nat) : List Nat := walkFrom h fuel h.head

end Tromp.Chain
