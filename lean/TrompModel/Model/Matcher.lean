/-
  Model/Matcher.lean — scalar matchers and combinators (matcher/compare.hpp, not.hpp, deref.hpp,
  set_predicate.hpp, member_is.hpp, re.hpp, any.hpp; param_matches in mock.hpp:2065-2119).
  Core Lean only.
-/
namespace Tromp.Matcher

/-- the value universe of the harness: ints, nullable strings (`const char*` / `std::string`),
    nullable pointers to a value, a two-field struct. -/
inductive Val
  | int (i : Int)
  | str (s : Option String)
  | ptr (p : Option Val)
  | struct (a b : Int)
  deriving Repr, Inhabited

/-- `operator==` on values of one type. -/
def Val.beq : Val → Val → Bool
  | .int a, .int b => a == b
  | .str a, .str b => a == b
  | .ptr none, .ptr none => true
  | .ptr (some a), .ptr (some b) => Val.beq a b
  | .struct a b, .struct c d => a == c && b == d
  | _, _ => false

instance : BEq Val := ⟨Val.beq⟩

inductive Cmp | eq | ne | lt | le | gt | ge
  deriving Repr, DecidableEq

/-- `x op v` of `lambdas::equal` … `lambdas::greater_equal` (compare.hpp).  Pointers and C strings
    are only ever compared with `nullptr` (operand `ptr none` / `str none`). -/
def cmpVal : Cmp → Val → Val → Bool
  | op, .int x, .int v =>
    match op with
    | .eq => x == v | .ne => x != v | .lt => decide (x < v) | .le => decide (x ≤ v)
    | .gt => decide (x > v) | .ge => decide (x ≥ v)
  | op, .str (some x), .str (some v) =>
    match op with
    | .eq => x == v | .ne => x != v | .lt => decide (x < v) | .le => decide (x ≤ v)
    | .gt => decide (x > v) | .ge => decide (x ≥ v)
  | .eq, .ptr p, .ptr none => p.isNone
  | .ne, .ptr p, .ptr none => p.isSome
  | .eq, .str s, .str none => s.isNone
  | .ne, .str s, .str none => s.isSome
  | _, _, _ => false

/-- matcher expressions.  `re k` refers to the k-th regular expression of the tree; whether it is
    found in the string at hand is supplied by the oracle (`std::regex_search`, trusted). -/
inductive Mt
  | any
  | val (v : Val)                 -- a plain value used as operand / parameter
  | cmp (op : Cmp) (v : Val)
  | not (m : Mt)
  | deref (m : Mt)
  | anyOf (ms : List Mt)
  | allOf (ms : List Mt)
  | noneOf (ms : List Mt)
  | member (f : Nat) (m : Mt)
  | re (k : Nat)
  deriving Repr, Inhabited

def field : Nat → Val → Val
  | 0, .struct a _ => .int a
  | _, .struct _ b => .int b
  | _, v => v

mutual
/-- `param_matches(m, ref(x))`. -/
def eval (orc : List Bool) : Mt → Val → Bool
  | .any, _ => true
  | .val v, x => x == v                                  -- `identity<U>(t) == u.get()`
  | .cmp op v, x => cmpVal op x v
  | .not m, x => !eval orc m x                           -- not_matcher::matches
  | .deref m, x =>                                       -- `(u != nullptr) && m.matches(*u)`
    match x with
    | .ptr (some v) => eval orc m v
    | _ => false
  | .anyOf ms, x => foldAny orc false ms x
  | .allOf ms, x => foldAll orc true ms x
  | .noneOf ms, x => !foldAny orc false ms x
  | .member f m, x => eval orc m (field f x)             -- `param_matches(c, ref(m(v)))`
  | .re k, x =>                                          -- `str && std::regex_search(...)`
    match x with
    | .str (some _) => orc.getD k false
    | _ => false
/-- `any_true = any_true || param_matches(compare, ref(t))` over the operands, left to right. -/
def foldAny (orc : List Bool) (acc : Bool) : List Mt → Val → Bool
  | [], _ => acc
  | m :: ms, x => foldAny orc (acc || eval orc m x) ms x
/-- `all_true = all_true && param_matches(compare, ref(t))`. -/
def foldAll (orc : List Bool) (acc : Bool) : List Mt → Val → Bool
  | [], _ => acc
  | m :: ms, x => foldAll orc (acc && eval orc m x) ms x
end

end Tromp.Matcher
