/-
  Model/Conc.lean — one global lock (mock.hpp:564-602), traces of lock events and shared accesses.
  Core Lean only.
-/
namespace Tromp.Conc

/-- events of an execution, in the order they happen. -/
inductive E
  | acq (t : Nat)                       -- outermost acquisition of the global lock by thread t
  | rel (t : Nat)                       -- matching release
  | acc (t : Nat) (loc : Nat) (w : Bool)  -- access to shared location `loc` by thread t
  deriving DecidableEq, Repr

/-- who holds the lock. -/
abbrev Holder := Option Nat

/-- one event; `none` if the event is impossible (a second thread cannot acquire a held lock, only
    the holder releases).  Re-entrant acquisitions are not events: only the outermost pair is. -/
def stepL : Holder → E → Option Holder
  | none, .acq t => some (some t)
  | some _, .acq _ => none
  | some h, .rel t => if h = t then some none else none
  | none, .rel _ => none
  | h, .acc _ _ _ => some h

def runL : Holder → List E → Option Holder
  | h, [] => some h
  | h, e :: es =>
    match stepL h e with
    | some h' => runL h' es
    | none => none

/-! ### operations as critical sections -/

/-- micro-steps of a thread on a shared state `σ`. -/
inductive MS (σ : Type)
  | lock
  | unlock
  | upd (f : σ → σ)

structure Cfg (σ : Type) where
  st : σ
  holder : Holder

/-- a micro-step by thread t; updates of the shared state require holding the lock (the discipline
    observed by the access hooks). -/
def stepM {σ : Type} (c : Cfg σ) (t : Nat) : MS σ → Option (Cfg σ)
  | .lock => match c.holder with | none => some { c with holder := some t } | some _ => none
  | .unlock => if c.holder = some t then some { c with holder := none } else none
  | .upd f => if c.holder = some t then some { c with st := f c.st } else none

def execM {σ : Type} : Cfg σ → List (Nat × MS σ) → Option (Cfg σ)
  | c, [] => some c
  | c, (t, m) :: rest =>
    match stepM c t m with
    | some c' => execM c' rest
    | none => none

/-- one critical section of thread t performing the updates `fs`. -/
def block {σ : Type} (b : Nat × List (σ → σ)) : List (Nat × MS σ) :=
  (b.1, MS.lock) :: (b.2.map (fun f => (b.1, MS.upd f)) ++ [(b.1, MS.unlock)])

def applyBlock {σ : Type} (s : σ) (b : Nat × List (σ → σ)) : σ := b.2.foldl (fun s f => f s) s

end Tromp.Conc
