/-
  Model/Range.lean — the range matchers of matcher/range.hpp, one definition per checker loop.
  `acc b x` is "element matcher `b` accepts the range member `x`" (`param_matches(b, ref(x))`).
  Core Lean only.
-/
namespace Tromp.Range

variable {α β : Type}

/-- `*found = std::move(matchers.back()); matchers.pop_back();` (range.hpp:222-223, 350-351). -/
def swapRemove (ms : List β) (i : Nat) : List β :=
  match ms.getLast? with
  | none => ms
  | some l => (ms.set i l).dropLast

/-- `includes_elements_checker` / `includes_range_checker` (range.hpp:328-425): one pass over the
    range; the first matcher (in current vector order) that accepts the member is removed by
    swap-with-last; accepted iff the vector ends up empty. -/
def includesG (acc : β → α → Bool) (ms : List β) : List α → Bool
  | [] => ms.isEmpty
  | x :: xs =>
    match ms.findIdx? (fun m => acc m x) with
    | some i => includesG acc (swapRemove ms i) xs
    | none => includesG acc ms xs

/-- `is_permutation_elements_checker` / `is_permutation_range_checker` (range.hpp:197-300): as above
    but a member no matcher accepts ends the loop; both must be exhausted. -/
def isPermG (acc : β → α → Bool) (ms : List β) : List α → Bool
  | [] => ms.isEmpty
  | x :: xs =>
    match ms.findIdx? (fun m => acc m x) with
    | some i => isPermG acc (swapRemove ms i) xs
    | none => false

/-- the fold `all_true = all_true && match(elements)...` of `is_elements_checker` and
    `starts_with_elements_checker` (range.hpp:94-112, 640-658): state = (all_true, iterator). -/
def elemStep (acc : β → α → Bool) (st : Bool × List α) (m : β) : Bool × List α :=
  if st.1 then
    match st.2 with
    | [] => (false, [])
    | v :: rest => (acc m v, rest)
  else st

def elemFold (acc : β → α → Bool) (ms : List β) (r : List α) : Bool × List α :=
  ms.foldl (elemStep acc) (true, r)

/-- `range_is(e1, …, en)`: `all_true && it == e`. -/
def isElements (acc : β → α → Bool) (ms : List β) (r : List α) : Bool :=
  (elemFold acc ms r).1 && (elemFold acc ms r).2.isEmpty

/-- `range_starts_with(e1, …, en)`: `all_true`. -/
def startsWithE (acc : β → α → Bool) (ms : List β) (r : List α) : Bool :=
  (elemFold acc ms r).1

/-- `std::equal(first1, last1, first2, last2, pred)` as used by `is_range_checker`. -/
def equal4 (acc : β → α → Bool) : List α → List β → Bool
  | [], [] => true
  | x :: xs, m :: ms => acc m x && equal4 acc xs ms
  | _, _ => false

/-- `std::mismatch(first1, last1, first2, last2, pred)`: the two remainders. -/
def mismatch (acc : β → α → Bool) : List α → List β → List α × List β
  | x :: xs, m :: ms => if acc m x then mismatch acc xs ms else (x :: xs, m :: ms)
  | xs, ms => (xs, ms)

/-- `range_starts_with(container)`: `result.second == end(elements)`. -/
def startsWithR (acc : β → α → Bool) (ms : List β) (r : List α) : Bool :=
  (mismatch acc r ms).2.isEmpty

/-- `range_ends_with(e1, …, en)` (range.hpp:735-760): size guard, advance, fold. -/
def endsWithE (acc : β → α → Bool) (ms : List β) (r : List α) : Bool :=
  if r.length < ms.length then false
  else (elemFold acc ms (r.drop (r.length - ms.length))).1

/-- `range_ends_with(container)`: size guard, advance, mismatch. -/
def endsWithR (acc : β → α → Bool) (ms : List β) (r : List α) : Bool :=
  if r.length < ms.length then false
  else (mismatch acc (r.drop (r.length - ms.length)) ms).2.isEmpty

def allOf (p : α → Bool) (r : List α) : Bool := r.all p
def anyOf (p : α → Bool) (r : List α) : Bool := r.any p
def noneOf (p : α → Bool) (r : List α) : Bool := !r.any p

/-- element matchers of the harness: a plain value or a comparison. -/
inductive Elem
  | val (v : Int) | eq (v : Int) | ne (v : Int) | lt (v : Int) | le (v : Int) | gt (v : Int) | ge (v : Int) | any
  deriving DecidableEq, Repr

def Elem.acc : Elem → Int → Bool
  | .val v, x => x == v
  | .eq v, x => x == v
  | .ne v, x => x != v
  | .lt v, x => decide (x < v)
  | .le v, x => decide (x ≤ v)
  | .gt v, x => decide (x > v)
  | .ge v, x => decide (x ≥ v)
  | .any, _ => true

end Tromp.Range
