/-
  Model/Algo.lean — the list algorithms of trompeloeil, one definition per C++ loop.
  Core Lean only (no Mathlib) so that the driver links as a `lean_exe`.

  Every definition names the C++ it mirrors; the tests are in the same order, the early
  exits are the same, `<` is `<`.  Costs are `Option Nat` with `none` standing for `~0U`
  ("not callable"); the C++ counts in `unsigned`, so the model is exact for lists shorter
  than 2^32 − 1 (stated in the trusted base).
-/
namespace Tromp

variable {α : Type}

/-- `~0U` is `none`; `a < b` on costs as on `unsigned` with `~0U` the maximum. -/
abbrev Cost := Option Nat

def Cost.lt : Cost → Cost → Bool
  | some a, some b => a < b
  | some _, none   => true
  | none,   _      => false

/-- `cost > highest_order` of `sequence_matchers<N>::order` (sequence.hpp:353-366). -/
def Cost.max : Cost → Cost → Cost
  | some a, some b => some (Nat.max a b)
  | _, _ => none

/-- `sequence_type::cost` (sequence.hpp:198-216): walk the pending list; the index of `h`, or
    `~0U` at the first unsatisfied predecessor, or `~0U` when `h` is not in the list. -/
def seqCostGo [DecidableEq α] (sat : α → Bool) (h : α) : Nat → List α → Cost
  | _, [] => none
  | k, x :: xs => if x = h then some k else if sat x then seqCostGo sat h (k + 1) xs else none

def seqCost [DecidableEq α] (sat : α → Bool) (h : α) (l : List α) : Cost :=
  seqCostGo sat h 0 l

/-- `sequence_type::retire_until` (sequence.hpp:218-230), guarded by the handle being linked
    (`sequence_matcher::retire_predecessors`): drop from the front until `h`; a handle that is
    not in the list retires nothing. -/
def retireUntil [DecidableEq α] (h : α) (l : List α) : List α :=
  if h ∈ l then l.dropWhile (· ≠ h) else l

/-- `sequence_matchers<N>::order` (sequence.hpp:353-366): the highest cost over the handles,
    `0` for none. -/
def orderOf (costs : List Cost) : Cost :=
  costs.foldl Cost.max (some 0)

/-- `trompeloeil::find` (mock.hpp:2306-2332).  The accumulator is `(first_match, lowest_cost)`;
    a match of cost 0 returns at once, otherwise the accumulator is replaced iff there is none yet
    or the cost is strictly lower. -/
def findGo (m : α → Bool) (c : α → Cost) : Option (α × Cost) → List α → Option α
  | first, [] => first.map (·.1)
  | first, e :: rest =>
    if m e then
      if c e = some 0 then some e
      else match first with
        | none => findGo m c (some (e, c e)) rest
        | some (f, lc) =>
          if Cost.lt (c e) lc then findGo m c (some (e, c e)) rest
          else findGo m c (some (f, lc)) rest
    else findGo m c first rest

/-- the elements whose `matches()` the loop of `find` evaluates: everything up to and including
    the first match of cost 0 (the early `return`), else the whole list. -/
def examined (m : α → Bool) (c : α → Cost) : List α → List α
  | [] => []
  | e :: rest => if m e && (c e == some 0) then [e] else e :: examined m c rest

def find (m : α → Bool) (c : α → Cost) (l : List α) : Option α × List α :=
  (findGo m c none l, examined m c l)

/-- `match_parameters` (mock.hpp:2121-2143): the `all_true = all_true && …` fold. -/
def paramsOk : List (Int → Bool) → List Int → Bool
  | p :: ps, a :: as => p a && paramsOk ps as
  | _, _ => true

/-- indices of the parameters that reject the call (`print_mismatch`, mock.hpp:2145-2178). -/
def failingParams : List (Int → Bool) → List Int → Nat → List Nat
  | p :: ps, a :: as, k => if p a then failingParams ps as (k + 1) else k :: failingParams ps as (k + 1)
  | _, _, _ => []

/-- `match_conditions` (mock.hpp:3030-3043): how many WITH clauses are evaluated — up to and
    including the first that fails. -/
def condsEvaluated {α : Type} (cs : List (α → Bool)) (a : α) : Nat :=
  match cs with
  | [] => 0
  | c :: cs => if c a then 1 + condsEvaluated cs a else 1

def condsOk {α : Type} (cs : List (α → Bool)) (a : α) : Bool := cs.all (· a)

/-- index of the first failing WITH, if any (`report_mismatch`, mock.hpp:3112-3121). -/
def firstFailing {α : Type} (cs : List (α → Bool)) (a : α) : Option Nat :=
  cs.findIdx? (fun c => !c a)

end Tromp
