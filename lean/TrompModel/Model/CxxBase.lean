/-
  Model/CxxBase.lean — the few types the regenerated `Gen/Cxx.lean` (tools/cxx2lean.py) refers to.
  Core Lean only.
-/
import TrompModel.Model.World

namespace Tromp

/-- `~0U` -/
def topU : Nat := 4294967295

/-- what a translated function inserts into an `std::ostringstream`: string literals by the key phrase they
    contain (or `text`), the run-time strings by name, an expectation by identity (`print_expectation`). -/
inductive Tok (α : Type)
  | key (k : String)          -- a literal containing one of the phrases that carry structure (tools/cxxvocab.py)
  | text                      -- any other literal: wording is not modelled
  | seqName
  | matchName
  | loc
  | expectation (x : α)
  | tried (x : α)             -- `x.report_mismatch(os, params)`: the "Tried …" explanation of expectation `x`
  deriving DecidableEq, Repr

/-- `*found = std::move(v.back());` on a vector held as a list (`found` = the index `std::find_if` returned, if any). -/
def assignFromBack {β : Type} (v : List β) (found : Option Nat) : List β :=
  match found, v.getLast? with
  | some i, some l => v.set i l
  | _, _ => v

/-- what `call_matcher::report_mismatch` (the "Tried …" explanation of one expectation) inserts into the stream. -/
inductive MTok (κ : Type)
  | signature                 -- `report_signature(os)`
  | failedWith (c : κ)        -- "Failed WITH(" << cond.name() << ')'
  | paramMismatch             -- `print_mismatch(os, val, params)`: the parameters that reject the call
  | text
  deriving DecidableEq, Repr

/-- what `hexdump` inserts into the stream, manipulators included. -/
inductive HTok
  | sentry                 -- `stream_sentry s(os)`
  | num (n : Nat)          -- the size
  | lit (s : String)
  | setfill0 | hex | setw2 | right
  | byte (b : Nat)
  deriving DecidableEq, Repr

/-- one executed statement of a translated function in action-trace mode: the statement verbatim, or a member
    call on the element `x` of the list being walked. -/
inductive Act
  | stmt (s : String)
  | on (what : String) (x : Nat)
  deriving DecidableEq, Repr

/-- a cost as the C++ holds it: `unsigned`, `~0U` for "not callable". -/
def Cost.toU : Cost → Nat
  | some k => k
  | none => topU

def Cost.ofU (n : Nat) : Cost := if n = topU then none else some n

end Tromp
