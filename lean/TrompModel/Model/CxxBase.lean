/-
  Model/CxxBase.lean — the few types the regenerated `Gen/Cxx.lean` (tools/cxx2lean.py) refers to.
  Core Lean only.
-/
import TrompModel.Model.World

namespace Tromp

/-- `~0U` -/
def topU : Nat := 4294967295

/-- what a translated function inserts into an `std::ostringstream`: string literals by the key phrase they
    contain (or `text`), the run-time strings by name, an expectation by identity (`print_expectation`). -/
inductive Tok (α : Type)
  | key (k : String)          -- a literal containing one of the phrases that carry structure (tools/cxxvocab.py)
  | text                      -- any other literal: wording is not modelled
  | seqName
  | matchName
  | loc
  | expectation (x : α)
  | tried (x : α)             -- `x.report_mismatch(os, params)`: the "Tried …" explanation of expectation `x`
  deriving DecidableEq, Repr

/-- `*found = std::move(v.back());` on a vector held as a list (`found` = the index `std::find_if` returned, if any). -/
def assignFromBack {β : Type} (v : List β) (found : Option Nat) : List β :=
  match found, v.getLast? with
  | some i, some l => v.set i l
  | _, _ => v

/-- what `call_matcher::report_mismatch` (the "Tried …" explanation of one expectation) inserts into the stream. -/
inductive MTok (κ : Type)
  | signature                 -- `report_signature(os)`
  | failedWith (c : κ)        -- "Failed WITH(" << cond.name() << ')'
  | paramMismatch             -- `print_mismatch(os, val, params)`: the parameters that reject the call
  | text
  deriving DecidableEq, Repr

/-- the part of a `call_matcher` the CO_ clauses work on: `yield_expressions` is a `shared_ptr` to a list of yield
    expressions — modelled as an optional *list id* into a heap of lists, so that sharing is visible — and the installed
    return handler holds its function and **a copy of that pointer** (`co_return_handler_t::yields`). -/
structure CoSt (ε η : Type) where
  ylist : Option Nat := none
  lists : Nat → List ε := fun _ => []
  next : Nat := 0
  handler : Option (η × Option Nat) := none

namespace CoSt
variable {ε η : Type}
/-- `yield_expressions = std::make_shared<yield_expr_list<signature>>()` -/
def fresh (s : CoSt ε η) : CoSt ε η :=
  { s with ylist := some s.next, lists := fun i => if i = s.next then [] else s.lists i, next := s.next + 1 }
/-- `yield_expressions->push_back(expr)` (a null pointer would be undefined behaviour; the model leaves the state alone) -/
def pushBack (s : CoSt ε η) (e : ε) : CoSt ε η :=
  match s.ylist with
  | some l => { s with lists := fun i => if i = l then s.lists l ++ [e] else s.lists i }
  | none => s
/-- `return_handler_obj.reset(new handler(h, yield_expressions))`: the handler copies the pointer as it is now -/
def setHandler (s : CoSt ε η) (h : η) : CoSt ε η := { s with handler := some (h, s.ylist) }
/-- the yield expressions the installed handler will walk when the coroutine body runs -/
def handlerYields (s : CoSt ε η) : Option (η × List ε) :=
  s.handler.map (fun p => (p.1, match p.2 with | some l => s.lists l | none => []))
end CoSt

/-- what the body of a mocked coroutine does, in order. -/
inductive CoAct (ε : Type)
  | yield (e : ε)        -- `co_yield e.expr(params)`
  | ret                  -- `co_return func(params)`
  deriving DecidableEq, Repr

/-- what the parameter listings insert into a report: `print_mismatch` (one "Expected _N …" per rejecting parameter) and
    `stream_params` (one "param _N == value" line per parameter). -/
inductive PTok
  | expected (idx : Nat)        -- "  Expected " … `_<idx+1>` + print_expectation of the matcher at that position
  | param (idx : Nat)           -- "  param " … `_<idx+1>` + comparison operator + the value at that position
  deriving DecidableEq, Repr

/-- what a `trace_agent` collects for one call. -/
inductive TTok
  | name            -- the call's text, then " with.\n"
  | params          -- `stream_params(os, params)`: every actual argument
  | result          -- " -> " value "\n"
  | stdException    -- "threw exception: what() = …"
  | unknownException
  deriving DecidableEq, Repr

/-- what the printing functions of mock.hpp do, in order: insertions of string literals (made *without* a sentry),
    the construction of a `stream_sentry` (which lives to the end of the function), recursive `print` calls on a
    component, and the leaf actions. -/
inductive PrTok
  | lit (s : String)          -- `os << "…"` / `os << sep`
  | sentry                    -- `stream_sentry s(os);`
  | printSub (i : Nat)        -- `::trompeloeil::print(os, <component i>)`
  | streamValue               -- `os << t`   (the value's own operator<<)
  | hexdump                   -- `hexdump(&t, sizeof(T), os)`
  | toPrinter                 -- `printer<T>::print(os, t)`
  | toStreamer                -- `streamer<T>::print(os, t)`
  deriving DecidableEq, Repr

/-- what the end-of-life and forbidden-call reports insert into their message. -/
inductive RTok
  | reason | name | loc | values
  | minOnce | minTimes (n : Nat)
  | never | once | times (n : Nat)
  | text
  deriving DecidableEq, Repr

/-- what `hexdump` inserts into the stream, manipulators included. -/
inductive HTok
  | sentry                 -- `stream_sentry s(os)`
  | num (n : Nat)          -- the size
  | lit (s : String)
  | setfill0 | hex | setw2 | right
  | byte (b : Nat)
  deriving DecidableEq, Repr

/-- one executed statement of a translated function in action-trace mode: the statement verbatim, or a member
    call on the element `x` of the list being walked. -/
inductive Act
  | stmt (s : String)
  | on (what : String) (x : Nat)
  deriving DecidableEq, Repr

/-- a cost as the C++ holds it: `unsigned`, `~0U` for "not callable". -/
def Cost.toU : Cost → Nat
  | some k => k
  | none => topU

def Cost.ofU (n : Nat) : Cost := if n = topU then none else some n

end Tromp
