/-
  Model/CxxBase.lean — the few types the regenerated `Gen/Cxx.lean` (tools/cxx2lean.py) refers to.
  Core Lean only.
-/
import TrompModel.Model.World

namespace Tromp

/-- `~0U` -/
def topU : Nat := 4294967295

/-- what a translated function inserts into an `std::ostringstream`: string literals verbatim, the
    run-time strings by name, an expectation by identity (`print_expectation`). -/
inductive Tok (α : Type)
  | lit (s : String)
  | seqName
  | matchName
  | loc
  | expectation (x : α)
  deriving DecidableEq, Repr

/-- a cost as the C++ holds it: `unsigned`, `~0U` for "not callable". -/
def Cost.toU : Cost → Nat
  | some k => k
  | none => topU

def Cost.ofU (n : Nat) : Cost := if n = topU then none else some n

end Tromp
