import TrompModel.Tie.Base
import TrompModel.Tie.Find
import TrompModel.Tie.Cost
import TrompModel.Tie.Order
import TrompModel.Tie.RetireUntil
import TrompModel.Tie.IsCompleted
import TrompModel.Tie.ValidateMatch
import TrompModel.Tie.SeqDtor
