import TrompModel.Model.Range
open Tromp.Range

namespace Driver

def parseElem (s : String) : Option Elem :=
  match s.splitOn ":" with
  | ["_"] => some .any
  | [k, v] => do
    let v ← v.toInt?
    match k with
    | "v" => some (.val v) | "eq" => some (.eq v) | "ne" => some (.ne v) | "lt" => some (.lt v)
    | "le" => some (.le v) | "gt" => some (.gt v) | "ge" => some (.ge v) | _ => none
  | _ => none

/-- `<kind> <flavour> E <elems…> R <ints…>`; flavour `v…` = variadic elements, `c…` = container. -/
def rangeLine (line : String) : String :=
  let toks := (line.trimAscii.toString.splitOn " ").filter (· != "")
  match toks with
  | kind :: flav :: rest =>
    let es := ((rest.dropWhile (· != "E")).drop 1).takeWhile (· != "R")
    let rs := (rest.dropWhile (· != "R")).drop 1
    match es.mapM parseElem, rs.mapM (·.toInt?) with
    | some ms, some r =>
      let variadic := flav.startsWith "v"
      let res : Option Bool :=
        match kind with
        | "is" => some (if variadic then isElements Elem.acc ms r else equal4 Elem.acc r ms)
        | "starts" => some (if variadic then startsWithE Elem.acc ms r else startsWithR Elem.acc ms r)
        | "ends" => some (if variadic then endsWithE Elem.acc ms r else endsWithR Elem.acc ms r)
        | "includes" => some (includesG Elem.acc ms r)
        | "perm" => some (isPermG Elem.acc ms r)
        | "all" => ms.head?.map (fun m => allOf (Elem.acc m) r)
        | "any" => ms.head?.map (fun m => anyOf (Elem.acc m) r)
        | "none" => ms.head?.map (fun m => noneOf (Elem.acc m) r)
        | _ => none
      match res with
      | some b => toString b
      | none => "parse-error"
    | _, _ => "parse-error"
  | _ => "parse-error"

partial def rangeLoop (h : IO.FS.Stream) (out : IO.FS.Stream) : IO Unit := do
  let line ← h.getLine
  if line.isEmpty then return ()
  let t := line.trimAscii.toString
  if t.isEmpty || t.startsWith "#" then rangeLoop h out
  else
    out.putStrLn (rangeLine t)
    rangeLoop h out

end Driver
