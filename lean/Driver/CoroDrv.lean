import TrompModel.Model.Coro
open Tromp.Coro

namespace Driver

def parseCVal (s : String) : Option Val :=
  match s.splitOn ":" with
  | ["v", n] => n.toInt?.map .v
  | ["void"] => some .void
  | ["std"] => some .throws
  | ["cothrow"] => some .throws
  | _ => none

def fmtCEv : Ev → String
  | .fx e => s!"fx e{e}"
  | .evalYield e i => s!"evalY e{e} {i}"
  | .evalReturn e => s!"evalR e{e}"

def fmtItem : Item → String
  | .yielded n => s!"y:{n}"
  | .returned n => s!"r:{n}"
  | .returnedVoid => "rvoid"
  | .threw => "threw"
  | .done => "done"

structure CoroSt where
  exps : List (Nat × Exp) := []
  cos : List (Nat × Co) := []

def lookup {α : Type} (l : List (Nat × α)) (k : Nat) : Option α := (l.find? (·.1 == k)).map (·.2)
def store {α : Type} (l : List (Nat × α)) (k : Nat) (v : α) : List (Nat × α) := (k, v) :: l.filter (·.1 != k)

def joinEvs (evs : List String) : String := if evs.isEmpty then "-" else " ; ".intercalate evs

def coroStep (st : CoroSt) (line : String) : CoroSt × String :=
  let toks := (line.splitOn " ").filter (· != "")
  match toks with
  | "expect" :: e :: start :: _ :: rest =>
    let ys := ((rest.dropWhile (· != "Y")).drop 1).takeWhile (· != "R")
    let r := (rest.dropWhile (· != "R")).drop 1
    let p := ((rest.dropWhile (· != "P")).drop 1).head?.bind String.toNat?     -- completion clause written after p yields
    match e.toNat?, ys.mapM parseCVal, r.head?.bind parseCVal with
    | some e, some ys, some r =>
      let k := p.getD ys.length
      if k > ys.length then (st, "parse-error") else
      let clauses := (ys.take k).map Clause.coYield ++ [Clause.complete r] ++ (ys.drop k).map Clause.coYield
      match Exp.ofClauses clauses (start == "eager") with
      | some x => ({ st with exps := store st.exps e x }, "-")
      | none => (st, "parse-error")
    | _, _, _ => (st, "parse-error")
  | ["call", c, e] =>
    match c.toNat?, e.toNat? with
    | some c, some e =>
      match lookup st.exps e with
      | some x =>
        let (x', co, evs) := call e x
        ({ exps := store st.exps e x', cos := store st.cos c co }, joinEvs (evs.map fmtCEv))
      | none => (st, "bad-op")
    | _, _ => (st, "parse-error")
  | ["next", c] =>
    match c.toNat? with
    | some c =>
      match lookup st.cos c with
      | some co =>
        match lookup st.exps co.e with
        | some x =>
          let (co', item, evs) := next co.e x co
          ({ st with cos := store st.cos c co' }, joinEvs (evs.map fmtCEv ++ [fmtItem item]))
        | none => (st, "bad-op")
      | none => (st, "bad-op")
    | none => (st, "parse-error")
  | ["sat", e] =>
    match e.toNat?.bind (lookup st.exps) with
    | some x => (st, s!"ans {decide (2 ≤ x.count)}")
    | none => (st, "bad-op")
  | ["satd", e] =>
    match e.toNat?.bind (lookup st.exps) with
    | some x => (st, s!"ans {x.count == 2}")
    | none => (st, "bad-op")
  | ["kill", c] =>
    match c.toNat? with
    | some c => ({ st with cos := st.cos.filter (·.1 != c) }, "-")
    | none => (st, "parse-error")
  | ["release", e] =>
    match e.toNat? with
    | some e => ({ st with exps := st.exps.filter (·.1 != e) }, "-")
    | none => (st, "parse-error")
  | _ => (st, "parse-error")

partial def coroLoop (h : IO.FS.Stream) (out : IO.FS.Stream) (st : CoroSt) : IO Unit := do
  let line ← h.getLine
  if line.isEmpty then return ()
  let t := line.trimAscii.toString
  if t == "reset" then
    out.putStrLn "reset"
    coroLoop h out {}
  else if t.isEmpty || t.startsWith "#" then coroLoop h out st
  else
    let (st', o) := coroStep st t
    out.putStrLn o
    coroLoop h out st'

end Driver
