/-
  Driver/Fmt.lean — canonical rendering of events (the C++ harness prints the same grammar).
-/
import TrompModel.Model.World

open Tromp

namespace Driver

def fmtList (f : α → String) (l : List α) : String :=
  "[" ++ ",".intercalate (l.map f) ++ "]"

def fmtInt (i : Int) : String := toString i

def fmtOwner : Owner → String
  | .exp e => s!"e{e}"
  | .mon m => s!"d{m}"

def fmtExc : Exc → String
  | .std => "std" | .other => "other" | .rep => "rep"

def fmtOutcome : Outcome → String
  | .void => "void"
  | .val v => s!"val:{v}"
  | .threw x => fmtExc x

def fmtSev : Sev → String
  | .fatal => "F" | .nonfatal => "N"

def fmtWhy : Why → String
  | .params idx => "p" ++ ".".intercalate (idx.map toString)
  | .cond (some i) => s!"w{i}"
  | .cond none => "w-"

def fmtReport : Report → String
  | .noMatch f a s t =>
    s!"nomatch f{f} args={fmtList fmtInt a} sat={fmtList (fun e => s!"e{e}") s} tried={fmtList (fun (p : Nat × Why) => s!"e{p.1}:{fmtWhy p.2}") t}"
  | .forbidden e a => s!"forbidden e{e} args={fmtList fmtInt a}"
  | .seqNoMore s o => s!"seqmis s{s} {fmtOwner o} nomore"
  | .seqMismatch s o l =>
    s!"seqmis s{s} {fmtOwner o} listed={fmtList (fun (p : Owner × Bool) => fmtOwner p.1 ++ (if p.2 then ":opt" else ":req")) l}"
  | .unfulfilled e lo n => s!"unfulfilled e{e} lo={lo} n={n}"
  | .pendingDestroyed e lo n => s!"pending e{e} lo={lo} n={n}"
  | .stillAlive m => s!"stillalive d{m}"
  | .unexpectedDestruction x => s!"unexpected w{x}"
  | .seqTeardown s l => s!"seqdead s{s} missing={fmtList fmtOwner l}"

def fmtEv : Ev → String
  | .evalWith e i => s!"with e{e} {i}"
  | .evalFx e i => s!"fx e{e} {i}"
  | .evalRet e => s!"ret e{e}"
  | .report sev r rp => s!"report {fmtSev sev} r{r} {fmtReport rp}"
  | .ok r e => s!"ok r{r} e{e}"
  | .trace t e a res => s!"trace t{t} e{e} args={fmtList fmtInt a} {fmtOutcome res}"
  | .result r => s!"res {fmtOutcome r}"
  | .answer b => s!"ans {b}"
  | .threwLogic => "logic_error"
  | .reporterWas r => s!"was r{r}"
  | .okReporterWas r => s!"okwas r{r}"
  | .badOp => "bad-op"

def fmtEvs (evs : List Ev) : String :=
  if evs.isEmpty then "-" else " ; ".intercalate (evs.map fmtEv)

end Driver
