import TrompModel.Model.Matcher
open Tromp.Matcher

namespace Driver

def parseVal (s : String) : Option Val :=
  if s == "cnull" then some (.str none)
  else if s == "pnull" then some (.ptr none)
  else match s.splitOn ":" with
  | ["i", v] => v.toInt?.map .int
  | ["s", v] => some (.str (some v))
  | ["c", v] => some (.str (some v))
  | ["p", v] => v.toInt?.map (fun i => .ptr (some (.int i)))
  | ["S", v] =>
    match v.splitOn "," with
    | [a, b] => do some (.struct (← a.toInt?) (← b.toInt?))
    | _ => none
  | _ => none

def parseCmp : String → Option Cmp
  | "eq" => some .eq | "ne" => some .ne | "lt" => some .lt | "le" => some .le | "gt" => some .gt | "ge" => some .ge
  | _ => none

/-- prefix syntax: `any | val <v> | eq <v> … | not m | deref m | anyof n m… | allof n m… | noneof n m… |
    member f m | re k`.  Returns the tree and the remaining tokens. -/
partial def parseMt : List String → Option (Mt × List String)
  | "any" :: rest => some (.any, rest)
  | "val" :: v :: rest => do some (.val (← parseVal v), rest)
  | "not" :: rest => do let (m, r) ← parseMt rest; some (.not m, r)
  | "deref" :: rest => do let (m, r) ← parseMt rest; some (.deref m, r)
  | "member" :: f :: rest => do let (m, r) ← parseMt rest; some (.member (← f.toNat?) m, r)
  | "re" :: k :: rest => do some (.re (← k.toNat?), rest)
  | "anyof" :: n :: rest => do let (ms, r) ← parseMany (← n.toNat?) rest; some (.anyOf ms, r)
  | "allof" :: n :: rest => do let (ms, r) ← parseMany (← n.toNat?) rest; some (.allOf ms, r)
  | "noneof" :: n :: rest => do let (ms, r) ← parseMany (← n.toNat?) rest; some (.noneOf ms, r)
  | op :: v :: rest => do some (.cmp (← parseCmp op) (← parseVal v), rest)
  | _ => none
where
  parseMany : Nat → List String → Option (List Mt × List String)
    | 0, rest => some ([], rest)
    | n + 1, rest => do
      let (m, r) ← parseMt rest
      let (ms, r') ← parseMany n r
      some (m :: ms, r')

/-- `<tree tokens> | <value> | <oracle bools…>` -/
def matcherLine (line : String) : String :=
  match line.splitOn " | " with
  | [t, v, o] =>
    let toks := (t.splitOn " ").filter (· != "")
    let orc := ((o.splitOn " ").filter (· != "")).map (· == "1")
    match parseMt toks, parseVal v.trimAscii.toString with
    | some (m, []), some x => toString (eval orc m x)
    | _, _ => "parse-error"
  | _ => "parse-error"

partial def matcherLoop (h : IO.FS.Stream) (out : IO.FS.Stream) : IO Unit := do
  let line ← h.getLine
  if line.isEmpty then return ()
  let t := line.trimAscii.toString
  if t.isEmpty || t.startsWith "#" then matcherLoop h out
  else
    out.putStrLn (matcherLine t)
    matcherLoop h out

end Driver
