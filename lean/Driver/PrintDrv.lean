import TrompModel.Model.Print
open Tromp.Print

namespace Driver

def pWord (s : String) : String := if s == "-" then "" else s
def pCstr (s : String) : Option String := if s == "cnull" then none else some (pWord s)

def parseBase : String → Option Base
  | "dec" => some .dec | "hex" => some .hex | "oct" => some .oct | "none" => some .none | _ => none
def parseAdj : String → Option Adjust
  | "left" => some .left | "right" => some .right | "internal" => some .internal | "none" => some .none | _ => none
def fmtBase : Base → String
  | .dec => "dec" | .hex => "hex" | .oct => "oct" | .none => "none"
def fmtAdj : Adjust → String
  | .left => "left" | .right => "right" | .internal => "internal" | .none => "none"

def ints (l : List String) : Option (List Int) := l.mapM (·.toInt?)

partial def parseNested : List String → Option (List PV)
  | [] => some []
  | k :: rest => do
    let k ← k.toNat?
    let xs ← ints (rest.take k)
    let tl ← parseNested (rest.drop k)
    some (.coll (xs.map .int) :: tl)

partial def parseMap : List String → Option (List PV)
  | [] => some []
  | n :: w :: rest => do
    let tl ← parseMap rest
    some (.pair (.int (← n.toInt?)) (.str (pWord w)) :: tl)
  | _ => none

/-- shape + payload -> value -/
def parseShape : List String → Option PV
  | ["int", n] => n.toInt?.map .int
  | ["bool", n] => n.toInt?.map .int
  | ["str", w] => some (.str (pWord w))
  | ["cstr", c] => some (.cstr (pCstr c))
  | ["iptr", "null"] => some (.ptr true)
  | ["iptr", "nn"] => some (.ptr false)
  | ["uptr", "null"] => some (.ptr true)
  | ["sptr", "null"] => some (.ptr true)
  | ["sptr", "nn"] => some (.ptr false)
  | ["nullp"] => some .nullp
  | ["pair_is", n, w] => do some (.pair (.int (← n.toInt?)) (.str (pWord w)))
  | ["pair_ci", c, n] => do some (.pair (.cstr (pCstr c)) (.int (← n.toInt?)))
  | ["tuple_ics", n, c, w] => do some (.tuple [.int (← n.toInt?), .cstr (pCstr c), .str (pWord w)])
  | ["tuple0"] => some (.tuple [])
  | "vec_i" :: _ :: ns => do some (.coll ((← ints ns).map .int))
  | "list_i" :: _ :: ns => do some (.coll ((← ints ns).map .int))
  | "vec_s" :: _ :: ws => some (.coll (ws.map (fun w => .str (pWord w))))
  | "vec_c" :: _ :: cs => some (.coll (cs.map (fun c => .cstr (pCstr c))))
  | "vec_u" :: _ :: ws => some (.coll (ws.map (fun w => .user (pWord w))))
  | ["arr_i3", a, b, c] => do some (.coll ((← ints [a, b, c]).map .int))
  | ["carr_i3", a, b, c] => do some (.coll ((← ints [a, b, c]).map .int))
  | "vecvec_i" :: _ :: rest => (parseNested rest).map .coll
  | "map_is" :: _ :: rest => (parseMap rest).map .coll
  | "opaque" :: _ :: bs => do some (.blob ((← bs.mapM (·.toNat?))))
  | ["user", w] => some (.user (pWord w))
  | ["both", w] => some (.both (pWord w))
  | ["pair_uo", w, a, b] => do some (.pair (.user (pWord w)) (.blob [← a.toNat?, ← b.toNat?]))
  | _ => none

def escape (s : String) : String := s.replace "\n" "\\n"

def printLine (line : String) : String :=
  match line.splitOn " | " with
  | [st, v] =>
    match (st.splitOn " ").filter (· != ""), (v.splitOn " ").filter (· != "") with
    | [w, b, a, f, e], toks =>
      match w.toNat?, parseBase b, parseAdj a, f.toNat?, e.toNat?, parseShape toks with
      | some w, some b, some a, some f, some e, some pv =>
        let st : St := { width := w, base := b, adjust := a, fill := Char.ofNat f, extra := e }
        match print st pv with
        | some (out, st') =>
          s!"{escape out} | w={st'.width} base={fmtBase st'.base} adj={fmtAdj st'.adjust} fill={st'.fill.toNat} extra={st'.extra}"
        | none => "undefined-behaviour"
      | _, _, _, _, _, _ => "parse-error"
    | _, _ => "parse-error"
  | _ => "parse-error"

partial def printLoop (h : IO.FS.Stream) (out : IO.FS.Stream) : IO Unit := do
  let line ← h.getLine
  if line.isEmpty then return ()
  let t := line.trimAscii.toString
  if t.isEmpty || t.startsWith "#" then printLoop h out
  else
    out.putStrLn (printLine t)
    printLoop h out

end Driver
