/-
  Driver/RingDrv.lean — `tmodel ring`: the line protocol of harness/ring/h_ring.cpp on the heap model of the
  intrusive ring (Model/Ring.lean).  What is printed is read off the *heap* (walks through next / prev), not off the
  abstract lists; a walk that differs from the abstract list — impossible by Props/C14_Ring — is flagged.
-/
import TrompModel.Model.Ring
open Tromp.Ring

namespace Driver

structure RingSt where
  a : Abs Nat := Abs.init
  h : Heap Nat := Heap.init
  lists : List Nat := []      -- live list ids, ascending
  nodes : List Nat := []      -- node ids mentioned so far, ascending

def lp (l : Nat) : Ptr := 2 * l
def np (x : Nat) : Ptr := 2 * x + 1
def ringFuel : Nat := 200

def insertSorted (x : Nat) : List Nat → List Nat
  | [] => [x]
  | y :: ys => if x < y then x :: y :: ys else if x = y then y :: ys else y :: insertSorted x ys

def showIds (l : List Ptr) : String := ",".intercalate (l.map (fun p => toString (p / 2)))

def ringShow (s : RingSt) : String :=
  let ls := s.lists.map (fun l =>
    let f := toList s.h (lp l) ringFuel
    let b := toListBack s.h (lp l) ringFuel
    let flag := if f == s.a.lists (lp l) then "" else "MODEL-INCONSISTENT"
    s!"{l}:[{showIds f}]/[{showIds b}]{if isEmpty (lp l) s.h then "e" else "n"}{flag} ")
  let linked := s.nodes.filter (fun x => isLinked (np x) s.h)
  String.join ls ++ "linked:" ++ String.join (linked.map (fun x => s!"{x},"))

def ringApply (s : RingSt) (ops : List (Op Nat)) : Option RingSt :=
  ops.foldlM (fun (s : RingSt) op =>
    if s.a.legal op then some { s with a := s.a.step op, h := exec s.a s.h op } else none) s

def ringStep (s : RingSt) (line : String) : RingSt × String :=
  let toks := (line.trimAscii.toString.splitOn " ").filter (· != "")
  let run (s' : RingSt) (ops : List (Op Nat)) : RingSt × String :=
    match ringApply s' ops with
    | some s'' => (s'', ringShow s'')
    | none => (s, "illegal")
  match toks with
  | ["newlist", l, _] => match l.toNat? with
    | some l => run { s with lists := insertSorted l s.lists } [.newList (lp l)]
    | none => (s, "bad-op")
  | [op, l, x] => match l.toNat?, x.toNat? with
    | some l, some x =>
      if op == "pf" then run { s with nodes := insertSorted x s.nodes } [.pushFront (lp l) (np x)]
      else if op == "pb" then run { s with nodes := insertSorted x s.nodes } [.pushBack (lp l) (np x)]
      else if op == "move" then
        run { s with lists := insertSorted l (s.lists.erase x) } [.moveList (lp l) (lp x), .unlink (lp x)]
      else (s, "bad-op")
    | _, _ => (s, "bad-op")
  | [op, x] => match x.toNat? with
    | some x =>
      if op == "unlink" then run { s with nodes := insertSorted x s.nodes } [.unlink (np x)]
      else if op == "del" then run { s with nodes := s.nodes.erase x } [.unlink (np x)]
      else if op == "drop" then run { s with lists := s.lists.erase x } [.dropList (lp x)]
      else if op == "dispose" then
        let gone := (s.a.lists (lp x)).map (· / 2)
        run { s with lists := s.lists.erase x, nodes := s.nodes.filter (fun n => !gone.contains n) } [.disposeList (lp x)]
      else (s, "bad-op")
    | none => (s, "bad-op")
  | _ => (s, "bad-op")

partial def ringLoop (h : IO.FS.Stream) (out : IO.FS.Stream) (s : RingSt) : IO Unit := do
  let line ← h.getLine
  if line.isEmpty then return ()
  let t := line.trimAscii.toString
  if t.isEmpty || t.startsWith "#" then ringLoop h out s
  else if t == "reset" then
    out.putStrLn "reset"
    ringLoop h out {}
  else
    let (s', o) := ringStep s t
    out.putStrLn o
    ringLoop h out s'

end Driver
