import TrompModel.Model.Clauses
open Tromp.Clauses

namespace Driver

def parseSig : String → Option Sig
  | "void" => some .void_ | "value" => some .value | "corovoid" => some .coroVoid | "corovalue" => some .coroValue
  | _ => none

def parseClause (s : String) : Option Clause :=
  match s.splitOn ":" with
  | ["with"] => some .with_
  | ["fx"] => some .sideEffect
  | ["ret", "ok"] => some (.ret {})
  | ["ret", "bad"] => some (.ret { fits := false })
  | ["ret", "illegal"] => some (.ret { fits := false, illegalArg := true })
  | ["throw"] => some .throw_
  | ["times", l, h] => do some (.times (← l.toNat?) (← h.toNat?))
  | ["rt"] => some .rtTimes
  | ["seq"] => some .inSeq
  | ["coret", "ok"] => some (.coReturn false true)
  | ["coret", "bad"] => some (.coReturn false false)
  | ["coret", "voidok"] => some (.coReturn true true)
  | ["coret", "voidbad"] => some (.coReturn true false)
  | ["cothrow"] => some .coThrow
  | ["coyield", "ok"] => some (.coYield false true)
  | ["coyield", "bad"] => some (.coYield false false)
  | ["coyield", "void"] => some (.coYield true false)
  | _ => none

/-- `<sig> | <clause> <clause> …` -/
def clausesLine (line : String) : String :=
  match line.splitOn " | " with
  | [s, cs] =>
    match parseSig s.trimAscii.toString, ((cs.splitOn " ").filter (fun t => t != "" && t != "-")).mapM parseClause with
    | some sig, some l =>
      match accepts sig l with
      | .ok _ => "ok"
      | .error m => "error: " ++ m
    | _, _ => "parse-error"
  | [s] =>
    match parseSig s.trimAscii.toString with
    | some sig => match accepts sig [] with | .ok _ => "ok" | .error m => "error: " ++ m
    | none => "parse-error"
  | _ => "parse-error"

partial def clausesLoop (h : IO.FS.Stream) (out : IO.FS.Stream) : IO Unit := do
  let line ← h.getLine
  if line.isEmpty then return ()
  let t := line.trimAscii.toString
  if t.isEmpty || t.startsWith "#" then clausesLoop h out
  else
    out.putStrLn (clausesLine t)
    clausesLoop h out

end Driver
