/-
  Driver/Main.lean — line-protocol driver.  `tmodel world < script`: one operation per line,
  one canonical answer line per operation.  No Mathlib import (links as a lean_exe).
-/
import TrompModel.Model.World
import TrompModel.Model.Nested
import Driver.Fmt
import Driver.RangeDrv
import Driver.MatcherDrv
import Driver.PrintDrv
import Driver.ClausesDrv
import Driver.CoroDrv
import Driver.RingDrv

open Tromp

namespace Driver

def toInt? (s : String) : Option Int := s.toInt?
def toNat? (s : String) : Option Nat := if s == "inf" then some infinity else s.toNat?

def parsePM (s : String) : Option (Int → Bool) :=
  match s.splitOn ":" with
  | ["_"] => some (fun _ => true)
  | [k, v] => do
    let v ← toInt? v
    match k with
    | "eq" => some (fun x => x == v)
    | "ne" => some (fun x => x != v)
    | "lt" => some (fun x => decide (x < v))
    | "le" => some (fun x => decide (x ≤ v))
    | "gt" => some (fun x => decide (x > v))
    | "ge" => some (fun x => decide (x ≥ v))
    | _ => none
  | _ => none

def parseCond (s : String) : Option (Args → Bool) :=
  match s.splitOn ":" with
  | ["t"] => some (fun _ => true)
  | ["f"] => some (fun _ => false)
  | ["mod", i, k, r] => do
    let i ← toNat? i; let k ← toInt? k; let r ← toInt? r
    some (fun a => (a.getD i 0).tmod k == r)
  | ["gt", i, v] => do
    let i ← toNat? i; let v ← toInt? v
    some (fun a => decide (a.getD i 0 > v))
  | _ => none

def parseFx (s : String) : Option (Args → Option Exc) :=
  match s.splitOn ":" with
  | ["log"] => some (fun _ => none)
  | ["std"] => some (fun _ => some .std)
  | ["other"] => some (fun _ => some .other)
  | "call" :: _ => some (fun _ => none)        -- re-entrant side effect: the nested call is registered separately
  | _ => none

/-- `call:o:f:a[:b]` — the nested call of a re-entrant side effect. -/
def parseNest (s : String) : Option (Option (Nat × Nat × Args)) :=
  match s.splitOn ":" with
  | "call" :: o :: f :: args => do
    let o ← s!"{o}".toNat?; let f ← s!"{f}".toNat?
    let a ← args.mapM (fun t => t.toInt?)
    some (some (o, f, a))
  | _ => some none

def parseRet (s : String) : Option (Option (Args → Outcome)) :=
  match s.splitOn ":" with
  | ["none"] => some none
  | ["std"] => some (some (fun _ => .threw .std))
  | ["other"] => some (some (fun _ => .threw .other))
  | ["val", v] => do let v ← toInt? v; some (some (fun _ => .val v))
  | ["arg", i] => do let i ← toNat? i; some (some (fun a => .val (a.getD i 0)))
  | _ => none

/-- split a token list at the section markers `P W X R T S O`. -/
def sect (toks : List String) (tag : String) : List String :=
  let rest := toks.dropWhile (· != tag)
  (rest.drop 1).takeWhile (fun t => !(["P", "W", "X", "R", "T", "S", "O"].contains t))

/-- the nested calls of an `expect` line: (expectation, effect index, callee). -/
def parseNests (toks : List String) : List (Nat × Nat × (Nat × Nat × Args)) :=
  match toks with
  | e :: _ :: _ :: rest =>
    match toNat? e, (sect rest "X").mapM parseNest with
    | some e, some ns => (ns.zipIdx).filterMap (fun (n, i) => n.map (fun c => (e, i, c)))
    | _, _ => []
  | _ => []

def parseExpect (toks : List String) : Option Op :=
  match toks with
  | e :: o :: f :: rest => do
    let e ← toNat? e; let o ← toNat? o; let f ← toNat? f
    let params ← (sect rest "P").mapM parsePM
    let conds ← (sect rest "W").mapM parseCond
    let effects ← (sect rest "X").mapM parseFx
    let ret ← match sect rest "R" with | [r] => parseRet r | _ => none
    let (lo, hi, rt) ← match sect rest "T" with
      | [lo, hi, rt] => do some ((← toNat? lo), (← toNat? hi), rt == "1")
      | _ => none
    let seqs ← (sect rest "S").mapM toNat?
    some (.expect e { obj := o, fn := f, params, conds, effects, ret, lo, hi, rt, seqs })
  | _ => none

def parseOp (line : String) : Option Op :=
  let toks := (line.trimAscii.toString.splitOn " ").filter (· != "")
  match toks with
  | ["mock", o, mv] => do some (.mock (← toNat? o) (mv == "1"))
  | ["seq", s] => do some (.seq (← toNat? s))
  | "expect" :: rest => parseExpect rest
  | "call" :: o :: f :: args => do
    some (.call (← toNat? o) (← toNat? f) (← args.mapM toInt?))
  | ["sat", e] => do some (.sat (← toNat? e))
  | ["satd", e] => do some (.satd (← toNat? e))
  | ["release", e] => do some (.release (← toNat? e))
  | ["move", o, o'] => do some (.move (← toNat? o) (← toNat? o'))
  | ["kill", o] => do some (.kill (← toNat? o))
  | ["killseq", s] => do some (.killseq (← toNat? s))
  | ["completed", s] => do some (.completed (← toNat? s))
  | ["watched", x] => do some (.watched (← toNat? x))
  | ["copyw", x, y] => do some (.copyw (← toNat? x) (← toNat? y))
  | ["movew", x, y] => do some (.movew (← toNat? x) (← toNat? y))
  | ["assignw", d, s] => do some (.assignw (← toNat? d) (← toNat? s))
  | ["killw", x] => do some (.killw (← toNat? x))
  | "monitor" :: m :: x :: ss => do some (.monitor (← toNat? m) (← toNat? x) (← ss.mapM toNat?))
  | ["msat", m] => do some (.msat (← toNat? m))
  | ["msatd", m] => do some (.msatd (← toNat? m))
  | ["releasemon", m] => do some (.releasemon (← toNat? m))
  | ["tracer", t] => do some (.tracer (← toNat? t))
  | ["killtracer", t] => do some (.killtracer (← toNat? t))
  | ["setreporter", r] => do some (.setreporter (← toNat? r) none)
  | ["setreporter", r, k] => do some (.setreporter (← toNat? r) (some (← toNat? k)))
  | _ => none

def nestOf (l : List (Nat × Nat × (Nat × Nat × Args))) : World.NestMap :=
  fun e i => (l.find? (fun x => x.1 == e && x.2.1 == i)).map (·.2.2)

partial def worldLoop (h : IO.FS.Stream) (out : IO.FS.Stream) (w : World) (nests : List (Nat × Nat × (Nat × Nat × Args))) : IO Unit := do
  let line ← h.getLine
  if line.isEmpty then return ()
  let t := line.trimAscii.toString
  if t == "reset" then
    out.putStrLn "reset"
    worldLoop h out {} []
  else if t.startsWith "#" || t.isEmpty then
    worldLoop h out w nests
  else if t.startsWith "releasek " then
    -- "releasek e o": expectation e is released and the reporter, while it is being handed e's report, destroys mock o.
    -- Observationally that is `release e` followed by `kill o` (if nothing is reported, the harness destroys o afterwards).
    match (t.splitOn " ").filter (· != "") with
    | [_, e, o] =>
      match toNat? e, toNat? o with
      | some e, some o =>
        let (w1, ev1) := w.step (.release e)
        let (w2, ev2) := w1.step (.kill o)
        out.putStrLn (fmtEvs (ev1 ++ ev2))
        worldLoop h out w2 nests
      | _, _ =>
        out.putStrLn "parse-error"
        worldLoop h out w nests
    | _ =>
      out.putStrLn "parse-error"
      worldLoop h out w nests
  else
    match parseOp t with
    | none =>
      out.putStrLn "parse-error"
      worldLoop h out w nests
    | some op =>
      let toks := (t.splitOn " ").filter (· != "")
      let nests' := if toks.head? == some "expect" then parseNests (toks.drop 1) ++ nests else nests
      let (w', evs) := match op with
        | .call o f a => if nests'.isEmpty then w.step op else World.callN (nestOf nests') 8 w o f a
        | _ => w.step op
      out.putStrLn (fmtEvs evs)
      worldLoop h out w' nests'

end Driver

def main (args : List String) : IO UInt32 := do
  let stdin ← IO.getStdin
  let stdout ← IO.getStdout
  match args with
  | ["world"] => Driver.worldLoop stdin stdout {} []; return 0
  | ["range"] => Driver.rangeLoop stdin stdout; return 0
  | ["matcher"] => Driver.matcherLoop stdin stdout; return 0
  | ["print"] => Driver.printLoop stdin stdout; return 0
  | ["clauses"] => Driver.clausesLoop stdin stdout; return 0
  | ["coro"] => Driver.coroLoop stdin stdout {}; return 0
  | ["ring"] => Driver.ringLoop stdin stdout {}; return 0
  | _ =>
    IO.eprintln "usage: tmodel world < script"
    return 2
