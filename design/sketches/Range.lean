import Mathlib.Data.List.Perm.Subperm
import Mathlib.Data.List.Count
import Mathlib.Data.List.Basic

namespace Sk
open List

variable {α : Type}

/-- `*found = std::move(v.back()); v.pop_back();` -/
def swapRemove (ms : List α) (i : Nat) : List α :=
  match ms.getLast? with
  | none => ms
  | some l => (ms.set i l).dropLast

theorem set_perm_cons_eraseIdx (l : List α) (i : Nat) (a : α) (h : i < l.length) :
    l.set i a ~ a :: l.eraseIdx i := by
  induction l generalizing i with
  | nil => simp at h
  | cons x xs ih =>
    cases i with
    | zero => simp
    | succ j =>
      simp only [set_cons_succ, eraseIdx_cons_succ]
      have := ih j (by simpa using h)
      exact (this.cons x).trans (Perm.swap a x _)

theorem swapRemove_perm (ms : List α) (i : Nat) (h : i < ms.length) :
    swapRemove ms i ~ ms.eraseIdx i := by
  rcases List.eq_nil_or_concat ms with rfl | ⟨init, l, hms⟩
  · simp at h
  rw [List.concat_eq_append] at hms
  subst hms
  · have hl : (init ++ [l]).getLast? = some l := by simp
    unfold swapRemove
    rw [hl]
    show ((init ++ [l]).set i l).dropLast ~ (init ++ [l]).eraseIdx i
    simp only [length_append, length_singleton] at h
    by_cases hi : i < init.length
    · rw [List.set_append_left _ _ hi, dropLast_concat, List.eraseIdx_append_of_lt_length hi]
      exact (set_perm_cons_eraseIdx init i l hi).trans (perm_append_singleton l _).symm
    · have : i = init.length := by omega
      subst this
      simp [List.set_append_right, List.eraseIdx_append_of_length_le]

end Sk

namespace Sk
open List
variable {α : Type} [DecidableEq α]

/-- mirrors `includes_*_checker` with value elements (range.hpp:342-354) -/
def includesV (ms : List α) : List α → Bool
  | [] => ms.isEmpty
  | x :: xs =>
    match ms.findIdx? (fun m => m == x) with
    | some i => includesV (swapRemove ms i) xs
    | none => includesV ms xs

/-- mirrors `is_permutation_*_checker` with value elements (range.hpp:211-225) -/
def isPermV (ms : List α) : List α → Bool
  | [] => ms.isEmpty
  | x :: xs =>
    match ms.findIdx? (fun m => m == x) with
    | some i => isPermV (swapRemove ms i) xs
    | none => false

theorem getElem_cons_eraseIdx_perm (l : List α) (i : Nat) (h : i < l.length) :
    l ~ l[i] :: l.eraseIdx i := by
  have := set_perm_cons_eraseIdx l i l[i] h
  simpa using this

theorem swapRemove_perm_erase (ms : List α) (x : α) (i : Nat)
    (h : ms.findIdx? (fun m => m == x) = some i) :
    x ∈ ms ∧ swapRemove ms i ~ ms.erase x := by
  rw [findIdx?_eq_some_iff_getElem] at h
  obtain ⟨hi, hp, _⟩ := h
  have hx : ms[i] = x := by simpa using hp
  have hmem : x ∈ ms := hx ▸ getElem_mem hi
  refine ⟨hmem, (swapRemove_perm ms i hi).trans ?_⟩
  have h1 := getElem_cons_eraseIdx_perm ms i hi
  rw [hx] at h1
  have h2 := perm_cons_erase hmem
  exact (Perm.cons_inv (h1.symm.trans h2))

theorem includesV_iff_count (r : List α) : ∀ ms : List α,
    includesV ms r = true ↔ ∀ a, count a ms ≤ count a r := by
  induction r with
  | nil =>
    intro ms
    simp only [includesV, List.isEmpty_iff, count_nil, Nat.le_zero_eq, count_eq_zero]
    exact eq_nil_iff_forall_not_mem
  | cons x xs ih =>
    intro ms
    unfold includesV
    split
    · next i hi =>
      obtain ⟨hmem, hperm⟩ := swapRemove_perm_erase ms x i hi
      rw [ih]
      have hc : ∀ a, count a (swapRemove ms i) = count a (ms.erase x) := fun a => hperm.count_eq a
      have hpos : 0 < count x ms := count_pos_iff.mpr hmem
      constructor
      · intro h a
        have := h a
        rw [hc, count_erase] at this
        rw [count_cons]
        by_cases hax : a = x
        · subst hax; simp at this ⊢; omega
        · have : (x == a) = false := by simp [Ne.symm hax]
          simp_all
      · intro h a
        have := h a
        rw [count_cons] at this
        rw [hc, count_erase]
        by_cases hax : a = x
        · subst hax; simp at this ⊢; omega
        · have : (x == a) = false := by simp [Ne.symm hax]
          simp_all
    · next hn =>
      rw [ih]
      rw [findIdx?_eq_none_iff] at hn
      have hx : count x ms = 0 := by
        rw [count_eq_zero]
        intro hm
        have := hn x hm
        simp at this
      constructor
      · intro h a
        have := h a
        rw [count_cons]; omega
      · intro h a
        have := h a
        rw [count_cons] at this
        by_cases hax : a = x
        · subst hax; omega
        · have : (x == a) = false := by simp [Ne.symm hax]
          simp_all

/-- C11, `range_includes` with value elements: accepted exactly when the listed elements can be
matched to distinct members of the range (multiset inclusion). -/
theorem includesV_iff_subperm (ms r : List α) : includesV ms r = true ↔ ms <+~ r := by
  rw [includesV_iff_count, subperm_ext_iff]
  constructor
  · intro h a _; exact h a
  · intro h a
    by_cases ha : a ∈ ms
    · exact h a ha
    · rw [count_eq_zero.mpr ha]; exact Nat.zero_le _

example : includesV [1, 2, 2] [2, 1, 3, 2] = true := by decide
example : includesV [1, 2, 2] [2, 1, 3] = false := by decide
end Sk

namespace Sk
open List
variable {α : Type} [DecidableEq α]

theorem isPermV_iff_perm (r : List α) : ∀ ms : List α, isPermV ms r = true ↔ ms ~ r := by
  induction r with
  | nil => intro ms; simp [isPermV, List.isEmpty_iff]
  | cons x xs ih =>
    intro ms
    unfold isPermV
    split
    · next i hi =>
      obtain ⟨hmem, hperm⟩ := swapRemove_perm_erase ms x i hi
      rw [ih]
      constructor
      · intro h
        exact (perm_cons_erase hmem).trans ((hperm.symm.trans h).cons x)
      · intro h
        have h2 := (perm_cons_erase hmem).symm.trans h
        exact hperm.trans (Perm.cons_inv h2)
    · next hn =>
      rw [findIdx?_eq_none_iff] at hn
      constructor
      · intro h; cases h
      · intro h
        have hm : x ∈ ms := h.symm.subset (by simp)
        have := hn x hm
        simp at this
end Sk
#print axioms Sk.includesV_iff_subperm
#print axioms Sk.isPermV_iff_perm
