namespace Sk
variable {H : Type} [DecidableEq H]

/-- mirrors `sequence_type::cost` (sequence.hpp:198-216); `none` is `~0U` -/
def seqCostGo (sat : H → Bool) (h : H) : Nat → List H → Option Nat
  | _, [] => none
  | k, x :: xs => if x = h then some k else if sat x then seqCostGo sat h (k + 1) xs else none

def seqCost (sat : H → Bool) (h : H) (pending : List H) : Option Nat := seqCostGo sat h 0 pending

theorem seqCostGo_spec (sat : H → Bool) (h : H) (l : List H) (k n : Nat) :
    seqCostGo sat h k l = some n ↔
      ∃ pre post, l = pre ++ h :: post ∧ h ∉ pre ∧ (∀ p ∈ pre, sat p = true) ∧ n = k + pre.length := by
  induction l generalizing k with
  | nil => simp [seqCostGo]
  | cons x xs ih =>
    unfold seqCostGo
    by_cases hx : x = h
    · subst hx
      simp only [if_true, Option.some.injEq]
      constructor
      · intro hk; exact ⟨[], xs, rfl, by simp, by simp, by simp [hk]⟩
      · rintro ⟨pre, post, hl, hnot, _, hn⟩
        cases pre with
        | nil => simp [hn]
        | cons p ps => simp at hl; exact absurd hl.1.symm (by intro e; apply hnot; simp [e])
    · simp only [hx, if_false]
      by_cases hs : sat x = true
      · simp only [hs, if_true]
        rw [ih]
        constructor
        · rintro ⟨pre, post, hl, hnot, hsat, hn⟩
          refine ⟨x :: pre, post, by simp [hl], ?_, ?_, by simp [hn]; omega⟩
          · intro hm; rcases List.mem_cons.mp hm with e | e
            · exact hx e.symm
            · exact hnot e
          · intro p hp; rcases List.mem_cons.mp hp with e | e
            · subst e; exact hs
            · exact hsat p e
        · rintro ⟨pre, post, hl, hnot, hsat, hn⟩
          cases pre with
          | nil => simp at hl; exact absurd hl.1 hx
          | cons p ps =>
            simp at hl
            refine ⟨ps, post, hl.2, ?_, ?_, by simp at hn; omega⟩
            · intro hm; exact hnot (List.mem_cons_of_mem _ hm)
            · intro q hq; exact hsat q (List.mem_cons_of_mem _ hq)
      · simp only [hs]
        constructor
        · intro hk; cases hk
        · rintro ⟨pre, post, hl, hnot, hsat, hn⟩
          cases pre with
          | nil => simp at hl; exact absurd hl.1 hx
          | cons p ps =>
            simp at hl
            have := hsat p (by simp)
            rw [← hl.1] at this
            exact absurd this hs

/-- C05: a handle is callable in its sequence, at cost `n`, exactly when it is still pending, every
handle registered before it that is still pending is satisfied, and `n` of them are. -/
theorem seqCost_spec (sat : H → Bool) (h : H) (l : List H) (n : Nat) :
    seqCost sat h l = some n ↔
      ∃ pre post, l = pre ++ h :: post ∧ h ∉ pre ∧ (∀ p ∈ pre, sat p = true) ∧ n = pre.length := by
  simpa [seqCost] using seqCostGo_spec sat h l 0 n
end Sk
#print axioms Sk.seqCost_spec
