#include "common.hpp"
struct T : trompeloeil::tracer { int id; T(int i):id(i){} void trace(char const*, unsigned long, std::string const& s) override { std::cout << "TRACE" << id << " " << s; } };
int main(int argc, char** argv){ install();
  int which = argc>1? atoi(argv[1]):0;
  if (which==0) { std::cout << "--- C13: two monitors\n";
    auto o = new trompeloeil::deathwatched<M>;
    auto d1 = NAMED_REQUIRE_DESTRUCTION(*o);
    auto d2 = NAMED_REQUIRE_DESTRUCTION(*o);
    delete o;
    std::cout << "d1 sat=" << d1->is_satisfied() << " d2 sat=" << d2->is_satisfied() << "\n";
  }
  if (which==1) { std::cout << "--- C14/C17: tracers destroyed FIFO\n";
    M m; auto a = NAMED_ALLOW_CALL(m, f(_)).RETURN(0);
    auto t1 = std::make_unique<T>(1); auto t2 = std::make_unique<T>(2);
    m.f(1);
    t1.reset(); m.f(2);
    t2.reset(); m.f(3);
  }
}
