#include "common.hpp"
#include <thread>
#include <atomic>
// F11: limits written (unlocked) after IN_SEQUENCE made the handle visible
int main(){ install();
  M m, m2; trompeloeil::sequence s;
  std::thread b([&]{ for (int i=0;i<20000;++i){ auto late = NAMED_ALLOW_CALL(m2, f(2)).IN_SEQUENCE(s).RETURN(1); try{ m2.f(2);}catch(rep){} } });
  for (int i=0;i<20000;++i){ auto a = NAMED_REQUIRE_CALL(m, f(1)).IN_SEQUENCE(s).TIMES(0,5).RETURN(1);}
  b.join();
}
