#include "common.hpp"
int main(int argc, char** argv){ install();
  int which = argc>1? atoi(argv[1]):0;
  if (which==0) { std::cout << "--- C13: assignment to watched object\n";
  auto o = new trompeloeil::deathwatched<M>; trompeloeil::deathwatched<M> other;
  { auto d = NAMED_REQUIRE_DESTRUCTION(*o);
    *o = other;
    delete o;   // expected: nothing reported
    std::cout << "sat=" << d->is_satisfied() << "\n";
  } // monitor dies: writes into freed o
  auto d2 = NAMED_REQUIRE_DESTRUCTION(other); (void)d2; // avoid noise? other dies at scope end after d2.. order: d2 destroyed first -> still alive. fine
  }
  if (which==1) { std::cout << "--- C14: sequence destroyed, then call\n";
  M m; std::unique_ptr<trompeloeil::expectation> a;
  { trompeloeil::sequence s;
    a = NAMED_REQUIRE_CALL(m, f(1)).IN_SEQUENCE(s).RETURN(1);
  }
  try { std::cout << m.f(1) << "\n"; } catch (rep) {}
  }
  if (which==2) { std::cout << "--- C14b: sequence destroyed, then deathwatched dies\n";
  auto o = new trompeloeil::deathwatched<M>; std::unique_ptr<trompeloeil::expectation> d;
  { trompeloeil::sequence s;
    d = NAMED_REQUIRE_DESTRUCTION(*o).IN_SEQUENCE(s);
  }
  delete o;
  }
}
