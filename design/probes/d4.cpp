#include "common.hpp"
int main(){ install();
  std::cout << "--- C06: died monitor still registered at sequence teardown\n";
  auto o = new trompeloeil::deathwatched<M>;
  std::unique_ptr<trompeloeil::expectation> d;
  { trompeloeil::sequence s;
    d = NAMED_REQUIRE_DESTRUCTION(*o).IN_SEQUENCE(s);
    delete o;
    std::cout << "sat=" << d->is_satisfied() << " saturated=" << d->is_saturated() << " completed=" << s.is_completed() << "\n";
  }
  std::cout << "--- done\n";
}
