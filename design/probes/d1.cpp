#include "common.hpp"
int main(){ install();
  { std::cout << "--- C05a: successor needing two calls\n";
  M m; trompeloeil::sequence s;
  auto a = NAMED_REQUIRE_CALL(m, f(1)).TIMES(1,2).IN_SEQUENCE(s).RETURN(1);
  auto b = NAMED_REQUIRE_CALL(m, f(2)).TIMES(2).IN_SEQUENCE(s).RETURN(2);
  m.f(1); m.f(2);
  try { std::cout << "f(1) after f(2): " << m.f(1) << " (accepted => stepped backwards)\n"; } catch (rep) { std::cout << "rejected\n"; }
  try { m.f(2);} catch(rep){}
  }
  { std::cout << "--- C05b: destruction after optional predecessor\n";
  auto o = new trompeloeil::deathwatched<M>; M m2; trompeloeil::sequence s;
  auto a = NAMED_ALLOW_CALL(m2, f(1)).IN_SEQUENCE(s).RETURN(1);
  auto d = NAMED_REQUIRE_DESTRUCTION(*o).IN_SEQUENCE(s);
  delete o;
  std::cout << "sat=" << d->is_satisfied() << "\n";
  }
  { std::cout << "--- C16: OK report for forbidden\n";
  M m; auto a = NAMED_ALLOW_CALL(m, f(_)).RETURN(0); auto b = NAMED_FORBID_CALL(m, f(3));
  try { m.f(3);} catch(rep){}
  }
}
