#include <trompeloeil.hpp>
#include <vector>
#include <iostream>
#include <memory>
using trompeloeil::_;
struct rep {};
inline void install(){
  trompeloeil::set_reporter([](trompeloeil::severity s, const char* f, unsigned long l, const std::string& m){ std::cout << (s==trompeloeil::severity::fatal?"FATAL ":"NONFATAL ") << m << "\n"; if (s==trompeloeil::severity::fatal) throw rep{}; },
    [](const char* m){ std::cout << "OK " << m << "\n";});
}
struct M {
 static constexpr bool trompeloeil_movable_mock = true;
 virtual ~M() = default;
 M() = default; M(M&&) = default; M(const M&) {} M& operator=(const M&) { return *this; }
 MAKE_MOCK1(f, int(int));
 MAKE_MOCK2(g, void(int,int));
};
