#include <trompeloeil.hpp>
#include "/repo/test/micro_coro.hpp"
#include <iostream>
using trompeloeil::_;
struct CM {
  MAKE_MOCK1(f, coro::task<int>(int));
};
int main(){
  CM m;
  REQUIRE_CALL(m, f(_)).CO_YIELD(_1 + 10).CO_RETURN(_1 + 1);
  auto t = m.f(5);
  // first yield evaluated eagerly at call; the co_return is evaluated on later resume
  int sum = 0;
  auto driver = [&]() -> coro::task<int> { int a = co_await t; int b = co_await t; sum = a*100+b; co_return 0; };
  auto d = driver();
  std::cout << sum << "\n";
}
