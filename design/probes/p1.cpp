#include <trompeloeil.hpp>
#include <iostream>
#include <sstream>
#include <vector>
#include <map>
#include <optional>
#include <memory>
struct O5 { unsigned char b[5]; };
struct O17 { unsigned char b[17]; };
struct O16 { unsigned char b[16]; };
template <typename T> void show(const char* what, const T& t){
  std::ostringstream os; os << std::hex << std::setfill('*') << std::right << std::setw(8);
  trompeloeil::print(os, t);
  auto w = os.width(); auto f = os.fill(); bool hex = (os.flags() & std::ios::basefield) == std::ios::hex; bool right = (os.flags() & std::ios::adjustfield)==std::ios::right;
  std::string s = os.str(); for (auto& c : s) if (c=='\n') c='$';
  std::cout << what << ": [" << s << "] width=" << w << " fill=" << f << " hex=" << hex << " right=" << right << "\n";
}
int main(){
  show("int", 255);
  show("cstr-null", (const char*)nullptr);
  show("cstr", (const char*)"ab");
  show("vec<cstr>", std::vector<const char*>{nullptr, "x"});
  show("tuple", std::make_tuple((const char*)nullptr, 17, std::string("s")));
  show("pair", std::make_pair(10, (int*)nullptr));
  show("map", std::map<int,const char*>{{10,nullptr},{11,"y"}});
  int v = 3; 
  show("opt<int*> null engaged", std::optional<int*>{nullptr});
  show("uptr null", std::unique_ptr<int>{});
  show("sptr null", std::shared_ptr<int>{});
  O5 o5{{1,2,3,0xab,255}}; show("O5", o5);
  O16 o16{}; show("O16", o16);
  O17 o17{}; o17.b[16]=9; show("O17", o17);
  show("vec<O5>", std::vector<O5>{o5});
  show("nullptr_t", nullptr);
  show("vec<int>", std::vector<int>{10,11});
  show("empty vec", std::vector<int>{});
}
