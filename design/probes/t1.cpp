#include "common.hpp"
#include <thread>
#include <atomic>
int main(int argc, char** argv){ install();
  int which = argc>1? atoi(argv[1]):0;
  M m; trompeloeil::sequence s; std::atomic<bool> stop{false};
  if (which==0) { // is_completed unsynchronised
    std::thread q([&]{ while(!stop) (void)s.is_completed(); });
    for (int i=0;i<2000;++i){ auto a = NAMED_ALLOW_CALL(m, f(1)).IN_SEQUENCE(s).RETURN(1); m.f(1);}
    stop=true; q.join();
  }
  if (which==1) { // handle unlinked after lock dropped: two threads create/destroy on same sequence
    M m2;
    std::thread q([&]{ for (int i=0;i<2000;++i){ auto a = NAMED_ALLOW_CALL(m2, f(1)).IN_SEQUENCE(s).RETURN(1);} });
    for (int i=0;i<2000;++i){ auto a = NAMED_ALLOW_CALL(m, f(1)).IN_SEQUENCE(s).RETURN(1);}
    q.join();
  }
  if (which==2) { // limits written after visible
    M m2; auto first = NAMED_ALLOW_CALL(m2, f(2)).IN_SEQUENCE(s).RETURN(1);
    std::thread q([&]{ for (int i=0;i<2000;++i){ try{ m2.f(2);}catch(rep){} } });
    for (int i=0;i<2000;++i){ auto a = NAMED_REQUIRE_CALL(m, f(1)).IN_SEQUENCE(s).TIMES(0,5).RETURN(1);}
    q.join();
  }
}
