#!/usr/bin/env python3
"""ringgen.py — scripts for the intrusive-ring correspondence (harness/ring/h_ring.cpp vs `tmodel ring`).
Every script is legal in the sense of Model/Ring.lean `Abs.legal` (the generator mirrors the abstract state): an
element is pushed only while it is on no list, `drop` only destroys an empty ignore_disposer list, a list id is
created only while it is unused.  Sources: a systematic family (every push pattern for n <= 4 elements, then every
single removal / deletion / move / disposal, then a second round) and seeded random scripts."""
import itertools
import random


class St:
    def __init__(self):
        self.lists = {}        # id -> (kind, [nodes])
        self.where = {}        # node -> list id
        self.lines = []

    def free_nodes(self, universe):
        return [x for x in universe if x not in self.where]

    def do(self, line):
        t = line.split()
        op = t[0]
        if op == 'newlist':
            self.lists[int(t[1])] = (t[2], [])
        elif op in ('pf', 'pb'):
            l, x = int(t[1]), int(t[2])
            if op == 'pf':
                self.lists[l][1].insert(0, x)
            else:
                self.lists[l][1].append(x)
            self.where[x] = l
        elif op in ('unlink', 'del'):
            x = int(t[1])
            if x in self.where:
                self.lists[self.where[x]][1].remove(x)
                del self.where[x]
        elif op == 'move':
            n, o = int(t[1]), int(t[2])
            k, els = self.lists.pop(o)
            self.lists[n] = (k, els)
            for x in els:
                self.where[x] = n
        elif op == 'drop':
            del self.lists[int(t[1])]
        elif op == 'dispose':
            k, els = self.lists.pop(int(t[1]))
            for x in els:
                del self.where[x]
        self.lines.append(line)


def random_script(rng, length, nlists=4, nnodes=8):
    s = St()
    nodes = list(range(nnodes))
    for _ in range(length):
        choices = []
        unused = [l for l in range(nlists) if l not in s.lists]
        if unused:
            choices += [('new', 2)]
        if s.lists and s.free_nodes(nodes):
            choices += [('push', 8)]
        if s.where:
            choices += [('unlink', 3), ('del', 2)]
        choices += [('unlink_free', 1)]
        if s.lists and unused:
            choices += [('move', 2)]
        if any(not els and k == 'i' for k, els in s.lists.values()):
            choices += [('drop', 1)]
        if any(k == 'd' for k, els in s.lists.values()):
            choices += [('dispose', 1)]
        tot = sum(w for _, w in choices)
        r = rng.uniform(0, tot)
        for c, w in choices:
            r -= w
            if r <= 0:
                break
        if c == 'new':
            s.do('newlist %d %s' % (rng.choice(unused), rng.choice('id')))
        elif c == 'push':
            s.do('%s %d %d' % (rng.choice(['pf', 'pb']), rng.choice(list(s.lists)), rng.choice(s.free_nodes(nodes))))
        elif c == 'unlink':
            s.do('unlink %d' % rng.choice(list(s.where)))
        elif c == 'del':
            s.do('del %d' % rng.choice(list(s.where)))
        elif c == 'unlink_free':
            s.do('%s %d' % (rng.choice(['unlink', 'del']), rng.choice(nodes)))
        elif c == 'move':
            s.do('move %d %d' % (rng.choice(unused), rng.choice(list(s.lists))))
        elif c == 'drop':
            s.do('drop %d' % rng.choice([l for l, (k, els) in s.lists.items() if not els and k == 'i']))
        elif c == 'dispose':
            s.do('dispose %d' % rng.choice([l for l, (k, els) in s.lists.items() if k == 'd']))
    return s.lines


def systematic():
    """every push pattern for n <= 4 elements into one list (with a bystander list holding two elements), followed by
    every single operation on the result, followed by a traversal-changing second operation."""
    out = []
    for kind in 'id':
        for n in range(0, 5):
            for pat in itertools.product(['pf', 'pb'], repeat=n):
                base = ['newlist 0 %s' % kind, 'newlist 1 i', 'pb 1 7', 'pb 1 6']
                for i, p in enumerate(pat):
                    base.append('%s 0 %d' % (p, i))
                seconds = [['unlink %d' % i] for i in range(n)] + [['del %d' % i] for i in range(n)]
                seconds += [['move 2 0'], ['move 2 0', 'pf 2 5'], ['move 2 0', 'pb 2 5'], ['move 2 1', 'move 3 0'], ['unlink 5'], ['pf 0 5'], ['pb 0 5']]
                if kind == 'd':
                    seconds += [['dispose 0']]
                if n == 0 and kind == 'i':
                    seconds += [['drop 0']]
                for sec in seconds:
                    s = base + sec
                    out.append(s)
                    if sec[0].startswith(('unlink', 'del')) and n >= 2:
                        for j in range(n):
                            out.append(s + ['unlink %d' % j, 'move 2 0', 'pb 2 5'])
    return out


def scripts(tier, rng):
    res = [('ring:systematic', s) for s in systematic()]
    n = 4000 if tier == 'quick' else 120000
    for i in range(n):
        res.append(('ring:random', random_script(rng, rng.choice([6, 12, 20, 40]), nlists=rng.choice([2, 4]), nnodes=rng.choice([3, 6, 10]))))
    return res


if __name__ == '__main__':
    import sys
    rng = random.Random(sys.argv[1] if len(sys.argv) > 1 else '1')
    for src, s in scripts('quick', rng)[:int(sys.argv[2]) if len(sys.argv) > 2 else 5]:
        print('\n'.join(s))
        print('reset')
