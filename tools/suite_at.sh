#!/bin/sh
# usage: suite_at.sh <commit> — build and run the repository's self_test at <commit> in a scratch
# worktree under /tmp (removed afterwards); prints the last lines of the run.
set -e
sha=$(git -C /repo rev-parse --short "$1")
wt=/tmp/wt_$sha
rm -rf "$wt"
git -C /repo worktree add --detach "$wt" "$sha" >/dev/null 2>&1
cmake -G Ninja -S "$wt" -B "$wt/_build" -DCMAKE_BUILD_TYPE=RelWithDebInfo -DCMAKE_CXX_FLAGS=-Wno-error -DTROMPELOEIL_BUILD_TESTS=ON >/dev/null 2>&1
cmake --build "$wt/_build" -j${JOBS:-8} >"$wt.log" 2>&1 || { echo "BUILD FAILED at $sha"; tail -20 "$wt.log"; }
"$wt/_build/test/self_test" 2>&1 | tail -2 | sed "s/^/[$sha] /"
git -C /repo worktree remove --force "$wt"
rm -f "$wt.log"
