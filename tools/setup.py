#!/usr/bin/env python3
"""MANIFEST.setup_cmd: build the Lean project (library, property theorems, driver) and the C++
harnesses from the files on disk and /repo's current tree.  Offline."""
import os
import sys
import time
HERE = os.path.dirname(os.path.abspath(__file__))
sys.path.insert(0, HERE)
import vlib  # noqa: E402


SIMPLE = [('range', 'c++17'), ('print', 'c++17'), ('coro', 'c++20'), ('spelling', 'c++17'), ('ring', 'c++17')]


def main():
    t0 = time.time()
    try:
        vlib.build_lean()
        r = vlib.sh(['lake', 'build'], cwd=vlib.LEAN_DIR)     # every theorem module, so that the checks only re-check
        print('lean project built (%.0fs)%s' % (time.time() - t0, '' if r.returncode == 0 else ' — WARNING: some module does not build'))
        t1 = time.time()
        vlib.build_world_harness()
        print('world harness built (%.0fs)' % (time.time() - t1))
        for name, std in SIMPLE:
            t2 = time.time()
            vlib.build_simple_harness(name, std=std)
            print('%s harness built (%.0fs)' % (name, time.time() - t2))
    except vlib.BuildError as e:
        print(e)
        return 1
    return 0


if __name__ == '__main__':
    sys.exit(main())
