#!/usr/bin/env python3
"""Input generator for the printing harness (C18): type family x prior stream states x seeded values."""
import itertools

BASES = ['dec', 'hex', 'oct', 'none']
ADJ = ['left', 'right', 'internal', 'none']
FILLS = [32, 42, 48]
WIDTHS = [0, 3, 12]
EXTRA = [0, 1]
WORDS = ['-', 'a', 'ab', 'xyz', 'hello']
OPAQUE_N = [1, 2, 3, 4, 7, 8, 9, 15, 16, 17, 32, 33, 40]


def states():
    return [' '.join([str(w), b, a, str(f), str(e)]) for w in WIDTHS for b in BASES for a in ADJ for f in FILLS for e in EXTRA]


def values(rng, n):
    r = rng
    w = lambda: r.choice(WORDS)          # noqa: E731
    c = lambda: r.choice(WORDS + ['cnull', 'cnull'])   # noqa: E731
    i = lambda: str(r.choice([0, 1, -1, 7, 42, -300, 65535, 2147483647, -2147483648]))   # noqa: E731
    out = ['int 0', 'int -17', 'bool 1', 'bool 0', 'str -', 'str ab', 'cstr cnull', 'cstr -', 'cstr ab', 'iptr null', 'iptr nn',
           'uptr null', 'sptr null', 'sptr nn', 'nullp', 'tuple0', 'vec_i 0', 'vec_c 1 cnull', 'vec_c 3 a cnull b',
           'pair_ci cnull 3', 'tuple_ics 1 cnull x', 'vecvec_i 2 0 2 1 2', 'vecvec_i 0', 'map_is 2 1 a 2 -',
           'user xy', 'both xy', 'vec_u 2 a b', 'pair_uo q 1 255', 'arr_i3 1 2 3', 'carr_i3 -1 0 1', 'list_i 2 5 6']
    for nb in OPAQUE_N:
        out.append('opaque %d %s' % (nb, ' '.join(str(r.randrange(256)) for _ in range(nb))))
        out.append('opaque %d %s' % (nb, ' '.join(str((k * 37 + 255) % 256) for k in range(nb))))
    for _ in range(n):
        k = r.randrange(14)
        if k == 0:
            out.append('int ' + i())
        elif k == 1:
            out.append('str ' + w())
        elif k == 2:
            out.append('cstr ' + c())
        elif k == 3:
            out.append('pair_is %s %s' % (i(), w()))
        elif k == 4:
            out.append('pair_ci %s %s' % (c(), i()))
        elif k == 5:
            out.append('tuple_ics %s %s %s' % (i(), c(), w()))
        elif k == 6:
            m = r.randrange(5)
            out.append(('vec_i %d %s' % (m, ' '.join(i() for _ in range(m)))).strip())
        elif k == 7:
            m = r.randrange(4)
            out.append(('vec_s %d %s' % (m, ' '.join(w() for _ in range(m)))).strip())
        elif k == 8:
            m = r.randrange(4)
            out.append(('vec_c %d %s' % (m, ' '.join(c() for _ in range(m)))).strip())
        elif k == 9:
            m = r.randrange(4)
            parts = []
            for _ in range(m):
                kk = r.randrange(4)
                parts.append('%d %s' % (kk, ' '.join(i() for _ in range(kk))))
            out.append(('vecvec_i %d %s' % (m, ' '.join(p.strip() for p in parts))).strip())
        elif k == 10:
            m = r.randrange(4)
            keys = sorted(r.sample(range(-3, 9), m))
            out.append(('map_is %d %s' % (m, ' '.join('%d %s' % (kk, w()) for kk in keys))).strip())
        elif k == 11:
            nb = r.choice(OPAQUE_N)
            out.append('opaque %d %s' % (nb, ' '.join(str(r.randrange(256)) for _ in range(nb))))
        elif k == 12:
            out.append(r.choice(['user ', 'both ']) + w())
        else:
            m = r.randrange(4)
            out.append(('vec_u %d %s' % (m, ' '.join(w() for _ in range(m)))).strip())
    return out


def gen(tier, rng):
    vs = values(rng, 120 if tier == 'quick' else 1500)
    sts = states()
    lines = []
    for v in vs:
        for s in sts:
            lines.append('%s | %s' % (s, v))
    return lines
