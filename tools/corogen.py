#!/usr/bin/env python3
"""Scripts for the coroutine harness (C20): exhaustive small scopes over promise types, clause lists and
resume orders."""
import itertools


def gen(tier, rng):
    q = tier == 'quick'
    yvals = ['v:1', 'v:2', 'std']
    out = []
    for start in ('lazy', 'eager'):
        # value-completing coroutine types
        ylists = []
        for n in range(0, 5 if not q else 4):
            for t in itertools.product(yvals, repeat=n):
                if list(t).count('std') <= 1:
                    ylists.append(list(t))
        rets = ['v:9', 'std', 'cothrow']
        for ys in ylists:
            for r in rets:
                total = len(ys) + 1
                # one coroutine: pull past the end
                s = ['expect 0 %s v Y %s R %s' % (start, ' '.join(ys), r), 'call 0 0', 'sat 0']
                s += ['next 0'] * (total + 2)
                s += ['kill 0', 'call 1 0', 'sat 0', 'satd 0', 'next 1', 'kill 1', 'release 0']
                out.append(s)
                # the completion clause written before / between the CO_YIELD clauses
                for pos in range(len(ys)):
                    if len(ys) == 4 and pos not in (0, 2):
                        continue
                    s = ['expect 0 %s v Y %s R %s P %d' % (start, ' '.join(ys), r, pos), 'call 0 0', 'call 1 0']
                    s += ['next 0'] * (total + 1) + ['next 1'] * (total + 1)
                    s += ['kill 0', 'kill 1', 'release 0']
                    out.append(s)
                # two coroutines of the same expectation, several interleavings
                if len(ys) <= 2:
                    pulls = ['a'] * (total + 1) + ['b'] * (total + 1)
                    orders = set()
                    for _ in range(6 if q else 30):
                        o = pulls[:]
                        rng.shuffle(o)
                        orders.add(tuple(o))
                    orders.add(tuple(['a', 'b'] * (total + 1)))
                    orders.add(tuple(['b'] * (total + 1) + ['a'] * (total + 1)))
                    for o in sorted(orders):
                        s = ['expect 0 %s v Y %s R %s' % (start, ' '.join(ys), r), 'call 0 0', 'call 1 0', 'satd 0']
                        s += ['next %d' % (0 if x == 'a' else 1) for x in o]
                        s += ['kill 1', 'kill 0', 'release 0']
                        out.append(s)
        # void-completing coroutine types: no value type, hence no yields
        for r in ('void', 'cothrow'):
            s = ['expect 0 %s nv Y R %s' % (start, r), 'call 0 0', 'next 0', 'next 0', 'call 1 0', 'next 1', 'next 0', 'satd 0',
                 'kill 0', 'kill 1', 'release 0']
            out.append(s)
    # two expectations alive, coroutines of both interleaved
    for start in ('lazy', 'eager'):
        for ya, yb in itertools.product([[], ['v:1'], ['v:1', 'v:2']], repeat=2):
            s = ['expect 0 %s v Y %s R v:7' % (start, ' '.join(ya)), 'call 0 0', 'release 0',
                 'expect 1 %s v Y %s R cothrow' % (start, ' '.join(yb)), 'call 1 1']
            s += ['next 1'] * (len(yb) + 2)
            s += ['kill 1', 'kill 0', 'release 1']
            # the first expectation is released before its coroutine is pulled: outside the property's proviso,
            # so coroutine 0 is only destroyed, never resumed
            out.append(s)
    return out
