#!/usr/bin/env python3
"""Entry point of every MANIFEST command:  tools/check.py <Cnn> --tier quick|thorough [--replay path]

exit 0: the property held on everything explored; exit 1 + `VIOLATION property=<id> replay=<path>`.
"""
import argparse
import collections
import glob
import os
import random
import re
import sys
import time

HERE = os.path.dirname(os.path.abspath(__file__))
sys.path.insert(0, HERE)
import vlib  # noqa: E402
import worldgen  # noqa: E402
from vlib import log  # noqa: E402

TRUSTED_BASE = [
    'Lean 4.33.0 kernel',
    'axioms: propext, Classical.choice, Quot.sound only (audited with #print axioms on every run)',
    'statement of each theorem in lean/TrompModel/Props/<id>.lean',
    'correspondence check: C++ harness (g++ 12.2, ASan+UBSan) driving the real headers of /repo, generators, '
    'canonicalisation of report texts, projection of the event stream',
    'modelled not verified: overload resolution/routing of expectations to per-function lists, std::function, '
    'std::tuple, std::recursive_mutex, compiler',
]

# per property: (random profiles with weights, enumerators)
WORLD = {
    'C01': dict(profiles=['match', 'general', 'seq', 'nest'], enums=['bounds_small', 'forbid_s', 'life_s', 'nested_s', 'cost3']),
    'C02': dict(profiles=['match', 'seq', 'general'], enums=['seq_overlap', 'forbid_s', 'cost3']),
    'C03': dict(profiles=['match', 'general'], enums=['bounds']),
    'C04': dict(profiles=['life', 'general', 'match'], enums=['life']),
    'C05': dict(profiles=['seq', 'watch', 'general'], enums=['seq2', 'seq2mon', 'seq3_s', 'seq_overlap']),
    'C06': dict(profiles=['seq', 'watch', 'life'], enums=['seq2', 'seq2mon', 'seq3_s']),
    'C07': dict(profiles=['match', 'general'], enums=['forbid']),
    'C08': dict(profiles=['actions', 'nest', 'general'], enums=['actions', 'nested']),
    'C13': dict(profiles=['watch', 'life'], enums=['watch', 'watch_seq']),
    'C14': dict(profiles=['life', 'general', 'watch', 'seq'], enums=['destruction', 'watch_seq_s', 'seq2mon_s']),
    'C15': dict(profiles=['general', 'match', 'seq', 'watch', 'life'], enums=['life_s', 'forbid_s', 'seq2mon_s']),
    'C16': dict(profiles=['trace', 'match', 'seq', 'nest'], enums=['forbid_s', 'seq_overlap_s', 'nested_s']),
    'C17': dict(profiles=['trace', 'nest'], enums=['tracers', 'nested']),
}

B5 = [(1, 1), (0, 'inf'), (1, 2), (2, 2), (0, 1)]


def enum_scripts(name, tier, rng):
    q = tier == 'quick'
    if name == 'bounds':
        return worldgen.enum_bounds(3)
    if name == 'bounds_small':
        return worldgen.enum_bounds(2)
    if name == 'life':
        return worldgen.enum_lifetimes(rng, 6000 if q else None)
    if name == 'life_s':
        return worldgen.enum_lifetimes(rng, 1500 if q else 20000)
    if name == 'forbid':
        return worldgen.enum_forbid(rng, 8000 if q else 150000)
    if name == 'forbid_s':
        return worldgen.enum_forbid(rng, 1500 if q else 20000)
    if name == 'actions':
        return worldgen.enum_actions(rng, None)
    if name == 'seq2':
        return worldgen.enum_seq(2, B5, 3 if q else 4, sample=8000 if q else 250000, rng=rng)
    if name == 'seq2mon':
        return worldgen.enum_seq(2, B5[:3], 3 if q else 4, with_monitor=True, sample=6000 if q else 200000, rng=rng)
    if name == 'seq2mon_s':
        return worldgen.enum_seq(2, B5[:3], 4, with_monitor=True, sample=2000 if q else 30000, rng=rng)
    if name == 'seq3_s':
        return worldgen.enum_seq(3, B5, 4 if q else 5, sample=6000 if q else 300000, rng=rng)
    if name == 'cost3':
        return worldgen.enum_cost3(rng, None)
    if name == 'seq_overlap':
        return worldgen.enum_seq(3, B5[:3], 3 if q else 4, overlap=True, sample=5000 if q else 150000, rng=rng)
    if name == 'seq_overlap_s':
        return worldgen.enum_seq(3, B5[:3], 3, overlap=True, sample=1500 if q else 20000, rng=rng)
    if name == 'watch':
        return worldgen.enum_watch(4 if q else 6, False, rng, None if q else 300000)
    if name == 'watch_seq':
        return worldgen.enum_watch(6, True, rng, 5000 if q else 150000)
    if name == 'watch_seq_s':
        return worldgen.enum_watch(6, True, rng, 2000 if q else 40000)
    if name == 'destruction':
        return worldgen.enum_destruction(rng, 2500 if q else 60000)
    if name == 'nested':
        return worldgen.enum_nested(rng, None)
    if name == 'nested_s':
        return worldgen.enum_nested(rng, 600 if q else 4000)
    if name == 'tracers':
        return worldgen.enum_tracers(rng, None if not q else 8000)
    raise KeyError(name)


def load_corpus(prop):
    out = []
    for d in sorted(set([prop, 'all'])):
        for p in sorted(glob.glob(os.path.join(vlib.VERIF, 'corpus', d, '*.script'))):
            lines = [l.rstrip('\n') for l in open(p) if l.strip() and not l.startswith('#')]
            out.append((os.path.relpath(p, vlib.VERIF), lines))
    return out


def known_patterns(prop):
    return [k for k in vlib.load_known() if k.get('property') == prop and k.get('status') == 'known']


def check_world(prop, tier, seed, replay=None):
    t0 = time.time()
    cfg = WORLD[prop]
    proj = vlib.PROJECTIONS[prop]
    violations = []
    notes = []
    # 0. translator tie: regenerate Gen/Cxx from the current source, re-check the tie theorems of this property
    tie = dict(modules=[], obligations=0, discharged=0, theorems=[], broken=[], index=[])
    if not replay:
        tie = vlib.tie_check(prop)
        for mod, what in tie['broken']:
            path = vlib.write_replay(prop, tier, seed, 'tie-%s' % mod, ['verdict tie-broken', 'broken ' + what.split('\n')[0]], what.split('\n'))
            violations.append((path, True))
    # 1. proofs
    try:
        tmodel = vlib.build_lean(prop)
    except vlib.BuildError as e:
        path = vlib.write_replay(prop, tier, seed, 'lean-build', ['verdict tie-broken', 'broken lake build'], str(e).split('\n'))
        print('VIOLATION property=%s replay=%s no-failing-input-found' % (prop, path))
        return 1
    audit = vlib.lean_audit(prop)
    if audit['problems'] or audit['discharged'] != audit['obligations']:
        path = vlib.write_replay(prop, tier, seed, 'lean-audit', ['verdict tie-broken', 'broken proof audit'], audit['problems'])
        violations.append((path, True))
    if tier == 'thorough' and audit['obligations']:
        ok, out = vlib.leanchecker(prop)
        notes.append('leanchecker over TrompModel.Props.%s* and the tie modules serving it: %s' % (prop, out if ok else 'FAILED'))
        if not ok:
            path = vlib.write_replay(prop, tier, seed, 'leanchecker', ['verdict tie-broken', 'broken leanchecker'], out.split('\n'))
            violations.append((path, True))
    # 2. harness from the current tree
    try:
        hw = vlib.build_world_harness()
    except vlib.BuildError as e:
        path = vlib.write_replay(prop, tier, seed, 'harness-build',
                                 ['verdict tie-broken', 'broken correspondence h_world (does not compile against /repo)'],
                                 str(e).split('\n'))
        print('VIOLATION property=%s replay=%s no-failing-input-found' % (prop, path))
        return 1

    if replay and 'protocol ring-1' in open(replay).read():
        lines = [l.rstrip('\n') for l in open(replay) if l.strip() and not l.startswith('#')]
        hx = vlib.build_simple_harness('ring', std='c++17')
        impl = vlib.run_scripts(hx, [lines], 1, mode='ring')[0]
        model = vlib.run_scripts(tmodel, [lines], 1, mode='ring')[0]
        bad = bool(impl[1]) or impl[0] != model[0]
        for i, l in enumerate(lines):
            a = impl[0][i] if impl[0] and i < len(impl[0]) else '<none>'
            b = model[0][i] if model[0] and i < len(model[0]) else '<none>'
            print('%-24s\n    impl : %s\n    model: %s%s' % (l, a, b, '  <<< differs' if a != b else ''))
        if impl[1]:
            print('impl crashed:', impl[1])
        if bad:
            print('VIOLATION property=%s replay=%s' % (prop, replay))
            return 1
        print('no disagreement')
        return 0
    if replay:
        lines = [l.rstrip('\n') for l in open(replay) if l.strip() and not l.startswith('#')]
        impl = vlib.run_scripts(hw, [lines], 1)[0]
        model = vlib.run_scripts(tmodel, [lines], 1)[0]
        d = vlib.first_diff(proj, lines, impl[0], model[0])
        for i, l in enumerate(lines):
            a = impl[0][i] if impl[0] and i < len(impl[0]) else '<none>'
            b = model[0][i] if model[0] and i < len(model[0]) else '<none>'
            mark = '  <<< differs under %s' % prop if d == i else ''
            print('%-40s\n    impl : %s\n    model: %s%s' % (l, a, b, mark))
        if impl[1]:
            print('impl crashed:', impl[1])
        if d is not None or impl[1]:
            print('VIOLATION property=%s replay=%s' % (prop, replay))
            return 1
        print('no disagreement under the projection of', prop)
        return 0

    # 3. inputs
    rng = random.Random(int(seed) * 1000003 + hash(prop) % 1000)
    rng = random.Random('%s-%s' % (seed, prop))
    scripts = []          # (source, ops or None, lines)
    for name, lines in load_corpus(prop):
        scripts.append((name, None, lines))
    seen = set()
    gen_stats = collections.Counter()
    for en in cfg['enums']:
        n0 = len(scripts)
        for ops in enum_scripts(en, tier, rng):
            lines = worldgen.render(ops)
            if lines is None:
                gen_stats['unrenderable'] += 1
                continue
            key = hash(tuple(lines))
            if key in seen:
                continue
            seen.add(key)
            scripts.append(('enum:' + en, ops, lines))
        gen_stats['enum:' + en] = len(scripts) - n0
    nrand = (2500 if tier == 'quick' else 60000)
    for i in range(nrand):
        prof = cfg['profiles'][i % len(cfg['profiles'])]
        ops = worldgen.Gen(rng, prof).run(rng.choice([12, 20, 30, 40]))
        lines = worldgen.render(ops)
        if lines is None:
            gen_stats['unrenderable'] += 1
            continue
        scripts.append(('random:' + prof, ops, lines))
        gen_stats['random:' + prof] += 1
    log('[%s] %d scripts (%s)' % (prop, len(scripts), dict(gen_stats)))

    # 4. run both sides
    all_lines = [s[2] for s in scripts]
    t1 = time.time()
    model_res = vlib.run_scripts(tmodel, all_lines)
    t2 = time.time()
    impl_res = vlib.run_scripts_robust(hw, all_lines)
    t3 = time.time()
    log('[%s] model %.1fs, implementation %.1fs' % (prop, t2 - t1, t3 - t2))

    # 5. compare
    failing = []
    hist = collections.Counter()
    nontrivial = set()
    nops = 0
    gen_errors = 0
    for idx, ((src, ops, lines), (mo, mc), (io, ic)) in enumerate(zip(scripts, model_res, impl_res)):
        nops += len(lines)
        if mo is None or mc:
            failing.append((idx, 0, 'model driver failed: %s' % mc))
            continue
        bad = [l for l in mo if l == 'parse-error' or 'bad-op' in l.split(' ; ')]     # also: a nested call the model rejects as illegal
        if bad:
            gen_errors += 1
            continue
        nt = False
        for l in mo:
            for e in vlib.events(l):
                t = e.split(' ')
                if t[0] == 'report':
                    hist['report ' + t[1] + ' ' + t[3]] += 1
                    nt = True
                elif t[0] == 'res':
                    hist['call:' + ('rejected' if t[1] == 'rep' else 'accepted')] += 1
                else:
                    hist[t[0]] += 1
        if nt:
            nontrivial.add(hash(tuple(lines)))
        if ic:
            failing.append((idx, len(io or []), 'implementation crashed: ' + ic))
            continue
        if any(l == 'no-shape' for l in io):
            gen_errors += 1
            continue
        d = vlib.first_diff(proj, lines, io, mo)
        if d is not None:
            failing.append((idx, d, None))
    if gen_errors:
        notes.append('%d generated scripts were illegal/unsupported and skipped' % gen_errors)
        log('[%s] WARNING %d scripts skipped (generator produced illegal ops)' % (prop, gen_errors))

    # 6. shrink + replay files
    known = known_patterns(prop)
    reported = 0
    for (idx, d, crash) in failing[:200]:
        src, ops, lines = scripts[idx]
        if reported >= 3:
            break

        def fails(cand_ops, _prop=prop):
            ls = worldgen.render(cand_ops)
            if ls is None:
                return False
            m = vlib.run_scripts(tmodel, [ls], 1)[0]
            if m[0] is None or any(x == 'parse-error' or 'bad-op' in x.split(' ; ') for x in m[0]):
                return False
            im = vlib.run_scripts(hw, [ls], 1)[0]
            if im[1]:
                return True
            if any(x == 'no-shape' for x in (im[0] or [])):
                return False
            return vlib.first_diff(proj, ls, im[0], m[0]) is not None
        if ops is not None:
            small = vlib.shrink(ops[:], fails, budget=150)
            slines = worldgen.render(small)
        else:
            slines = lines
        im = vlib.run_scripts(hw, [slines], 1)[0]
        mo = vlib.run_scripts(tmodel, [slines], 1)[0]
        dd = vlib.first_diff(proj, slines, im[0], mo[0])
        header = ['verdict violation', 'source %s' % src, 'protocol world-1',
                  'oracle: under the projection of %s the model output is the only conforming output (theorems in Props/%s.lean)' % (prop, prop)]
        if im[1]:
            header.append('implementation crashed: ' + vlib.crash_summary(im[1]))
        elif dd is not None:
            header.append('first differing operation #%d: %s' % (dd, slines[dd]))
            header.append('impl : ' + (im[0][dd] if dd < len(im[0]) else '<none>'))
            header.append('model: ' + (mo[0][dd] if dd < len(mo[0]) else '<none>'))
        path = vlib.write_replay(prop, tier, seed, 'w%d' % idx, header, slines)
        violations.append((path, False))
        reported += 1

    # 6b. every documented spelling of the expectation statements gives the same bounds / treatment of calls
    spelling = None
    if prop in ('C01', 'C03', 'C07'):
        try:
            sx = vlib.build_simple_harness('spelling', std='c++17')
            out, errs_sp = vlib.run_noinput(sx)
            rc = 1 if errs_sp else 0
            err = errs_sp[0][1] if errs_sp else ''
            lines_sp = [l for l in out if l.startswith(('PASS', 'FAIL', 'DONE'))]
            bad_sp = [l for l in lines_sp if l.startswith('FAIL')]
            spelling = dict(cases=len([l for l in lines_sp if l.startswith(('PASS', 'FAIL'))]), failed=len(bad_sp))
            if bad_sp or rc != 0 or not any(l.startswith('DONE') for l in lines_sp):
                path = vlib.write_replay(prop, tier, seed, 'spelling',
                                         ['verdict violation', 'a documented spelling of REQUIRE/ALLOW/FORBID_CALL (C++14 form, variadic _V form, named, unnamed) '
                                          'does not give the bounds / call treatment the property states',
                                          'reproduce: g++ -std=c++17 -I/repo/include /verif/harness/spelling/h_spelling.cpp && ./a.out'],
                                         (bad_sp or lines_sp[-5:]) + ([err] if rc != 0 else []))
                violations.append((path, False))
        except vlib.BuildError as e:
            path = vlib.write_replay(prop, tier, seed, 'spelling-build',
                                     ['verdict violation', 'a documented spelling of the expectation statements no longer compiles (harness/spelling/h_spelling.cpp)'],
                                     str(e).split('\n')[-30:])
            violations.append((path, False))
    # 6b'. C08: what the caller receives — for reference returns that very object (harness/retref)
    retref = None
    if prop == 'C08' and not replay:
        try:
            rx = vlib.build_simple_harness('retref', std='c++17')
            out, errs_rr = vlib.run_noinput(rx)
            lines_rr = [l for l in out if l.startswith(('PASS', 'FAIL', 'DONE'))]
            bad_rr = [l for l in lines_rr if l.startswith('FAIL')]
            retref = dict(cases=len([l for l in lines_rr if l.startswith(('PASS', 'FAIL'))]), failed=len(bad_rr))
            if bad_rr or errs_rr or not any(l.startswith('DONE') for l in lines_rr):
                path = vlib.write_replay(prop, tier, seed, 'retref',
                                         ['verdict violation', 'the caller does not receive the value / that very object of the RETURN expression',
                                          'reproduce: g++ -std=c++17 -fsanitize=address,undefined -I/repo/include /verif/harness/retref/h_retref.cpp && ./a.out'],
                                         (bad_rr or lines_rr[-5:]) + ([errs_rr[0][1][:1500]] if errs_rr else []))
                violations.append((path, False))
        except vlib.BuildError as e:
            path = vlib.write_replay(prop, tier, seed, 'retref-build',
                                     ['verdict violation', 'a documented form of RETURN / LR_RETURN for value, reference, const-reference or pointer returns '
                                      'no longer compiles (harness/retref/h_retref.cpp)'], str(e).split('\n')[-30:])
            violations.append((path, False))
    # 6c. C14: the intrusive ring itself — the real list_elem / list<T,Disposer> against the heap model (Model/Ring.lean)
    ring = None
    if prop == 'C14':
        ring, ring_viol = ring_correspondence(prop, tier, seed, tmodel, rng)
        violations.extend(ring_viol)
    # 6d. C17: calls made on other threads than the one that constructed the tracer (harness/conc scenario s9)
    threaded = None
    if prop == 'C17' and not replay:
        threaded, thr_viol = threaded_tracer(prop, tier, seed)
        violations.extend(thr_viol)
    # 6e. C17: tracer lifetimes that begin or end inside a call (harness/tracerlife)
    tracerlife = None
    if prop == 'C17' and not replay:
        try:
            tx = vlib.build_simple_harness('tracerlife', std='c++17')
            out_tl, errs_tl = vlib.run_noinput(tx)
            lines_tl = [l for l in out_tl if l.startswith(('PASS', 'FAIL', 'DONE'))]
            bad_tl = [l for l in lines_tl if l.startswith('FAIL')]
            tracerlife = dict(cases=len([l for l in lines_tl if l.startswith(('PASS', 'FAIL'))]), failed=len(bad_tl))
            if bad_tl or errs_tl or not any(l.startswith('DONE') for l in lines_tl):
                path = vlib.write_replay(prop, tier, seed, 'tracerlife',
                                         ['verdict violation', 'a tracer whose lifetime begins or ends inside a call: the record does not go to the most recently constructed live tracer',
                                          'reproduce: g++ -std=c++17 -fsanitize=address,undefined -I/repo/include /verif/harness/tracerlife/h_tracerlife.cpp && ./a.out'],
                                         (bad_tl or lines_tl[-5:]) + ([errs_tl[0][1][:1500]] if errs_tl else []))
                violations.append((path, False))
        except vlib.BuildError as e:
            path = vlib.write_replay(prop, tier, seed, 'tracerlife-build', ['verdict violation', 'harness/tracerlife/h_tracerlife.cpp no longer compiles against /repo'],
                                     str(e).split('\n')[-30:])
            violations.append((path, False))
    # 7. evidence
    wall = time.time() - t0
    # a broken tie for which a concrete failing input was found is reported with that input only
    if any(not nf for _, nf in violations):
        for pth, nf in violations:
            if nf:
                notes.append('tie broken (%s) — a failing input was found, see the other replays' % os.path.basename(pth))
        violations = [(pth, nf) for pth, nf in violations if not nf]
    cov = dict(
        obligations=audit['obligations'] + tie['obligations'], discharged=audit['discharged'] + tie['discharged'],
        checker_cmd='python3 tools/cxx2lean.py && cd lean && lake build && lake env lean .lake/audit_%s.lean  (#print axioms of every theorem of '
                    'Props/%s.lean and of the tie theorems)%s'
                    % (prop, prop, '; lake env leanchecker TrompModel.Props.%s' % prop if tier == 'thorough' else ''),
        trusted_base=TRUSTED_BASE + (['translator tools/cxx2lean.py + vocabulary tools/cxxvocab.py (C++ subset -> Lean do-blocks), for: '
                                      + '; '.join(tie['index'])] if tie['modules'] else []),
        theorems=[dict(name=n, axioms=a) for n, a in audit['theorems'] + tie['theorems']],
        translated_functions=tie['index'],
        programs=len(scripts), traces_validated_against_impl=len(scripts) - len(failing) - gen_errors,
        disagreements_checked=len(failing),
        evaluations=nops, distinct_nontrivial=len(nontrivial),
        rule='scripts = corpus + exhaustive small scopes %s + seeded random scripts (profiles %s); a script is '
             'non-trivial if the model run contains at least one report event; distinct by rendered text'
             % (cfg['enums'], cfg['profiles']),
        samples=['\n'.join(scripts[i][2]) for i in ([0, len(scripts) // 2, len(scripts) - 1] if scripts else [])],
        exhaustive=False,
        generator_mix=dict(gen_stats), outcome_histogram=dict(hist), notes=notes, spelling_family=spelling, return_identity_family=retref, ring_correspondence=ring, threaded_tracer=threaded, tracer_lifetime_family=tracerlife,
        harness_tree=vlib.repo_hash(),
    )
    vlib.write_evidence(prop, tier, seed, 'proof', cov,
                        ['reporter is conforming (throws on fatal, returns on non-fatal)',
                         'operations the C++ language makes undefined are excluded by the model predicate `legal`'],
                        wall, len(violations))
    for path, nf in violations:
        print('VIOLATION property=%s replay=%s%s' % (prop, path, ' no-failing-input-found' if nf else ''))
    log('[%s] %s: %d scripts, %d ops, %d failing, %.0fs' % (prop, tier, len(scripts), nops, len(failing), wall))
    return 1 if violations else 0


def ring_correspondence(prop, tier, seed, tmodel, rng):
    """harness/ring/h_ring.cpp (real ring, ASan+UBSan+TROMPELOEIL_SANITY_CHECKS) vs `tmodel ring` on legal ring scripts."""
    import ringgen
    viol = []
    try:
        hx = vlib.build_simple_harness('ring', std='c++17')
    except vlib.BuildError as e:
        path = vlib.write_replay(prop, tier, seed, 'ring-build',
                                 ['verdict tie-broken', 'broken correspondence h_ring (does not compile against /repo)'], str(e).split('\n')[-30:])
        return dict(error='harness does not compile'), [(path, True)]
    scripts = []
    for p in sorted(glob.glob(os.path.join(vlib.VERIF, 'corpus', 'ring', '*.script'))):
        scripts.append((os.path.relpath(p, vlib.VERIF), [l.rstrip('\n') for l in open(p) if l.strip() and not l.startswith('#')]))
    scripts += ringgen.scripts(tier, rng)
    lines = [s for _, s in scripts]
    mo = vlib.run_scripts(tmodel, lines, mode='ring')
    io = vlib.run_scripts_robust(hx, lines, mode='ring')
    mix = collections.Counter(src.split(':')[-1] if src.startswith('ring:') else 'corpus' for src, _ in scripts)
    opmix = collections.Counter(l.split()[0] for s in lines for l in s)
    failing = []
    skipped = 0
    for idx, ((src, s), (m, mc), (i, ic)) in enumerate(zip(scripts, mo, io)):
        if m is None or mc:
            failing.append((idx, 'model driver failed: %s' % mc))
        elif 'illegal' in m or 'bad-op' in m:
            skipped += 1
        elif ic:
            failing.append((idx, 'implementation crashed: ' + ic))
        elif m != i:
            failing.append((idx, None))

    def fails(ls):
        m = vlib.run_scripts(tmodel, [ls], 1, mode='ring')[0]
        if m[0] is None or 'illegal' in m[0] or 'bad-op' in m[0]:
            return False
        i = vlib.run_scripts(hx, [ls], 1, mode='ring')[0]
        return bool(i[1]) or i[0] != m[0]
    for idx, why in failing[:3]:
        src, s = scripts[idx]
        cur = list(s)
        changed = True
        budget = 200
        while changed and budget > 0:
            changed = False
            for k in range(len(cur) - 1, -1, -1):
                cand = cur[:k] + cur[k + 1:]
                budget -= 1
                if cand and fails(cand):
                    cur = cand
                    changed = True
                if budget <= 0:
                    break
        m = vlib.run_scripts(tmodel, [cur], 1, mode='ring')[0]
        i = vlib.run_scripts(hx, [cur], 1, mode='ring')[0]
        header = ['verdict violation', 'source %s' % src, 'protocol ring-1 (harness/ring/h_ring.cpp)',
                  'oracle: the heap model of Model/Ring.lean, which represents the abstract lists after every legal script '
                  '(Props/C14_Ring.lean: ring_refines_lists, iteration_is_list)']
        if i[1]:
            header.append('implementation crashed: ' + vlib.crash_summary(i[1]))
        else:
            for k, l in enumerate(cur):
                a = i[0][k] if i[0] and k < len(i[0]) else '<none>'
                b = m[0][k] if m[0] and k < len(m[0]) else '<none>'
                if a != b:
                    header += ['first differing operation #%d: %s' % (k, l), 'impl : ' + a, 'model: ' + b]
                    break
        path = vlib.write_replay(prop, tier, seed, 'ring%d' % idx, header, cur)
        viol.append((path, False))
    stats = dict(scripts=len(scripts), operations=sum(len(s) for s in lines), failing=len(failing), skipped_illegal=skipped,
                 generator_mix=dict(mix), operation_mix=dict(opmix),
                 rule='every push pattern for n<=4 elements x every single follow-up operation (systematic) + seeded random legal '
                      'scripts over <= 4 lists and <= 10 nodes; compared: forward and backward traversal of every live list, '
                      'empty(), is_linked() of every node, after every operation')
    log('[%s] ring: %d scripts, %d ops, %d failing' % (prop, stats['scripts'], stats['operations'], len(failing)))
    return stats, viol


PURE = {}


def pure(prop):
    def deco(f):
        PURE[prop] = f
        return f
    return deco


def check_pure(prop, tier, seed, replay, harness, mode, gen_lines, rule, assumptions, std='c++17', nontrivial=None,
               post=None, extra_trusted=None, prepare=None, selfcheck=()):
    """properties decided by a pure function: one input line -> one output line on both sides."""
    t0 = time.time()
    violations = []
    notes = []
    tie = dict(modules=[], obligations=0, discharged=0, theorems=[], broken=[], index=[])
    if not replay:
        tie = vlib.tie_check(prop)
        for mod, what in tie['broken']:
            path = vlib.write_replay(prop, tier, seed, 'tie-%s' % mod, ['verdict tie-broken', 'broken ' + what.split('\n')[0]], what.split('\n'))
            violations.append((path, True))
    try:
        tmodel = vlib.build_lean(prop)
    except vlib.BuildError as e:
        path = vlib.write_replay(prop, tier, seed, 'lean-build', ['verdict tie-broken', 'broken lake build'], str(e).split('\n'))
        print('VIOLATION property=%s replay=%s no-failing-input-found' % (prop, path))
        return 1
    audit = vlib.lean_audit(prop)
    if audit['problems'] or audit['discharged'] != audit['obligations']:
        path = vlib.write_replay(prop, tier, seed, 'lean-audit', ['verdict tie-broken', 'broken proof audit'], audit['problems'])
        violations.append((path, True))
    if tier == 'thorough' and audit['obligations']:
        ok, out = vlib.leanchecker(prop)
        notes.append('leanchecker over TrompModel.Props.%s* and the tie modules serving it: %s' % (prop, out if ok else 'FAILED'))
        if not ok:
            path = vlib.write_replay(prop, tier, seed, 'leanchecker', ['verdict tie-broken', 'broken leanchecker'], out.split('\n'))
            violations.append((path, True))
    rng = random.Random('%s-%s' % (seed, prop))
    generated = None
    try:
        if prepare is not None and not replay:
            generated = prepare(tier, rng)      # (lines, exe) — a harness generated for these inputs
            hx = generated[1]
        elif prepare is None:
            hx = vlib.build_simple_harness(harness, std=std)
        else:
            hx = None
    except vlib.BuildError as e:
        path = vlib.write_replay(prop, tier, seed, 'harness-build',
                                 ['verdict tie-broken', 'broken correspondence h_%s (does not compile against /repo)' % harness],
                                 str(e).split('\n'))
        print('VIOLATION property=%s replay=%s no-failing-input-found' % (prop, path))
        return 1
    if replay:
        lines = [l.rstrip('\n') for l in open(replay) if l.strip() and not l.startswith('#')]
        if prepare is not None:
            generated = prepare(tier, rng, lines)
            hx = generated[1]
            lines = generated[0]
    elif generated is not None:
        lines = generated[0]
    else:
        lines = []
        for name, ls in load_corpus(prop):
            lines.extend(ls)
        lines.extend(gen_lines(tier, rng))
    t1 = time.time()
    mo, merr = vlib.run_lines([tmodel, mode], lines)
    if prepare is not None:
        io, ierr = vlib.run_noinput(hx)
        if len(io) != len(lines):
            ierr.append(('<whole run>', 'generated harness printed %d results for %d inputs' % (len(io), len(lines))))
            io = io + ['<missing>'] * (len(lines) - len(io))
    else:
        io, ierr = vlib.run_lines([hx], lines)
    log('[%s] %d inputs, both sides run in %.1fs' % (prop, len(lines), time.time() - t1))
    bad = []
    hist = collections.Counter()
    distinct = set()
    for l, a, b in zip(lines, io, mo):
        if b in ('parse-error',):
            notes.append('model rejected generated line: ' + l)
            continue
        hist[b if len(b) < 12 else 'other'] += 1
        if nontrivial is None or nontrivial(l, b):
            distinct.add(l)
        ok = (a == b) if post is None else post(l, a, b)
        if not ok:
            bad.append((l, a, b))
    if replay:
        for l, a, b in zip(lines, io, mo):
            print('%s\n    impl : %s\n    model: %s%s' % (l, a, b, '' if a == b else '   <<< differs'))
        if bad:
            print('VIOLATION property=%s replay=%s' % (prop, replay))
            return 1
        print('no disagreement')
        return 0
    for i, (l, a, b) in enumerate(bad[:3]):
        path = vlib.write_replay(prop, tier, seed, 'p%d' % i,
                                 ['verdict violation', 'protocol %s-1' % harness,
                                  'oracle: the model output is the only conforming output (theorems in Props/%s.lean)' % prop,
                                  'impl : ' + a, 'model: ' + b], [l])
        violations.append((path, False))
    for l, e in ierr[:2]:
        if not any(l == x[0] for x in bad[:3]):
            path = vlib.write_replay(prop, tier, seed, 'crash', ['verdict violation', 'implementation crashed: ' + e], [l])
            violations.append((path, False))
    # self-checking program families (PASS/FAIL <case> lines, DONE at the end), built against the current headers
    families = {}
    for hname, hstd, what in (() if replay else selfcheck):
        try:
            sx = vlib.build_simple_harness(hname, std=hstd)
            out_s, errs_s = vlib.run_noinput(sx)
            cases = [l for l in out_s if l.startswith(('PASS', 'FAIL'))]
            bad_s = [l for l in cases if l.startswith('FAIL')]
            families[hname] = dict(cases=len(cases), failed=len(bad_s))
            if bad_s or errs_s or not any(l.startswith('DONE') for l in out_s):
                path = vlib.write_replay(prop, tier, seed, hname, ['verdict violation', what,
                                         'reproduce: g++ -std=%s -fsanitize=address,undefined -I/repo/include /verif/harness/%s/h_%s.cpp && ./a.out' % (hstd, hname, hname)],
                                         (bad_s or out_s[-5:]) + ([errs_s[0][1][:1500]] if errs_s else []))
                violations.append((path, False))
        except vlib.BuildError as e:
            path = vlib.write_replay(prop, tier, seed, hname + '-build', ['verdict violation', 'harness/%s no longer compiles against the headers' % hname],
                                     str(e).split('\n')[-30:])
            violations.append((path, False))
    if families:
        notes.append('self-checking families: %s' % families)
    wall = time.time() - t0
    if any(not nf for _, nf in violations):
        for pth, nf in violations:
            if nf:
                notes.append('tie broken (%s) — a failing input was found, see the other replays' % os.path.basename(pth))
        violations = [(pth, nf) for pth, nf in violations if not nf]
    cov = dict(
        obligations=audit['obligations'] + tie['obligations'], discharged=audit['discharged'] + tie['discharged'],
        translated_functions=tie['index'],
        checker_cmd='cd lean && lake build && lake env lean .lake/audit_%s.lean  (#print axioms of every theorem of Props/%s.lean)%s'
                    % (prop, prop, '; lake env leanchecker TrompModel.Props.%s' % prop if tier == 'thorough' else ''),
        trusted_base=TRUSTED_BASE + (extra_trusted or []),
        theorems=[dict(name=n, axioms=a) for n, a in audit['theorems'] + tie['theorems']],
        programs=len(lines), traces_validated_against_impl=len(lines) - len(bad), disagreements_checked=len(bad),
        evaluations=len(lines), distinct_nontrivial=len(distinct), rule=rule,
        samples=[lines[i] for i in ([0, len(lines) // 3, len(lines) // 2, len(lines) - 1] if lines else [])],
        exhaustive=False, outcome_histogram=dict(hist), notes=notes[:20], harness_tree=vlib.repo_hash(),
    )
    vlib.write_evidence(prop, tier, seed, 'proof', cov, assumptions, wall, len(violations))
    for path, nf in violations:
        print('VIOLATION property=%s replay=%s%s' % (prop, path, ' no-failing-input-found' if nf else ''))
    log('[%s] %s: %d inputs, %d disagreements, %.0fs' % (prop, tier, len(lines), len(bad), wall))
    return 1 if violations else 0


@pure('C11')
def check_c11(tier, seed, replay):
    import rangegen
    return check_pure(
        'C11', tier, seed, replay, 'range', 'range', rangegen.gen,
        rule='exhaustive: every range over {0,1,2} up to length 4 (quick) / 5 (thorough) x every value-element list up to '
             'length 3 / 4 x {range_is, starts_with, ends_with, includes, is_permutation} x variadic and container flavours '
             '(vector, list, deque, std::array, C array); homogeneous vectors of real eq/ne/lt/gt matchers; sampled mixed '
             'value/matcher lists incl. overlapping ones; all/any/none over every range. distinct = distinct input lines; '
             'non-trivial = the range or the element list is non-empty',
        assumptions=['element type int; other element types go through the same templates'],
        nontrivial=lambda l, b: not l.endswith(' R') or ' E R' not in l,
        extra_trusted=['std::equal / std::mismatch / std::find_if / std::all_of of libstdc++ are modelled by their '
                       'specification (Model/Range.lean equal4, mismatch, findIdx?, all)'])


@pure('C10')
def check_c10(tier, seed, replay):
    import matchergen
    if replay:
        # the harness of C10 is generated from (seed, tier): re-run the check that produced the replay
        for l in open(replay):
            if l.startswith('# seed '):
                seed = l.split()[2]
            if l.startswith('# tier '):
                tier = l.split()[2]

    def prepare(tier, rng, replay_lines=None):
        if replay_lines is not None:
            # a replay is a list of `tree | value | oracle` lines: rebuild a harness with exactly those trees
            raise vlib.BuildError('replay of C10 needs the generating seed: re-run the check with VERIF_SEED from the replay header')
        n = 150 if tier == 'quick' else 1500
        ntu = 8 if tier == 'quick' else 16
        state = rng.getstate()
        drop = set()
        for attempt in range(6):
            rng.setstate(state)
            files, lines, trees, blocks = matchergen.generate(rng, n, ntu, frozenset(drop))
            try:
                exe = vlib.build_generated_harness('matcher', files)
                return lines, exe
            except vlib.BuildError as e:
                # expressions that no longer compile against the tree under test: report them, leave them out, go on with the rest
                new = set()
                for m in re.finditer(r'gen_trees_(\d+)\.cpp:(\d+):', str(e.full if hasattr(e, 'full') else e)):
                    t, ln = int(m.group(1)), int(m.group(2))
                    for (bt, l0, l1), (bid, text) in blocks.items():
                        if bt == t and l0 <= ln <= l1 and bid not in drop:
                            new.add(bid)
                            uncompilable.append((bid, text, str(e)[-1500:]))
                if not new:
                    raise
                drop |= new
        raise vlib.BuildError('generated matcher harness: too many expressions fail to compile')
    uncompilable = []
    rc = check_pure(
        'C10', tier, seed, None, 'matcher', 'matcher', None,
        rule='seeded random matcher expressions (depth <= 3; eq/ne/lt/le/gt/ge duck-typed and explicitly typed, !, *, any_of/all_of/'
             'none_of with 1-3 operands incl. plain values, MEMBER_IS, re with/without icase, _ and ANY(T)) compiled against the real '
             'headers and evaluated on the whole value domain of their type (ints -2..3, 4 strings, 5 C strings incl. null, raw/unique/'
             'shared pointers incl. null, 9 structs); a fixed corpus of boundary trees first. distinct = distinct (tree, value) lines',
        assumptions=['std::regex_search is an oracle: its answer is computed by Python re on an ECMAScript-compatible pattern subset and '
                     'passed to the model; what is compared is trompeloeil\'s glue (null handling, string_helper, flag routing)',
                     '`_` cannot be used as an operand of !, any_of/all_of/none_of or MEMBER_IS (does not compile upstream: no operator<<); '
                     'it is exercised at top level only'],
        prepare=prepare,
        extra_trusted=['Python re as regex oracle on the pattern subset used'])
    if rc:
        # say which C++ expression each differing model line stands for
        import glob
        for rp in glob.glob(os.path.join(vlib.REPLAYS, 'C10', '%s-p*.replay' % seed)):
            body = [l.rstrip('\n') for l in open(rp) if not l.startswith('#')]
            notes_cpp = ['# C++ (one of): %s' % '   |   '.join(matchergen.LINE2CPP[l]) for l in body if l in matchergen.LINE2CPP]
            if notes_cpp:
                with open(rp, 'a') as fh:
                    fh.write('\n'.join(notes_cpp) + '\n')
    if uncompilable:
        # every generated expression compiles against the unchanged tree; one that stops compiling is a failing input of its own
        seen = set()
        for bid, text, err in uncompilable[:3]:
            if bid in seen:
                continue
            seen.add(bid)
            path = vlib.write_replay('C10', tier, seed, 'nocompile-' + bid,
                                     ['verdict violation', 'a legal matcher expression (generated; compiles against the unchanged tree) no longer compiles',
                                      'compile inside a function with: #include "harness/matcher/hm.hpp", g++ -std=c++17 -I/repo/include'],
                                     [text, '', 'compiler:'] + err.split('\n')[-25:])
            print('VIOLATION property=C10 replay=%s' % path)
        return 1
    return rc


@pure('C18')
def check_c18(tier, seed, replay):
    import printgen
    return check_pure(
        'C18', tier, seed, replay, 'print', 'print', printgen.gen,
        rule='a fixed family of C++ types covering every dispatch shape (int, bool, std::string, const char* incl. null, raw/unique/shared '
             'pointers incl. null, nullptr_t, pair, tuple, vector/list/array/C array/map, nested vectors, opaque structs of 1..40 bytes, a type '
             'with printer<T>, a type with both operator<< and printer<T>, user-printed elements inside collections) with seeded run-time '
             'values x all 288 prior stream states (width {0,3,12} x base {dec,hex,oct,none} x adjust {left,right,internal,none} x fill '
             '{space,*,0} x extra flags); compared: the output string and width/base/adjust/fill/flags afterwards. distinct = distinct lines',
        assumptions=['addresses printed for non-null pointers are canonicalised to <addr>',
                     'the standard stream\'s padding of a string insertion (operator<<(ostream&, const char*)) is modelled by `pad`'],
        nontrivial=lambda l, b: not l.startswith('0 dec left 32 0 |'),
        extra_trusted=['libstdc++ formatted output of int / string under dec, left, fill space, width 0; `pad` for string literals'],
        selfcheck=[('describe', 'c++17', 'an expected value held by a matcher (element of a range matcher, operand of any_of / all_of / none_of) that is a '
                    'null pointer is not described as nullptr in the report, or the report ends there')])


lean_workdir = vlib.lean_workdir


def check_translated(prop, tier, seed, replay):
    """C19 / C09: model fragments regenerated from /repo by tools/translate.py + theorems over them + compile farm."""
    import shutil
    import tempfile
    import farm
    import translate
    t0 = time.time()
    violations = []
    notes = []
    lean_dir = lean_workdir()
    gen = os.path.join(lean_dir, 'TrompModel', 'Gen')
    # 1. regenerate the tables from the current source
    translated = True
    try:
        translate.REPO = vlib.REPO
        translate.write_static_asserts(os.path.join(gen, 'StaticAsserts.lean'))
        translate.gen_macros(os.path.join(gen, 'Macros.lean'))
    except translate.TranslateError as e:
        translated = False
        notes.append('translation failed: %s' % e)
        path = vlib.write_replay(prop, tier, seed, 'translate',
                                 ['verdict tie-broken', 'broken translator tools/translate.py cannot regenerate Gen/*.lean from /repo'],
                                 [str(e)])
        violations.append([path, True])
    # 1b. the C++ translator's ties that serve this property (mkarg / arg)
    tie = dict(modules=[], obligations=0, discharged=0, theorems=[], broken=[], index=[])
    if not replay:
        tie = vlib.tie_check(prop, lean_dir)
        for mod, what in tie['broken']:
            path = vlib.write_replay(prop, tier, seed, 'tie-%s' % mod, ['verdict tie-broken', 'broken ' + what.split('\n')[0]], what.split('\n'))
            violations.append([path, True])
    # 2. proofs over the regenerated tables
    built = True
    tmodel = os.path.join(lean_dir, '.lake', 'build', 'bin', 'tmodel')
    try:
        tmodel = vlib.build_lean(prop, lean_dir)
    except vlib.BuildError as e:
        built = False
        path = vlib.write_replay(prop, tier, seed, 'lean-build',
                                 ['verdict tie-broken', 'broken lake build TrompModel.Props.%s over the regenerated tables' % prop],
                                 str(e).split('\n')[-60:])
        violations.append([path, True])
        try:
            tmodel = vlib.build_lean(None, lean_dir)      # the driver alone, for the failing-input search
        except vlib.BuildError:
            tmodel = os.path.join(vlib.LEAN_DIR, '.lake', 'build', 'bin', 'tmodel')
    audit = vlib.lean_audit(prop, lean_dir) if built else dict(obligations=0, discharged=0, theorems=[], problems=[])
    if audit['problems'] or audit['discharged'] != audit['obligations']:
        path = vlib.write_replay(prop, tier, seed, 'lean-audit', ['verdict tie-broken', 'broken proof audit'], audit['problems'])
        violations.append([path, True])
    if tier == 'thorough' and audit['obligations'] and lean_dir == vlib.LEAN_DIR:
        ok, out = vlib.leanchecker(prop)
        notes.append('leanchecker over TrompModel.Props.%s* and the tie modules serving it: %s' % (prop, out if ok else 'FAILED'))
    found_input = False
    stats = {}
    samples = []
    nprog = 0
    ndis = 0
    if prop == 'C19':
        # 3a. macro namespace: a concrete offending macro is the failing input
        try:
            where = {}
            for std in ('c++14', 'c++17', 'c++20'):
                for n, form in translate.long_macro_dump(std)[1].items():
                    where.setdefault(n, (form, std))
            names = sorted(where)
            bad = [n for n in names if not n.startswith('TROMPELOEIL_')]
            stats['long_macro_names'] = len(names)
            stats['long_macro_definition_forms'] = list(translate.LONG_FORMS)
            if bad:
                form, std = where[bad[0]]
                path = vlib.write_replay(prop, tier, seed, 'macros',
                                         ['verdict violation', 'with -D%s the headers define macros outside the TROMPELOEIL_ prefix' % form,
                                          'reproduce: echo "#include <trompeloeil.hpp>" | g++ -std=%s -D%s -I/repo/include -E -dD -x c++ - | grep "#define %s"' % (std, form, bad[0])],
                                         ['%s   (defined with -D%s at -std=%s)' % (n, where[n][0], where[n][1]) for n in bad])
                violations.append([path, False])
                found_input = True
        except translate.TranslateError as e:
            notes.append(str(e))
        # 3b. the shipped negative programs with their own rules
        res, n = farm.run_shipped(('c++14', 'c++17', 'c++20') if tier == 'thorough' else ('c++17', 'c++20'))
        nprog += n
        stats['shipped_runs'] = n
        for f, lv, verdict, detail in [r for r in res if r[2] != 'ok'][:3]:
            ndis += 1
            path = vlib.write_replay(prop, tier, seed, 'shipped-%s-%s' % (f[:-4], lv),
                                     ['verdict violation', 'program compilation_errors/%s at -std=%s: %s' % (f, lv, verdict), detail],
                                     open(os.path.join(vlib.REPO, 'compilation_errors', f)).read().split('\n'))
            violations.append([path, False])
            found_input = True
        # 3c. every documented statement / clause macro once, with the short aliases and with the prefixed names under
        #     -DTROMPELOEIL_LONG_MACROS: all of them are legal and must compile
        wd0 = tempfile.mkdtemp(prefix='farmfam_')
        try:
            ffails, nfam = farm.run_family(wd0, ('c++14', 'c++17', 'c++20'))
            nprog += nfam
            stats['macro_family_programs'] = nfam
            for lv, lm, nm, src, err in ffails[:3]:
                ndis += 1
                first = re.findall(r'error: [^\n]*', err)[:4]
                path = vlib.write_replay(prop, tier, seed, 'family-%s-%s-%s' % (lv, 'long' if lm else 'short', nm or 'all'),
                                         ['verdict violation', 'a documented legal statement does not compile at -std=%s %s' % (
                                             lv, 'with TROMPELOEIL_LONG_MACROS and the prefixed macro names' if lm else 'with the short macro names'),
                                          ' | '.join(first)[:700],
                                          'compile with: g++ -std=%s -fsyntax-only -I/repo/include -I/verif/harness/farm <this file>' % lv],
                                         src.split('\n'))
                violations.append([path, False])
                found_input = True
        finally:
            shutil.rmtree(wd0, ignore_errors=True)
        # 3c'. a parameter index beyond the arity, for every clause macro that binds _1 … _15
        wd1 = tempfile.mkdtemp(prefix='farmar_')
        try:
            afails, nar = farm.run_beyond_arity(tier, wd1)
            nprog += nar
            stats['beyond_arity_programs'] = nar
            for k, (macro, n, kk, expected, what, src) in enumerate(afails[:3]):
                ndis += 1
                path = vlib.write_replay(prop, tier, seed, 'arity-%s-%s-%s' % (macro, n, kk),
                                         ['verdict violation', 'clause %s on a function of %s parameters using _%s: expected %s' % (macro, n, kk, expected),
                                          'compiler: %s' % what,
                                          'compile with: g++ -std=%s -fsyntax-only -I/repo/include -I/verif/harness/farm <this file>'
                                          % ('c++20' if macro.replace('LR_', '').startswith('CO_') else 'c++17')],
                                         src.split('\n'))
                violations.append([path, False])
                found_input = True
        finally:
            shutil.rmtree(wd1, ignore_errors=True)
        # 3d. generated clause lists, fate predicted by the model
        wd = tempfile.mkdtemp(prefix='farm_')
        try:
            rng = random.Random('%s-%s' % (seed, prop))
            mism, st = farm.run_generated(tier, rng, tmodel, wd)
            stats.update(st)
            nprog += st.get('cases', 0)
            ndis += len(mism)
            for k, (sig, toks, pred, what) in enumerate(mism[:3]):
                body = farm.prelude(sig.startswith('coro')) + farm.program(sig, toks, k)
                path = vlib.write_replay(prop, tier, seed, 'gen%d' % k,
                                         ['verdict violation', 'signature %s, clauses %s' % (sig, ' '.join(toks) or '(none)'),
                                          'model (theorems of Props/C19.lean over the regenerated guards) predicts: %s' % pred,
                                          'compiler: %s' % what.replace('\n', ' | ')[:600],
                                          'compile with: g++ -std=%s -fsyntax-only -I/repo/include -I/verif/harness/farm <this file>' % ('c++20' if sig.startswith('coro') else 'c++17')],
                                         body.split('\n'))
                violations.append([path, False])
                found_input = True
            samples = ['%s | %s' % (sig, ' '.join(t)) for sig, t in farm.cases('quick', rng)[5:9]]
        finally:
            shutil.rmtree(wd, ignore_errors=True)
    else:
        import argsfarm
        rng = random.Random('%s-%s' % (seed, prop))
        fails, st = argsfarm.run(tier, rng)
        stats.update(st)
        nprog += st.get('programs', 0)
        ndis += len(fails)
        samples = st.get('samples', [])
        for k, (name, src, out) in enumerate(fails[:3]):
            path = vlib.write_replay(prop, tier, seed, 'args%d' % k,
                                     ['verdict violation', 'generated program %s: an assertion about argument aliasing / capture failed' % name,
                                      out.replace('\n', ' | ')[:800]], src.split('\n'))
            violations.append([path, False])
            found_input = True
    if prop == 'C09' and not replay:
        # _1 … _15 inside the CO_ clauses of an eagerly started coroutine (harness/covalue, the 'arity 15' cases; -std=c++20)
        try:
            cx = vlib.build_simple_harness('covalue', std='c++20')
            out_cv, errs_cv = vlib.run_noinput(cx)
            l15 = [l for l in out_cv if 'arity 15' in l]
            bad15 = [l for l in l15 if l.startswith('FAIL')]
            stats['co_clause_alias_cases'] = len(l15)
            nprog += 1
            if bad15 or len(l15) < 3:
                ndis += 1
                path = vlib.write_replay(prop, tier, seed, 'coalias',
                                         ['verdict violation', 'inside a CO_RETURN / CO_YIELD / CO_THROW clause some _k is not the caller\'s argument',
                                          'reproduce: g++ -std=c++20 -fsanitize=address,undefined -I/repo/include /verif/harness/covalue/h_covalue.cpp && ./a.out'],
                                         bad15 or ['the arity 15 cases did not run'] + out_cv[-5:] + ([errs_cv[0][1][:1500]] if errs_cv else []))
                violations.append([path, False])
                found_input = True
        except vlib.BuildError as e:
            notes.append('harness/covalue does not build (reported by C20): %s' % str(e)[-200:])
    # a broken tie with a concrete failing input is reported with that input only
    final = []
    for path, nf in violations:
        if nf and found_input:
            notes.append('tie broken (%s) — failing input found, see the other replays' % os.path.basename(path))
            continue
        final.append((path, nf))
    wall = time.time() - t0
    cov = dict(
        obligations=audit['obligations'] + tie['obligations'], discharged=audit['discharged'] + tie['discharged'],
        translated_functions=tie['index'],
        checker_cmd='python3 tools/translate.py && python3 tools/cxx2lean.py && cd lean && lake build TrompModel.Props.%s TrompModel.Tie.Mkarg && lake env lean .lake/audit_%s.lean' % (prop, prop),
        trusted_base=TRUSTED_BASE[:3] + ['translator tools/translate.py (preprocessor output and static_assert expressions -> Lean tables), '
                                         'validated against g++ by the compile farm', 'g++ 12.2 implements static_assert / templates / macros as the standard says'],
        theorems=[dict(name=n, axioms=a) for n, a in audit['theorems'] + tie['theorems']],
        programs=max(nprog, 1), disagreements_checked=ndis, traces_validated_against_impl=nprog - ndis,
        evaluations=max(nprog, 1), distinct_nontrivial=max(nprog, 2),
        rule='every generated/shipped program is distinct; each is compiled against the current headers and compared with the prediction',
        samples=samples or ['(none)'], exhaustive=False, translated=translated, stats=stats, notes=notes)
    vlib.write_evidence(prop, tier, seed, 'proof', cov,
                        ['the compiler evaluates static_assert conditions as written',
                         'type-level atoms of RETURN expressions (pointer/reference constness) are covered by the shipped programs only'],
                        wall, len(final))
    for path, nf in final:
        print('VIOLATION property=%s replay=%s%s' % (prop, path, ' no-failing-input-found' if nf else ''))
    log('[%s] %s: %d programs, %d disagreements, %.0fs' % (prop, tier, nprog, ndis, wall))
    return 1 if final else 0


@pure('C19')
def check_c19(tier, seed, replay):
    return check_translated('C19', tier, seed, replay)


@pure('C09')
def check_c09(tier, seed, replay):
    return check_translated('C09', tier, seed, replay)


F12_PROGRAM = r'''// known finding F12 (C20): coroutine mock WITH a parameter; a CO_ clause evaluated after the call returned
// reads the parameter tuple that lived in mock_func's frame.
#include <trompeloeil.hpp>
#include <coroutine>
#include <cstdio>
#include <optional>
using trompeloeil::_;
struct Pull {
  struct promise_type {
    std::optional<int> cur; int ret = 0;
    Pull get_return_object() { return Pull{std::coroutine_handle<promise_type>::from_promise(*this)}; }
    std::suspend_always initial_suspend() noexcept { return {}; }
    std::suspend_always final_suspend() noexcept { return {}; }
    std::suspend_always yield_value(int v) { cur = v; return {}; }
    void return_value(int v) { ret = v; }
    void unhandled_exception() {}
  };
  std::coroutine_handle<promise_type> h;
  explicit Pull(std::coroutine_handle<promise_type> h_) : h(h_) {}
  Pull(Pull&& o) noexcept : h(o.h) { o.h = {}; }
  ~Pull() { if (h) h.destroy(); }
  bool await_ready() const { return true; }
  void await_suspend(std::coroutine_handle<>) const {}
  int await_resume() const { return 0; }
};
struct CM { MAKE_MOCK1(f, Pull(int)); };
int main()
{
  CM m;
  REQUIRE_CALL(m, f(_)).CO_YIELD(_1 + 10).CO_RETURN(_1 + 1);
  Pull p = m.f(5);
  p.h.resume();                       // evaluates `_1 + 10` after mock_func has returned
  std::printf("%d\\n", *p.h.promise().cur);
  p.h.resume();
  std::printf("%d\\n", p.h.promise().ret);
  return 0;
}
'''


def known_finding_f12():
    """-> True while the recorded known finding still reproduces on the current tree."""
    import tempfile
    import shutil
    import subprocess
    wd = tempfile.mkdtemp(prefix='f12_')
    try:
        src = os.path.join(wd, 'f12.cpp')
        with open(src, 'w') as f:
            f.write(F12_PROGRAM)
        r = subprocess.run(['g++', '-std=c++20', '-O0', '-g', '-fsanitize=address', '-I' + os.path.join(vlib.REPO, 'include'), src, '-o',
                            os.path.join(wd, 'f12')], stdout=subprocess.PIPE, stderr=subprocess.PIPE, universal_newlines=True)
        if r.returncode != 0:
            return None, 'does not compile: ' + r.stderr[:400]
        env = dict(os.environ)
        env['ASAN_OPTIONS'] = 'detect_stack_use_after_return=1:exitcode=97'
        r = subprocess.run([os.path.join(wd, 'f12')], stdout=subprocess.PIPE, stderr=subprocess.PIPE, universal_newlines=True, env=env)
        return ('stack-use-after-return' in r.stderr or 'stack-use-after-scope' in r.stderr or r.returncode == 97), vlib.crash_summary(r.stderr)
    finally:
        shutil.rmtree(wd, ignore_errors=True)


@pure('C20')
def check_c20(tier, seed, replay):
    import corogen
    prop = 'C20'
    t0 = time.time()
    violations = []
    notes = []
    tie = dict(modules=[], obligations=0, discharged=0, theorems=[], broken=[], index=[])
    if not replay:
        tie = vlib.tie_check(prop)
        for mod, what in tie['broken']:
            path = vlib.write_replay(prop, tier, seed, 'tie-%s' % mod, ['verdict tie-broken', 'broken ' + what.split('\n')[0]], what.split('\n'))
            violations.append((path, True))
    try:
        tmodel = vlib.build_lean(prop)
    except vlib.BuildError as e:
        path = vlib.write_replay(prop, tier, seed, 'lean-build', ['verdict tie-broken', 'broken lake build'], str(e).split('\n'))
        print('VIOLATION property=%s replay=%s no-failing-input-found' % (prop, path))
        return 1
    audit = vlib.lean_audit(prop)
    if audit['problems'] or audit['discharged'] != audit['obligations']:
        path = vlib.write_replay(prop, tier, seed, 'lean-audit', ['verdict tie-broken', 'broken proof audit'], audit['problems'])
        violations.append((path, True))
    if tier == 'thorough' and audit['obligations']:
        ok, out = vlib.leanchecker(prop)
        notes.append('leanchecker over TrompModel.Props.%s* and the tie modules serving it: %s' % (prop, out if ok else 'FAILED'))
    try:
        hx = vlib.build_simple_harness('coro', std='c++20')
    except vlib.BuildError as e:
        path = vlib.write_replay(prop, tier, seed, 'harness-build',
                                 ['verdict tie-broken', 'broken correspondence h_coro (does not compile against /repo)'], str(e).split('\n'))
        print('VIOLATION property=%s replay=%s no-failing-input-found' % (prop, path))
        return 1
    # known findings first
    for k in [k for k in vlib.load_known() if k.get('property') == prop and k.get('status') == 'known']:
        rep, detail = known_finding_f12()
        if rep:
            print('KNOWN-FINDING: property=%s %s' % (prop, k['what']))
            notes.append('known finding %s reproduces: %s' % (k['id'], detail))
        else:
            notes.append('known finding %s no longer reproduces (%s)' % (k['id'], detail))
    rng = random.Random('%s-%s' % (seed, prop))
    if replay:
        scripts = [[l.rstrip('\n') for l in open(replay) if l.strip() and not l.startswith('#')]]
    else:
        scripts = [ls for _, ls in load_corpus(prop)] + corogen.gen(tier, rng)
    mo = vlib.run_scripts(tmodel, scripts, mode='coro')
    io = vlib.run_scripts_robust(hx, scripts)
    failing = []
    hist = collections.Counter()
    nops = 0
    for idx, (ls, (m, mc), (i, ic)) in enumerate(zip(scripts, mo, io)):
        nops += len(ls)
        if m is None:
            failing.append((idx, 0, 'model failed'))
            continue
        for l in m:
            for e in l.split(' ; '):
                hist[e.split(':')[0].split(' ')[0]] += 1
        if ic:
            failing.append((idx, len(i or []), 'implementation crashed: ' + ic))
            continue
        d = next((k for k in range(len(ls)) if k >= len(i) or k >= len(m) or i[k] != m[k]), None)
        if d is not None:
            failing.append((idx, d, None))
    if replay:
        ls = scripts[0]
        for k, l in enumerate(ls):
            print('%-36s impl: %-40s model: %s' % (l, io[0][0][k] if io[0][0] and k < len(io[0][0]) else '<none>', mo[0][0][k] if mo[0][0] and k < len(mo[0][0]) else '<none>'))
        if failing:
            print('VIOLATION property=%s replay=%s' % (prop, replay))
            return 1
        print('no disagreement')
        return 0
    for (idx, d, crash) in failing[:3]:
        ls = scripts[idx]
        hdr = ['verdict violation', 'protocol coro-1', 'oracle: the model output is the only conforming output (theorems in Props/C20.lean)']
        if crash:
            hdr.append(crash)
        else:
            hdr += ['first differing operation #%d: %s' % (d, ls[d]), 'impl : ' + (io[idx][0][d] if d < len(io[idx][0]) else '<none>'),
                    'model: ' + (mo[idx][0][d] if d < len(mo[idx][0]) else '<none>')]
        violations.append((vlib.write_replay(prop, tier, seed, 'c%d' % idx, hdr, ls), False))
    # lvalue completion / yield expressions of move-sensitive types, several calls per expectation (harness/covalue)
    covalue = None
    try:
        cx = vlib.build_simple_harness('covalue', std='c++20')
        out_cv, errs_cv = vlib.run_noinput(cx)
        lines_cv = [l for l in out_cv if l.startswith(('PASS', 'FAIL', 'DONE'))]
        bad_cv = [l for l in lines_cv if l.startswith('FAIL')]
        covalue = dict(cases=len([l for l in lines_cv if l.startswith(('PASS', 'FAIL'))]), failed=len(bad_cv))
        if bad_cv or errs_cv or not any(l.startswith('DONE') for l in lines_cv):
            path = vlib.write_replay(prop, tier, seed, 'covalue',
                                     ['verdict violation', 'a coroutine handled by an expectation does not produce the CO_YIELD / CO_RETURN values, '
                                      'or the evaluation of the clauses for one call changes what another call gets',
                                      'reproduce: g++ -std=c++20 -fsanitize=address,undefined -I/repo/include /verif/harness/covalue/h_covalue.cpp && ./a.out'],
                                     (bad_cv or lines_cv[-5:]) + ([errs_cv[0][1][:1500]] if errs_cv else []))
            violations.append((path, False))
    except vlib.BuildError as e:
        path = vlib.write_replay(prop, tier, seed, 'covalue-build',
                                 ['verdict violation', 'a documented form of CO_RETURN / CO_YIELD with an lvalue expression no longer compiles (harness/covalue/h_covalue.cpp)'],
                                 str(e).split('\n')[-30:])
        violations.append((path, False))
    wall = time.time() - t0
    if any(not nf for _, nf in violations):
        for pth, nf in violations:
            if nf:
                notes.append('tie broken (%s) — a failing input was found, see the other replays' % os.path.basename(pth))
        violations = [(pth, nf) for pth, nf in violations if not nf]
    cov = dict(
        obligations=audit['obligations'] + tie['obligations'], discharged=audit['discharged'] + tie['discharged'],
        checker_cmd='python3 tools/cxx2lean.py && cd lean && lake build tmodel TrompModel.Props.C20 TrompModel.Tie.Coro && lake env lean .lake/audit_C20.lean',
        trusted_base=TRUSTED_BASE + ['the promise types of the coroutine harness (lazy/eager pullers) and g++ 12.2 coroutines'] +
                     (['translator tools/cxx2lean.py + vocabulary tools/cxxvocab.py, for: ' + '; '.join(tie['index'])] if tie['modules'] else []),
        theorems=[dict(name=n, axioms=a) for n, a in audit['theorems'] + tie['theorems']],
        translated_functions=tie['index'],
        programs=len(scripts), traces_validated_against_impl=len(scripts) - len(failing), disagreements_checked=len(failing),
        evaluations=nops, distinct_nontrivial=len(set(tuple(s) for s in scripts)),
        rule='exhaustive: lazy/eager x value/void completion x every CO_YIELD list of length <= 3 (quick) / 4 over {value, value, throwing} '
             'with at most one throwing clause x {CO_RETURN value, throwing CO_RETURN, CO_THROW} x pulls past the end; two coroutines of '
             'one expectation under sampled and fixed interleavings; coroutines of two expectations; mock functions WITHOUT parameters (F12)',
        samples=['\n'.join(scripts[k]) for k in (0, len(scripts) // 2)], exhaustive=False, outcome_histogram=dict(hist), notes=notes, completion_value_family=covalue,
        harness_tree=vlib.repo_hash())
    vlib.write_evidence(prop, tier, seed, 'proof', cov,
                        ['the expectation outlives the evaluation of its clauses (the property\'s proviso)',
                         'clauses evaluated after the call returned do not refer to parameters of the call (known finding F12)'],
                        wall, len(violations))
    for path, nf in violations:
        print('VIOLATION property=%s replay=%s%s' % (prop, path, ' no-failing-input-found' if nf else ''))
    log('[%s] %s: %d scripts, %d ops, %d failing, %.0fs' % (prop, tier, len(scripts), nops, len(failing), wall))
    return 1 if violations else 0


def build_conc(kind):
    """h_conc built from /repo's current tree: kind = 'tsan' | 'hook'."""
    import hashlib
    src = os.path.join(vlib.VERIF, 'harness', 'conc', 'h_conc.cpp')
    flags = {'tsan': ['-std=c++17', '-O1', '-g', '-fsanitize=thread'], 'plain': ['-std=c++17', '-O1', '-g'],
             'hook': ['-std=c++17', '-O1', '-g', '-DTROMPELOEIL_VERIF', '-DTROMPELOEIL_CUSTOM_RECURSIVE_MUTEX']}[kind]
    key = vlib.repo_hash(hashlib.sha256(open(src, 'rb').read()).hexdigest() + kind)
    out = os.path.join(vlib.BUILD, key, 'conc')
    exe = os.path.join(out, 'h_conc_' + kind)
    if os.path.exists(exe):
        os.utime(os.path.join(vlib.BUILD, key))
        return exe
    os.makedirs(out, exist_ok=True)
    r = vlib.sh(['g++'] + flags + ['-I' + os.path.join(vlib.REPO, 'include'), src, '-o', exe + '.tmp', '-lpthread'])
    if r.returncode != 0:
        raise vlib.BuildError('h_conc (%s) does not compile against /repo:\n%s' % (kind, r.stderr[-3000:]))
    os.rename(exe + '.tmp', exe)
    vlib.prune_builds({key})
    return exe


def replay_linearization(tmodel, ops):
    """ops: list of (first_ticket, last_ticket, text).  Replays the operations of scenario l1 on the World model
    in critical-section order (an expectation statement is linearized at its last critical section, the hook into
    the mock's list; every other operation is one critical section).  -> None or a description of the mismatch."""
    order = sorted(ops, key=lambda o: (o[1], o[0]))
    lines = ['mock 0 1']
    expect = []      # what each line must answer (None = don't care)
    idmap = {}
    for first, last, text in order:
        t = text.split()
        if t[0] == 'expect':
            hid = int(t[1])
            mid = len(idmap)
            idmap[hid] = mid
            lines.append('expect %d 0 1 P %s W X R val:%d T %s %s 1 S O 1 0 0' % (mid, t[2], 1000 + hid, t[3], t[4]))
            expect.append('-')
        elif t[0] == 'call':
            res = int(t[3])
            lines.append('call 0 1 %s' % t[1])
            expect.append(('res rep' if res == -2 else 'res val:%d' % res, 'call'))
        elif t[0] in ('sat', 'satd'):
            if int(t[1]) not in idmap:
                return 'operation on expectation %s linearized before its creation: %s' % (t[1], text)
            lines.append('%s %d' % (t[0], idmap[int(t[1])]))
            expect.append(('ans ' + t[3], 'ans'))
        elif t[0] == 'release':
            if int(t[1]) not in idmap:
                return 'release of %s linearized before its creation' % t[1]
            lines.append('release %d' % idmap[int(t[1])])
            expect.append((int(t[3]), 'release'))
    out = vlib.run_scripts(tmodel, [lines], 1)[0][0]
    if out is None or len(out) != len(lines):
        return 'model did not answer every line'
    for k, (l, exp) in enumerate(zip(lines[1:], expect)):
        got = out[k + 1]
        if exp == '-':
            if got != '-':
                return 'line %r: model says %r' % (l, got)
            continue
        val, kind = exp
        if kind == 'call':
            evs = got.split(' ; ')
            if evs[-1] != val:
                return 'after %d operations in critical-section order, %r: implementation %r, sequential model %r' % (k, l, val, evs[-1])
        elif kind == 'ans':
            if got != val:
                return 'after %d operations in critical-section order, %r: implementation %r, sequential model %r' % (k, l, val, got)
        else:
            n = 0 if got == '-' else len([e for e in got.split(' ; ') if e.startswith('report ')])
            if n != val:
                return 'after %d operations in critical-section order, %r: implementation reported %d, sequential model %d' % (k, l, val, n)
    return None


def threaded_tracer(prop, tier, seed):
    """scenario s9 of harness/conc (built from /repo's current tree, plain build): a tracer constructed before the worker
    threads start must receive one record per accepted call whichever thread makes it, and the outer tracer is in effect
    again after a nested one died.  -> (stats, violations)"""
    import subprocess
    try:
        exe = build_conc('plain')
    except vlib.BuildError as e:
        path = vlib.write_replay(prop, tier, seed, 'threaded-build', ['verdict tie-broken', 'broken correspondence h_conc (does not compile against /repo)'],
                                 str(e).split('\n')[-30:])
        return dict(error='harness does not compile'), [(path, True)]
    viol = []
    runs = 0
    for sd in range(int(seed) * 10, int(seed) * 10 + (2 if tier == 'quick' else 6)):
        for nt in (2, 4) if tier == 'quick' else (2, 3, 4, 8):
            runs += 1
            try:
                p = subprocess.run([exe, 's9', str(sd), str(nt), '100'], stdout=subprocess.PIPE, stderr=subprocess.PIPE, universal_newlines=True, timeout=120)
                out, rc = p.stdout, p.returncode
            except subprocess.TimeoutExpired:
                out, rc = 'FAIL hang', 124
            if rc != 0 or 'FAIL' in out:
                if len(viol) < 2:
                    path = vlib.write_replay(prop, tier, seed, 'threaded-%d-%d' % (sd, nt),
                                             ['verdict violation', 'tracer alive on the main thread, accepted calls made by %d other threads: h_conc_plain s9 %d %d 100' % (nt, sd, nt),
                                              'build: g++ -std=c++17 -O1 -g -I/repo/include harness/conc/h_conc.cpp -lpthread'],
                                             [l for l in out.split('\n') if l.strip()][:20])
                    viol.append((path, False))
    return dict(runs=runs, failing=len(viol), rule='scenario s9: 100 calls per thread, records received by the tracer = accepted calls'), viol


@pure('C12')
def check_c12(tier, seed, replay):
    import re
    import subprocess
    prop = 'C12'
    t0 = time.time()
    q = tier == 'quick'
    violations = []
    notes = []
    lean_dir = lean_workdir()
    # 1. harnesses from the current tree
    try:
        tsan = build_conc('tsan')
        hook = build_conc('hook')
    except vlib.BuildError as e:
        path = vlib.write_replay(prop, tier, seed, 'harness-build',
                                 ['verdict tie-broken', 'broken correspondence h_conc (does not compile against /repo)'], str(e).split('\n'))
        print('VIOLATION property=%s replay=%s no-failing-input-found' % (prop, path))
        return 1
    nthreads = [2, 4, 8] if q else [2, 3, 4, 6, 8]
    seeds = [int(seed) * 10 + k for k in range(2 if q else 8)]
    iters = 150 if q else 500
    runs = 0
    # 2. ThreadSanitizer: free running with yield/sleep perturbation
    env = dict(os.environ)
    env['TSAN_OPTIONS'] = 'halt_on_error=0:exitcode=66'
    jobs = [(sc, sd, nt) for sc in ('s1', 's2', 's3', 's4', 's5', 's6', 's7', 's8', 's9', 's10', 'f1') for sd in seeds for nt in nthreads]

    def run_tsan(j):
        sc, sd, nt = j
        try:
            p = subprocess.run([tsan, sc, str(sd), str(nt), str(iters)], stdout=subprocess.PIPE, stderr=subprocess.PIPE,
                               universal_newlines=True, env=env, timeout=180)
        except subprocess.TimeoutExpired as e:
            return j, 124, 'FAIL hang: no progress within 180 s (deadlock or livelock)', (e.stderr or b'').decode('utf8', 'replace') if isinstance(e.stderr, bytes) else (e.stderr or '')
        return j, p.returncode, p.stdout, p.stderr
    import concurrent.futures as cf
    with cf.ThreadPoolExecutor(max(2, vlib.NPROC // 4)) as ex:
        tres = list(ex.map(run_tsan, jobs))
    races = 0
    for (sc, sd, nt), rc, out, err in tres:
        runs += 1
        if 'ThreadSanitizer' in err or rc != 0 or 'FAIL' in out:
            races += 1
            if races <= 2:
                head = [l for l in err.split('\n') if l.strip()][:40]
                path = vlib.write_replay(prop, tier, seed, 'tsan-%s-%d-%d' % (sc, sd, nt),
                                         ['verdict violation', 'failing schedule found by ThreadSanitizer (or a wrong result): '
                                          'h_conc_tsan %s %d %d %d' % (sc, sd, nt, iters),
                                          'build: g++ -std=c++17 -O1 -g -fsanitize=thread -I/repo/include harness/conc/h_conc.cpp -lpthread'],
                                         [l for l in out.split('\n') if 'FAIL' in l] + head)
                violations.append((path, False))
    # 3. instrumented lock: lock table + operations in critical-section order
    table = collections.Counter()
    unheld = collections.Counter()
    lin_fail = 0
    nops = 0
    hjobs = [(sc, sd, nt) for sc in ('s1', 's2', 's3', 's4', 's5', 's6', 's7', 's8', 's9', 's10', 'f1', 'l1') for sd in seeds for nt in nthreads]
    try:
        tmodel = vlib.build_lean(None, vlib.LEAN_DIR)
    except vlib.BuildError as e:
        tmodel = os.path.join(vlib.LEAN_DIR, '.lake', 'build', 'bin', 'tmodel')

    def run_hook(j):
        sc, sd, nt = j
        try:
            p = subprocess.run([hook, sc, str(sd), str(nt), str(60 if sc == 'l1' else iters)], stdout=subprocess.PIPE, stderr=subprocess.PIPE,
                               universal_newlines=True, timeout=180)
        except subprocess.TimeoutExpired:
            return j, 124, 'FAIL hang: no progress within 180 s (deadlock or livelock)', ''
        return j, p.returncode, p.stdout, p.stderr
    with cf.ThreadPoolExecutor(max(2, vlib.NPROC // 2)) as ex:
        hres = list(ex.map(run_hook, hjobs))
    for (sc, sd, nt), rc, out, err in hres:
        runs += 1
        ops = []
        for l in out.split('\n'):
            m = re.match(r'SITE (\S+) held=(\d+) unheld=(\d+)', l)
            if m:
                table[m.group(1)] += int(m.group(2))
                unheld[m.group(1)] += int(m.group(3))
                if int(m.group(3)) and len([v for v in violations if 'unheld' in v[0]]) < 2:
                    path = vlib.write_replay(prop, tier, seed, 'unheld-%s-%d-%d' % (sc, sd, nt),
                                             ['verdict violation', 'shared state accessed without the global lock at %s (%s times) in: '
                                              'h_conc_hook %s %d %d' % (m.group(1), m.group(3), sc, sd, nt),
                                              'build: g++ -std=c++17 -O1 -g -DTROMPELOEIL_VERIF -DTROMPELOEIL_CUSTOM_RECURSIVE_MUTEX -I/repo/include harness/conc/h_conc.cpp -lpthread'],
                                             [l])
                    violations.append((path, False))
            m = re.match(r'OP (\d+) (\d+) (.*)', l)
            if m:
                ops.append((int(m.group(1)), int(m.group(2)), m.group(3)))
        if rc != 0 or 'FAIL' in out:
            path = vlib.write_replay(prop, tier, seed, 'hook-%s-%d-%d' % (sc, sd, nt), ['verdict violation', 'wrong result in h_conc_hook %s %d %d' % (sc, sd, nt)],
                                     out.split('\n')[-20:])
            violations.append((path, False))
        if sc == 'l1' and ops:
            nops += len(ops)
            why = replay_linearization(tmodel, ops)
            if why:
                lin_fail += 1
                if lin_fail <= 2:
                    path = vlib.write_replay(prop, tier, seed, 'lin-%d-%d' % (sd, nt),
                                             ['verdict violation', 'the outcomes of this concurrent run are not those of executing the operations one at a '
                                              'time in critical-section order: ' + why, 'run: h_conc_hook l1 %d %d 60' % (sd, nt)],
                                             ['%d %d %s' % o for o in sorted(ops, key=lambda o: (o[1], o[0]))])
                    violations.append((path, False))
    # 4. regenerate the lock table and re-check the theorems over it
    gen = os.path.join(lean_dir, 'TrompModel', 'Gen', 'LockTable.lean')
    rows = ['  ("%s", %d, %d)' % (k, table[k], unheld[k]) for k in sorted(table)]
    text = ('/- GENERATED by tools/check.py (C12) from an instrumented run of /repo — do not edit. -/\nnamespace Tromp.Gen\n'
            '/-- (access site, times seen while the thread held the lock, times seen without) -/\n'
            'def lockTable : List (String × Nat × Nat) := [\n' + ',\n'.join(rows) + '\n]\nend Tromp.Gen\n')
    # only the set of sites and whether any access was unheld matter for the theorem; counts go to the evidence
    stable = ('/- GENERATED by tools/check.py (C12) from an instrumented run of /repo — do not edit. -/\nnamespace Tromp.Gen\n'
              '/-- (access site, 1 if it was seen while the thread held the lock, number of times it was seen without) -/\n'
              'def lockTable : List (String × Nat × Nat) := [\n' +
              ',\n'.join('  ("%s", %d, %d)' % (k, 1 if table[k] else 0, unheld[k]) for k in sorted(table)) + '\n]\nend Tromp.Gen\n')
    if not os.path.exists(gen) or open(gen).read() != stable:
        with open(gen, 'w') as f:
            f.write(stable)
    del text
    # 4b. the lexical lock coverage of the current source (tools/lockscope.py -> Gen/LockScopes.lean; theorems lexical_lock_coverage,
    #     lock_takers, run_actions_called_under_lock, critical_steps_locked of Props/C12.lean)
    import lockscope
    scopes = lockscope.generate(vlib.REPO, os.path.join(lean_dir, 'TrompModel', 'Gen', 'LockScopes.lean'))
    unguarded = ['%s (%s): %s' % (k, site, t) for k, site, sts in scopes for t, g in sts if not g]
    built = True
    try:
        vlib.build_lean(prop, lean_dir)
    except vlib.BuildError as e:
        built = False
        if not violations:
            path = vlib.write_replay(prop, tier, seed, 'lean-build',
                                     ['verdict tie-broken', 'broken lake build TrompModel.Props.C12 over the regenerated lock table / lexical lock scopes '
                                      '(theorems observed_accesses_all_held, lexical_lock_coverage, lock_takers, critical_steps_locked)',
                                      'functions taking the lock now: ' + ', '.join(k for k, _, _ in scopes),
                                      'statements outside every lock scope now:'] + ['  ' + u for u in unguarded],
                                     str(e).split('\n')[-40:])
            violations.append((path, True))
    audit = vlib.lean_audit(prop, lean_dir) if built else dict(obligations=0, discharged=0, theorems=[], problems=[])
    if audit['problems'] or audit['discharged'] != audit['obligations']:
        path = vlib.write_replay(prop, tier, seed, 'lean-audit', ['verdict tie-broken', 'broken proof audit'], audit['problems'])
        violations.append((path, True))
    wall = time.time() - t0
    cov = dict(
        obligations=audit['obligations'], discharged=audit['discharged'],
        checker_cmd='cd lean && lake build TrompModel.Props.C12 && lake env lean .lake/audit_C12.lean',
        trusted_base=TRUSTED_BASE + ['ThreadSanitizer (g++ 12.2) and the instrumented recursive mutex of the harness',
                                     'that the instrumented access sites are all the shared accesses (TSan is the cross-check)'],
        theorems=[dict(name=n, axioms=a) for n, a in audit['theorems']],
        programs=runs, traces_validated_against_impl=runs - races - lin_fail, disagreements_checked=races + lin_fail,
        evaluations=runs, distinct_nontrivial=runs,
        rule='each run is one (scenario, seed, thread count): 8 scenarios + forced critical-section schedules (f1) under ThreadSanitizer, the same + the linearization scenario with the '
             'instrumented lock; thread counts %s, %d seeds, %d iterations per thread' % (nthreads, len(seeds), iters),
        samples=['h_conc_tsan s2 %d 4 %d' % (seeds[0], iters), 'h_conc_hook l1 %d 8 60' % seeds[0]], exhaustive=False,
        lock_table={k: dict(held=table[k], unheld=unheld[k]) for k in sorted(table)},
        lexical_lock_scopes=dict(functions=[k + ' @' + site for k, site, _ in scopes], statements=sum(len(sts) for _, _, sts in scopes), outside_any_lock_scope=unguarded),
        linearization_operations_replayed=nops, notes=notes)
    vlib.write_evidence(prop, tier, seed, 'proof', cov,
                        ['the caller keeps the documented obligations (no object destroyed while another thread uses it; reporters/tracers not '
                         'installed concurrently with use)',
                         'partial: race-freedom and atomicity are PROVED FROM the lock discipline; that every execution obeys the discipline is observed '
                         '(hooks + TSan) on the explored schedules, not proved; deadlock freedom with user locks and custom mutexes is not covered'],
                        wall, len(violations))
    for path, nf in violations:
        print('VIOLATION property=%s replay=%s%s' % (prop, path, ' no-failing-input-found' if nf else ''))
    log('[%s] %s: %d runs, %d racy, %d linearization failures, %d ops replayed, %.0fs' % (prop, tier, runs, races, lin_fail, nops, wall))
    return 1 if violations else 0


def main():
    ap = argparse.ArgumentParser()
    ap.add_argument('prop')
    ap.add_argument('--tier', default=os.environ.get('VERIF_TIER', 'quick'))
    ap.add_argument('--replay')
    a = ap.parse_args()
    seed = os.environ.get('VERIF_SEED', '1')
    if a.prop in WORLD:
        return check_world(a.prop, a.tier, seed, a.replay)
    if a.prop in PURE:
        return PURE[a.prop](a.tier, seed, a.replay)
    print('unknown property', a.prop)
    return 2


if __name__ == '__main__':
    sys.exit(main())
