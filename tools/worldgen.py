#!/usr/bin/env python3
"""Script generators for the world harness (random, mostly-valid; and exhaustive small scopes).

A script is a list of op dicts with *symbolic* ids; `render` numbers ids in creation order
(the model's `legal` demands that fresh ids are the next counter value), so that the shrinker
can delete operations freely.
"""
import itertools
import os
import random
import sys

sys.path.insert(0, os.path.join(os.path.dirname(os.path.abspath(__file__)), '..', 'harness', 'world'))
import shapes as SH  # noqa: E402

INF = 'inf'
KINDS = ('mock', 'seq', 'exp', 'mon', 'w', 'tracer')

# ------------------------------------------------------------------------------------------
# rendering

CREATES = {'mock': ('mock', 'o'), 'seq': ('seq', 's'), 'expect': ('exp', 'e'), 'move': ('mock', 'o2'),
           'watched': ('w', 'x'), 'copyw': ('w', 'y'), 'movew': ('w', 'y'), 'monitor': ('mon', 'm'),
           'tracer': ('tracer', 't')}
USES = {
    'expect': [('mock', 'o'), ('seq*', 'S')], 'call': [('mock', 'o')], 'sat': [('exp', 'e')], 'satd': [('exp', 'e')],
    'release': [('exp', 'e')], 'releasek': [('exp', 'e'), ('mock', 'o')], 'move': [('mock', 'o')], 'kill': [('mock', 'o')], 'killseq': [('seq', 's')],
    'completed': [('seq', 's')], 'copyw': [('w', 'x')], 'movew': [('w', 'x')], 'assignw': [('w', 'd'), ('w', 's')],
    'killw': [('w', 'x')], 'monitor': [('w', 'x'), ('seq*', 'S')], 'msat': [('mon', 'm')], 'msatd': [('mon', 'm')],
    'releasemon': [('mon', 'm')], 'killtracer': [('tracer', 't')],
}


def render(ops):
    """-> list of lines, or None if an op refers to an id that is never created before it."""
    num = {k: {} for k in KINDS}
    lines = []
    for op in ops:
        name = op['op']
        for kind, field in USES.get(name, []):
            if kind == 'seq*':
                for s in op[field]:
                    if s not in num['seq']:
                        return None
            elif op[field] not in num[kind]:
                return None
        if name == 'expect':
            for x in op['X']:
                if not isinstance(x, str) and x[1] not in num['mock']:
                    return None
        if name in CREATES:
            kind, field = CREATES[name]
            if op[field] in num[kind]:
                return None
            num[kind][op[field]] = len(num[kind])
        n = lambda kind, v: str(num[kind][v])  # noqa: E731
        if name == 'mock':
            lines.append('mock %s %d' % (n('mock', op['o']), 1 if op['movable'] else 0))
        elif name == 'seq':
            lines.append('seq ' + n('seq', op['s']))
        elif name == 'expect':
            lines.append(' '.join(
                ['expect', n('exp', op['e']), n('mock', op['o']), str(op['fn']), 'P'] + op['P'] + ['W'] + op['W'] +
                ['X'] + [x if isinstance(x, str) else 'call:%s:%d:%s' % (n('mock', x[1]), x[2], ':'.join(str(v) for v in x[3]))
                         for x in op['X']] + ['R', op['R'], 'T', str(op['lo']), str(op['hi']), '1' if op['rt'] else '0', 'S'] +
                [n('seq', s) for s in op['S']] + ['O', str(op['tk']), str(op['sf']), str(op.get('rc', 0))]))
        elif name == 'call':
            lines.append(' '.join(['call', n('mock', op['o']), str(op['fn'])] + [str(a) for a in op['a']]))
        elif name in ('sat', 'satd', 'release'):
            lines.append('%s %s' % (name, n('exp', op['e'])))
        elif name == 'releasek':
            lines.append('releasek %s %s' % (n('exp', op['e']), n('mock', op['o'])))
        elif name == 'move':
            lines.append('move %s %s' % (n('mock', op['o']), n('mock', op['o2'])))
        elif name == 'kill':
            lines.append('kill ' + n('mock', op['o']))
        elif name in ('killseq', 'completed'):
            lines.append('%s %s' % (name, n('seq', op['s'])))
        elif name == 'watched':
            lines.append('watched ' + n('w', op['x']))
        elif name in ('copyw', 'movew'):
            lines.append('%s %s %s' % (name, n('w', op['x']), n('w', op['y'])))
        elif name == 'assignw':
            lines.append('assignw %s %s' % (n('w', op['d']), n('w', op['s'])))
        elif name == 'killw':
            lines.append('killw ' + n('w', op['x']))
        elif name == 'monitor':
            lines.append(' '.join(['monitor', n('mon', op['m']), n('w', op['x'])] + [n('seq', s) for s in op['S']]))
        elif name in ('msat', 'msatd', 'releasemon'):
            lines.append('%s %s' % (name, n('mon', op['m'])))
        elif name == 'tracer':
            lines.append('tracer ' + n('tracer', op['t']))
        elif name == 'killtracer':
            lines.append('killtracer ' + n('tracer', op['t']))
        elif name == 'setreporter':
            lines.append('setreporter %d' % op['r'] if op.get('k') is None else 'setreporter %d %d' % (op['r'], op['k']))
        else:
            raise ValueError(name)
    return lines


# ------------------------------------------------------------------------------------------
# random generator

PROFILES = {
    # weights of operation families
    'general':  dict(expect=10, call=16, query=4, release=4, mockops=2, seqops=2, watch=3, tracer=1, reporter=0.5),
    'match':    dict(expect=10, call=20, query=4, release=4, mockops=3, seqops=0.5, watch=0, tracer=0, reporter=0),
    'seq':      dict(expect=9, call=18, query=5, release=3, mockops=1, seqops=4, watch=4, tracer=0, reporter=0),
    'life':     dict(expect=6, call=6, query=3, release=6, mockops=5, seqops=4, watch=8, tracer=3, reporter=0.5),
    'watch':    dict(expect=2, call=3, query=4, release=1, mockops=0.5, seqops=3, watch=14, tracer=0, reporter=0),
    'trace':    dict(expect=7, call=16, query=1, release=2, mockops=1, seqops=1, watch=0, tracer=6, reporter=3),
    'actions':  dict(expect=10, call=20, query=1, release=2, mockops=1, seqops=1, watch=0, tracer=1, reporter=0),
    # re-entrant side effects: an expectation's SIDE_EFFECT calls another mock function (of higher index, so nesting ends)
    'nest':     dict(expect=10, call=20, query=2, release=2, mockops=0.5, seqops=1, watch=0, tracer=3, reporter=0.5),
}

RT_BOUNDS = [(0, 0), (1, 1), (1, 1), (0, 1), (1, 2), (2, 2), (0, INF), (1, INF), (2, 3), (0, 2), (2, 1), (3, 1)]
CONDS = ['t', 't', 'f', 'mod:0:2:0', 'mod:0:2:1', 'gt:0:1']
PMS = ['_', '_', 'eq:0', 'eq:1', 'eq:2', 'ne:1', 'lt:2', 'gt:0', 'le:1', 'ge:2']


class Gen:
    def __init__(self, rng, profile='general', seq_bias=None):
        self.r = rng
        self.w = PROFILES[profile]
        self.profile = profile
        self.ops = []
        self.cnt = {k: 0 for k in KINDS}
        self.mocks = {}       # id -> movable
        self.seqs = set()
        self.exps = {}        # id -> dict(o, fn)
        self.mons = {}        # id -> x
        self.watched = set()
        self.tracers = []
        self.seq_bias = seq_bias

    def fresh(self, kind):
        v = self.cnt[kind]
        self.cnt[kind] += 1
        return v

    def emit(self, **op):
        self.ops.append(op)

    def new_mock(self, movable=None):
        o = self.fresh('mock')
        mv = self.r.random() < 0.8 if movable is None else movable
        self.mocks[o] = mv
        self.emit(op='mock', o=o, movable=mv)
        return o

    def new_seq(self):
        s = self.fresh('seq')
        self.seqs.add(s)
        self.emit(op='seq', s=s)
        return s

    def pick_shape(self, movable):
        r = self.r
        cand = SH.SHAPES if movable else [s for s in SH.SHAPES if SH.nonmovable(s)]
        if self.profile in ('seq', 'watch', 'life'):
            seqd = [s for s in cand if s['nsq'] > 0]
            if seqd and r.random() < 0.7:
                cand = seqd
        elif self.profile == 'nest':
            act = [s for s in cand if (s['ns'] >= 1 and s['fn'] < 3) or s['fn'] >= 2]
            if act and r.random() < 0.8:
                cand = act
        elif self.profile == 'actions':
            act = [s for s in cand if s['nw'] + s['ns'] >= 2]
            if act and r.random() < 0.7:
                cand = act
        elif self.profile == 'match':
            fn1 = [s for s in cand if s['fn'] == 1 and s['nsq'] == 0]
            if fn1 and r.random() < 0.6:
                cand = fn1
        return r.choice(cand)

    def do_expect(self):
        r = self.r
        if not self.mocks or r.random() < 0.08:
            if len(self.mocks) < 3:
                self.new_mock()
        if not self.mocks:
            self.new_mock()
        o = r.choice(list(self.mocks))
        sh = self.pick_shape(self.mocks[o])
        while len(self.seqs) < sh['nsq'] or (sh['nsq'] and len(self.seqs) < 2 and r.random() < 0.3):
            self.new_seq()
        e = self.fresh('exp')
        fn = sh['fn']
        P = [r.choice(PMS) for _ in range(SH.FN_ARITY[fn])]
        W = [r.choice(CONDS) for _ in range(sh['nw'])]
        if fn == 2:
            W = [w if r.random() < 0.7 else 'gt:1:0' for w in W]
        X = [('log' if r.random() < 0.85 else r.choice(['std', 'other'])) for _ in range(sh['ns'])]
        pnest = {'nest': 0.7, 'actions': 0.12, 'trace': 0.12}.get(self.profile, 0.0)
        if sh['ns'] and fn < 3 and r.random() < pnest:
            fn2 = r.randrange(fn + 1, 4)
            X[r.randrange(sh['ns'])] = ('call', o if r.random() < 0.8 else r.choice(list(self.mocks)), fn2,
                                        [r.choice([0, 1, 2]) for _ in range(SH.FN_ARITY[fn2])])
        rc = 0
        if sh['rk'] == 'none':
            R = 'none'
        elif sh['rk'] == 'throw':
            R = r.choice(['std', 'other'])
        else:
            q = r.random()
            if q < 0.75:
                R = 'val:%d' % (100 + e)
            elif q < 0.9:
                R = 'arg:%d' % r.randrange(SH.FN_ARITY[fn])
            else:
                R = r.choice(['std', 'other'])
                rc = 1
        tk = sh['tk']
        if tk == 1:
            lo, hi = r.choice(RT_BOUNDS)
            rt = True
        else:
            lo, hi = SH.TK_BOUNDS[tk]
            rt = False
        S = r.sample(sorted(self.seqs), sh['nsq'])
        self.emit(op='expect', e=e, o=o, fn=fn, P=P, W=W, X=X, R=R, lo=lo, hi=hi, rt=rt, S=S, tk=tk, sf=sh['sf'], rc=rc)
        if not (rt and hi != INF and lo != INF and hi < lo):
            self.exps[e] = dict(o=o, fn=fn)

    def do_call(self):
        r = self.r
        if not self.mocks:
            return self.do_expect()
        # prefer functions that have expectations
        live = [(x['o'], x['fn']) for x in self.exps.values() if x['o'] in self.mocks]
        if live and r.random() < 0.9:
            o, fn = r.choice(live)
        else:
            o = r.choice(list(self.mocks))
            fn = r.randrange(4)
        a = [r.choice([0, 1, 2, 2, 3]) for _ in range(SH.FN_ARITY[fn])]
        self.emit(op='call', o=o, fn=fn, a=a)

    def do_query(self):
        r = self.r
        choices = []
        if self.exps:
            choices += ['sat', 'satd']
        if self.seqs:
            choices += ['completed']
        if self.mons:
            choices += ['msat', 'msatd']
        if not choices:
            return
        c = r.choice(choices)
        if c in ('sat', 'satd'):
            self.emit(op=c, e=r.choice(list(self.exps)))
        elif c == 'completed':
            self.emit(op=c, s=r.choice(sorted(self.seqs)))
        else:
            self.emit(op=c, m=r.choice(list(self.mons)))

    def do_release(self):
        if not self.exps:
            return
        e = self.r.choice(list(self.exps))
        owner = self.exps[e]['o']
        del self.exps[e]
        if self.mocks and self.r.random() < 0.12:
            # the reporter tears the fixture down while it is handed this expectation's end-of-life report (if there is one)
            o = owner if owner in self.mocks and self.r.random() < 0.7 else self.r.choice(list(self.mocks))
            del self.mocks[o]
            self.emit(op='releasek', e=e, o=o)
            return
        self.emit(op='release', e=e)

    def do_mockops(self):
        r = self.r
        if not self.mocks:
            return self.new_mock()
        q = r.random()
        o = r.choice(list(self.mocks))
        if q < 0.35:
            self.new_mock() if len(self.mocks) < 4 else None
        elif q < 0.7 and self.mocks[o]:
            o2 = self.fresh('mock')
            self.mocks[o2] = True
            for x in self.exps.values():
                if x['o'] == o:
                    x['o'] = o2
            self.emit(op='move', o=o, o2=o2)
        else:
            del self.mocks[o]
            self.emit(op='kill', o=o)

    def do_seqops(self):
        r = self.r
        q = r.random()
        if q < 0.5 or not self.seqs:
            if len(self.seqs) < 3:
                self.new_seq()
        elif q < 0.8:
            self.emit(op='completed', s=r.choice(sorted(self.seqs)))
        else:
            s = r.choice(sorted(self.seqs))
            self.seqs.discard(s)
            self.emit(op='killseq', s=s)

    def do_watch(self):
        r = self.r
        q = r.random()
        if not self.watched or q < 0.15:
            if len(self.watched) < 3:
                x = self.fresh('w')
                self.watched.add(x)
                self.emit(op='watched', x=x)
            return
        x = r.choice(sorted(self.watched))
        if q < 0.45:
            m = self.fresh('mon')
            k = r.choice([0, 0, 1, 1, 2])
            k = min(k, len(self.seqs))
            S = r.sample(sorted(self.seqs), k)
            self.mons[m] = x
            self.emit(op='monitor', m=m, x=x, S=S)
        elif q < 0.6:
            self.watched.discard(x)
            self.emit(op='killw', x=x)
        elif q < 0.72 and self.mons:
            m = r.choice(list(self.mons))
            del self.mons[m]
            self.emit(op='releasemon', m=m)
        elif q < 0.8:
            y = self.fresh('w')
            self.watched.add(y)
            self.emit(op=r.choice(['copyw', 'movew']), x=x, y=y)
        elif q < 0.88:
            s = r.choice(sorted(self.watched))
            self.emit(op='assignw', d=x, s=s)
        elif self.mons:
            self.emit(op=r.choice(['msat', 'msatd']), m=r.choice(list(self.mons)))

    def do_tracer(self):
        r = self.r
        if self.tracers and r.random() < 0.45:
            # mostly LIFO, sometimes any order
            t = self.tracers[-1] if r.random() < 0.6 else r.choice(self.tracers)
            self.tracers.remove(t)
            self.emit(op='killtracer', t=t)
        elif len(self.tracers) < 3:
            t = self.fresh('tracer')
            self.tracers.append(t)
            self.emit(op='tracer', t=t)

    def do_reporter(self):
        # set_reporter(f) replaces the violation reporter only, set_reporter(f, ok_f) both
        self.emit(op='setreporter', r=self.r.randrange(1, 4), k=(None if self.r.random() < 0.5 else self.r.randrange(1, 4)))

    def run(self, nops):
        fams = list(self.w.items())
        names = [f for f, _ in fams]
        weights = [w for _, w in fams]
        table = {'expect': self.do_expect, 'call': self.do_call, 'query': self.do_query, 'release': self.do_release,
                 'mockops': self.do_mockops, 'seqops': self.do_seqops, 'watch': self.do_watch,
                 'tracer': self.do_tracer, 'reporter': self.do_reporter}
        self.new_mock(True if self.r.random() < 0.85 else None)
        while len(self.ops) < nops:
            f = self.r.choices(names, weights)[0]
            table[f]()
        return self.ops


def random_script(seed, profile, nops):
    return Gen(random.Random(seed), profile).run(nops)


# ------------------------------------------------------------------------------------------
# exhaustive small scopes

def _exp(e, o, fn, P, lo, hi, S, R=None, W=(), X=(), rt=True, tk=1, sf=1):
    if R is None:
        R = 'val:%d' % (100 + e) if not SH.FN_VOID[fn] else 'none'
    if not S:
        sf = 0
    return dict(op='expect', e=e, o=o, fn=fn, P=list(P), W=list(W), X=list(X), R=R, lo=lo, hi=hi, rt=rt, S=list(S),
                tk=tk, sf=sf, rc=0)


def enum_seq(n_exp, bounds, max_len, with_monitor=False, overlap=False, sample=None, rng=None):
    """C05/C06: n_exp expectations on fi(int) over two sequences, every membership, every bound
    assignment, every call/release/killseq order up to max_len; `completed` after every step."""
    subsets = [[], [0], [1], [0, 1], [1, 0]]
    alphabet = [('call', i) for i in range(n_exp)] + [('release', i) for i in range(n_exp)] + [('killseq', 0)]
    if with_monitor:
        alphabet += [('killw', 0)]
    monopts = [[], [0], [1], [0, 1]] if with_monitor else [None]
    configs = itertools.product(itertools.product(subsets, repeat=n_exp), itertools.product(bounds, repeat=n_exp),
                                monopts)
    configs = list(configs)
    seqs_ops = []
    for L in range(1, max_len + 1):
        seqs_ops += list(itertools.product(alphabet, repeat=L))
    total = len(configs) * len(seqs_ops)
    if sample is not None and sample < total:
        picks = (( rng.choice(configs), rng.choice(seqs_ops)) for _ in range(sample))
    else:
        picks = itertools.product(configs, seqs_ops)
    for (membs, bnds, monS), acts in picks:
        ops = [dict(op='mock', o=0, movable=True), dict(op='seq', s=0), dict(op='seq', s=1)]
        if with_monitor:
            ops.append(dict(op='watched', x=0))
        mon_at = n_exp // 2 if with_monitor and monS is not None else None
        for i in range(n_exp):
            if mon_at == i and monS is not None:
                ops.append(dict(op='monitor', m=0, x=0, S=list(monS)))
            P = ['_'] if overlap else ['eq:%d' % i]
            S = membs[i]
            nsq = len(S)
            ops.append(_exp(i, 0, 1, P, bnds[i][0], bnds[i][1], S, tk=1, sf=1 if nsq else 0))
        alive_e = set(range(n_exp))
        alive_s = {0, 1}
        alive_w = {0} if with_monitor else set()
        ok = True
        for (k, i) in acts:
            if k == 'call':
                ops.append(dict(op='call', o=0, fn=1, a=[i]))
            elif k == 'release':
                if i not in alive_e:
                    ok = False
                    break
                alive_e.discard(i)
                ops.append(dict(op='release', e=i))
            elif k == 'killseq':
                if i not in alive_s:
                    ok = False
                    break
                alive_s.discard(i)
                ops.append(dict(op='killseq', s=i))
            elif k == 'killw':
                if i not in alive_w:
                    ok = False
                    break
                alive_w.discard(i)
                ops.append(dict(op='killw', x=i))
            for s in sorted(alive_s):
                ops.append(dict(op='completed', s=s))
            for e in sorted(alive_e):
                ops.append(dict(op='sat', e=e))
        if ok:
            yield ops


def enum_bounds(max_h=3):
    """C03: every 0 <= L <= H <= max_h and H = inf, RT_TIMES (incl. inverted) and static forms,
    alone / stacked under a newer / over an older overlapping expectation; n <= H+2 calls."""
    bl = [(lo, hi) for hi in list(range(0, max_h + 1)) for lo in range(0, hi + 1)] + [(0, INF), (1, INF), (2, INF)]
    inv = [(1, 0), (2, 1), (3, 0)]
    static = [(0, (1, 1)), (2, (0, 0)), (3, (0, INF)), (4, (1, INF)), (5, (2, 2)), (6, (0, 1))]
    for stack in ('alone', 'newer', 'older'):
        forms = [(1, b, True) for b in bl + inv] + [(tk, b, False) for tk, b in static]
        for tk, (lo, hi), rt in forms:
            ops = [dict(op='mock', o=0, movable=True)]
            eid = 0
            if stack == 'older':
                ops.append(_exp(eid, 0, 1, ['_'], 0, INF, [], rt=False, tk=3, sf=0))
                eid += 1
            target = eid
            R = 'none' if (tk == 2) else None
            ops.append(_exp(eid, 0, 1, ['_'], lo, hi, [], rt=rt, tk=tk, sf=0, R=R))
            eid += 1
            inverted = rt and hi != INF and hi < lo
            if stack == 'newer':
                ops.append(_exp(eid, 0, 1, ['eq:9'], 0, INF, [], rt=False, tk=3, sf=0))
                eid += 1
            ncalls = (max_h if hi == INF else hi) + 2
            for _ in range(ncalls):
                ops.append(dict(op='call', o=0, fn=1, a=[1]))
                if not inverted:
                    ops.append(dict(op='sat', e=target))
                    ops.append(dict(op='satd', e=target))
            if not inverted:
                ops.append(dict(op='release', e=target))
            ops.append(dict(op='kill', o=0))
            yield ops


def enum_cost3(rng=None, sample=None):
    """C02 (seed C02-m9): three expectations that all accept the call, each in its own sequence behind 0..3 optional steps or
    one required step (cost 0, 1, 2, 3, blocked), every combination and both creation orders of the predecessors; then the call,
    queries, and further calls.  The selection depends on the costs of ALL candidates, not of neighbouring ones only."""
    kinds = [0, 1, 2, 3, 'B']
    combos = list(itertools.product(kinds, repeat=3))
    tails = [['call'], ['call', 'call'], ['call', 'q', 'call', 'call']]
    picks = list(itertools.product(combos, tails))
    if sample is not None and sample < len(picks):
        picks = rng.sample(picks, sample)
    for cs, tail in picks:
        ops = [dict(op='mock', o=0, movable=True)] + [dict(op='seq', s=j) for j in range(3)]
        eid = 0
        pv = 10
        for j, c in enumerate(cs):
            n = 1 if c == 'B' else c
            for _ in range(n):
                if c == 'B':
                    ops.append(_exp(eid, 0, 0, ['eq:%d' % pv], 1, 1, [j], rt=False, tk=0, sf=0, R='none'))
                else:
                    ops.append(_exp(eid, 0, 0, ['eq:%d' % pv], 0, INF, [j], rt=False, tk=3, sf=0, R='none'))
                eid += 1
                pv += 1
        targets = []
        for j in range(3):
            ops.append(_exp(eid, 0, 1, ['_'], 1, 1, [j], rt=False, tk=0, sf=0, R='val:%d' % (100 + j)))
            targets.append(eid)
            eid += 1
        for t in tail:
            if t == 'call':
                ops.append(dict(op='call', o=0, fn=1, a=[1]))
            else:
                for e in targets:
                    ops.append(dict(op='sat', e=e))
                    ops.append(dict(op='satd', e=e))
                for j in range(3):
                    ops.append(dict(op='completed', s=j))
        for e in range(eid):
            ops.append(dict(op='release', e=e))
        yield ops


def enum_lifetimes(rng=None, sample=None):
    """C04: 1–2 expectations × bounds × counts × every order of {release, kill, move-then-kill,
    earlier no-match listing, earlier forbidden report, saturation}."""
    bounds = [(0, 0), (0, INF), (1, 1), (2, 3), (1, 2)]
    acts = ['call_hit', 'call_miss', 'release0', 'release1', 'kill', 'move', 'sat0', 'satd0', 'releasek0', 'releasek1']
    seqs_ops = []
    for L in range(1, 5):
        seqs_ops += list(itertools.product(acts, repeat=L))
    cfgs = list(itertools.product(bounds, bounds + [None]))
    picks = itertools.product(cfgs, seqs_ops)
    if sample is not None:
        picks = ((rng.choice(cfgs), rng.choice(seqs_ops)) for _ in range(sample))
    for (b0, b1), a in picks:
        ops = [dict(op='mock', o=0, movable=True)]
        ops.append(_exp(0, 0, 1, ['eq:1'], b0[0], b0[1], []))
        alive = {0}
        if b1 is not None:
            ops.append(_exp(1, 0, 1, ['lt:2'], b1[0], b1[1], [], W=['mod:0:2:1'], tk=1, sf=0))
            alive.add(1)
        mock = 0
        nm = 1
        ok = True
        for k in a:
            if k == 'call_hit':
                if mock is None:
                    ok = False
                    break
                ops.append(dict(op='call', o=mock, fn=1, a=[1]))
            elif k == 'call_miss':
                if mock is None:
                    ok = False
                    break
                ops.append(dict(op='call', o=mock, fn=1, a=[0]))
            elif k in ('release0', 'release1'):
                e = int(k[-1])
                if e not in alive:
                    ok = False
                    break
                alive.discard(e)
                ops.append(dict(op='release', e=e))
            elif k in ('releasek0', 'releasek1'):
                # release with a reporter that destroys the mock from inside the report
                e = int(k[-1])
                if e not in alive or mock is None:
                    ok = False
                    break
                alive.discard(e)
                ops.append(dict(op='releasek', e=e, o=mock))
                mock = None
            elif k == 'kill':
                if mock is None:
                    ok = False
                    break
                ops.append(dict(op='kill', o=mock))
                mock = None
            elif k == 'move':
                if mock is None:
                    ok = False
                    break
                ops.append(dict(op='move', o=mock, o2=nm))
                ops.append(dict(op='kill', o=mock))
                mock = nm
                nm += 1
            elif k in ('sat0', 'satd0'):
                if 0 not in alive:
                    ok = False
                    break
                ops.append(dict(op=k[:-1], e=0))
        if not ok:
            continue
        for e in sorted(alive):
            ops.append(dict(op='release', e=e))
        if mock is not None:
            ops.append(dict(op='kill', o=mock))
        yield ops


def enum_watch(max_len=6, with_seq=False, rng=None, sample=None):
    """C13: <= 2 watched objects, <= 2 monitors each, every order of {create monitor, release monitor,
    destroy object, copy/move-construct, assign}."""
    acts = ['mon0', 'mon1', 'rel_oldest', 'rel_newest', 'killw0', 'killw1', 'copy0', 'move0', 'assign01', 'assign10',
            'msat']
    seqs_ops = []
    for L in range(1, max_len + 1):
        seqs_ops.append(L)
    def all_scripts():
        for L in range(1, max_len + 1):
            for a in itertools.product(acts, repeat=L):
                yield a
    if sample is not None:
        it = (tuple(rng.choice(acts) for _ in range(rng.randint(1, max_len))) for _ in range(sample))
    else:
        it = all_scripts()
    for a in it:
        ops = [dict(op='watched', x=0), dict(op='watched', x=1)]
        if with_seq:
            ops.insert(0, dict(op='seq', s=0))
        alive_w = {0, 1}
        mons = []      # live monitor ids, creation order
        nmon = 0
        nw = 2
        per = {0: 0, 1: 0}
        ok = True
        for k in a:
            if k in ('mon0', 'mon1'):
                x = int(k[-1])
                if x not in alive_w or per[x] >= 2:
                    ok = False
                    break
                per[x] += 1
                ops.append(dict(op='monitor', m=nmon, x=x, S=[0] if with_seq else []))
                mons.append(nmon)
                nmon += 1
            elif k in ('rel_oldest', 'rel_newest'):
                if not mons:
                    ok = False
                    break
                m = mons.pop(0 if k == 'rel_oldest' else -1)
                ops.append(dict(op='releasemon', m=m))
            elif k in ('killw0', 'killw1'):
                x = int(k[-1])
                if x not in alive_w:
                    ok = False
                    break
                alive_w.discard(x)
                ops.append(dict(op='killw', x=x))
            elif k in ('copy0', 'move0'):
                if 0 not in alive_w or nw >= 4:
                    ok = False
                    break
                ops.append(dict(op='copyw' if k == 'copy0' else 'movew', x=0, y=nw))
                ops.append(dict(op='killw', x=nw))
                nw += 1
            elif k in ('assign01', 'assign10'):
                if alive_w != {0, 1}:
                    ok = False
                    break
                ops.append(dict(op='assignw', d=int(k[-2]), s=int(k[-1])))
            elif k == 'msat':
                if not mons:
                    ok = False
                    break
                for m in mons:
                    ops.append(dict(op='msat', m=m))
                    ops.append(dict(op='msatd', m=m))
        if not ok:
            continue
        for m in mons:
            ops.append(dict(op='msat', m=m))
        for m in reversed(mons):
            ops.append(dict(op='releasemon', m=m))
        for x in sorted(alive_w):
            ops.append(dict(op='killw', x=x))
        if with_seq:
            ops.append(dict(op='killseq', s=0))
        yield ops


def enum_tracers(rng=None, sample=None):
    """C17: every creation/destruction order of <= 3 tracers interleaved with calls that return a value,
    return void, throw std, throw other."""
    acts = ['t+', 't-new', 't-old', 'cv', 'cvoid', 'cstd', 'cother', 'cmiss']
    def all_scripts():
        for L in range(1, 6):
            for a in itertools.product(acts, repeat=L):
                yield a
    it = all_scripts() if sample is None else (tuple(rng.choice(acts) for _ in range(rng.randint(2, 7))) for _ in range(sample))
    for a in it:
        ops = [dict(op='mock', o=0, movable=True),
               _exp(0, 0, 1, ['eq:1'], 0, INF, [], rt=False, tk=3, sf=0),
               _exp(1, 0, 0, ['eq:1'], 0, INF, [], rt=False, tk=3, sf=0, R='none'),
               _exp(2, 0, 1, ['eq:2'], 0, INF, [], rt=False, tk=3, sf=0, R='std'),
               _exp(3, 0, 1, ['eq:3'], 0, INF, [], rt=False, tk=3, sf=0, R='other')]
        ops[3]['rc'] = 0
        ops[4]['rc'] = 0
        # R std/other with rk 'throw' shapes: (fn1,0,0,'throw',3,0,0) exists
        live = []
        nt = 0
        ok = True
        for k in a:
            if k == 't+':
                if nt >= 3:
                    ok = False
                    break
                ops.append(dict(op='tracer', t=nt))
                live.append(nt)
                nt += 1
            elif k in ('t-new', 't-old'):
                if not live:
                    ok = False
                    break
                t = live.pop(-1 if k == 't-new' else 0)
                ops.append(dict(op='killtracer', t=t))
            elif k == 'cv':
                ops.append(dict(op='call', o=0, fn=1, a=[1]))
            elif k == 'cvoid':
                ops.append(dict(op='call', o=0, fn=0, a=[1]))
            elif k == 'cstd':
                ops.append(dict(op='call', o=0, fn=1, a=[2]))
            elif k == 'cother':
                ops.append(dict(op='call', o=0, fn=1, a=[3]))
            elif k == 'cmiss':
                ops.append(dict(op='call', o=0, fn=1, a=[0]))
        if not ok:
            continue
        for t in reversed(live):
            ops.append(dict(op='killtracer', t=t))
        yield ops


def enum_forbid(rng=None, sample=None):
    """C07: stackings of <= 2 allowing and <= 2 forbidding expectations with matchers from
    {_, eq:1, lt:2}, every creation order and lifetime nesting, arguments {0,1,2}, repeated calls."""
    pms = ['_', 'eq:1', 'lt:2']
    kinds = ['allow', 'forbid', 'rtforbid']
    cfgs = []
    for n in (1, 2, 3):
        for ks in itertools.product(kinds, repeat=n):
            if ks.count('allow') > 2 or (ks.count('forbid') + ks.count('rtforbid')) > 2 or \
               (ks.count('forbid') + ks.count('rtforbid')) == 0:
                continue
            for ps in itertools.product(pms, repeat=n):
                cfgs.append((ks, ps))
    acts = ['c0', 'c1', 'c2', 'c1', 'rel_new', 'rel_old', 'q']
    def scripts():
        for L in range(1, 5):
            for a in itertools.product(sorted(set(acts)), repeat=L):
                yield a
    allacts = list(scripts())
    picks = itertools.product(cfgs, allacts)
    if sample is not None:
        picks = ((rng.choice(cfgs), rng.choice(allacts)) for _ in range(sample))
    for (ks, ps), a in picks:
        ops = [dict(op='mock', o=0, movable=True)]
        for i, (k, p) in enumerate(zip(ks, ps)):
            if k == 'allow':
                ops.append(_exp(i, 0, 1, [p], 0, INF, [], rt=False, tk=3, sf=0))
            elif k == 'forbid':
                ops.append(_exp(i, 0, 1, [p], 0, 0, [], rt=False, tk=2, sf=0, R='none'))
            else:
                ops.append(_exp(i, 0, 1, [p], 0, 0, [], rt=True, tk=1, sf=0, X=['log']))
        live = list(range(len(ks)))
        ok = True
        for k in a:
            if k[0] == 'c':
                ops.append(dict(op='call', o=0, fn=1, a=[int(k[1])]))
            elif k in ('rel_new', 'rel_old'):
                if not live:
                    ok = False
                    break
                e = live.pop(-1 if k == 'rel_new' else 0)
                ops.append(dict(op='release', e=e))
            else:
                for e in live:
                    ops.append(dict(op='sat', e=e))
                    ops.append(dict(op='satd', e=e))
        if not ok:
            continue
        for e in reversed(live):
            ops.append(dict(op='release', e=e))
        ops.append(dict(op='kill', o=0))
        yield ops


def enum_actions(rng=None, sample=None):
    """C08: 0–3 WITH × 0–3 SIDE_EFFECT (the compiled shapes), throwing clause at every position,
    failing WITH at every position, value / void functions, repeated calls, two stacked expectations."""
    pairs = [(0, 0), (1, 0), (0, 1), (1, 1), (2, 2), (3, 0), (0, 3), (2, 1)]
    out = []
    for (nw, ns) in pairs:
        wopts = list(itertools.product(['t', 'f', 'mod:0:2:1'], repeat=nw))
        xopts = [tuple('log' for _ in range(ns))]
        for pos in range(ns):
            for kind in ('std', 'other'):
                xopts.append(tuple(kind if i == pos else 'log' for i in range(ns)))
        for W in wopts:
            for X in xopts:
                for R in ('val', 'arg:0', 'std'):
                    out.append((nw, ns, W, X, R))
    picks = out if sample is None else [rng.choice(out) for _ in range(sample)]
    for (nw, ns, W, X, R) in picks:
        ops = [dict(op='mock', o=0, movable=True),
               _exp(0, 0, 1, ['_'], 0, INF, [], rt=False, tk=3, sf=0, R='val:100')]
        e = _exp(1, 0, 1, ['lt:3'], 0, INF, [], rt=False, tk=3, sf=0, W=W, X=X,
                 R=('val:101' if R == 'val' else R))
        if R == 'std':
            e['rc'] = 1
        ops.append(e)
        for a in (1, 2, 1, 3):
            ops.append(dict(op='call', o=0, fn=1, a=[a]))
        ops.append(dict(op='release', e=1))
        ops.append(dict(op='call', o=0, fn=1, a=[1]))
        yield ops


def enum_nested(rng=None, sample=None):
    """re-entrant calls: the outer expectation on fi(int) (fn 1) has 1-2 side effects one of which calls g(int,int)
    (fn 2) or fi(long) (fn 3) of the same or another mock; inner expectation: allowing / exactly once / forbidding /
    absent / throwing; with and without a tracer, with outer and inner in one sequence in both orders; repeated calls."""
    out = []
    for ns, pos in ((1, 0), (3, 0), (3, 1), (3, 2)):
        for inner_fn in (2, 3):
            for inner in ('allow', 'once', 'forbid', 'absent', 'throws', 'nomatch'):
                for other_mock in (False, True):
                    for tracer in (False, True):
                        for seq in ('none', 'outer-first', 'inner-first'):
                            for outer_tail in ('log', 'std'):
                                out.append((ns, pos, inner_fn, inner, other_mock, tracer, seq, outer_tail))
    picks = out if sample is None else [rng.choice(out) for _ in range(sample)]
    for (ns, pos, inner_fn, inner, other_mock, tracer, seq, outer_tail) in picks:
        if seq != 'none' and inner_fn == 3:
            continue                      # no sequenced shape is compiled for fi(long)
        if seq != 'none' and ns != 1:
            continue
        ops = [dict(op='mock', o=0, movable=True)]
        tgt = 0
        if other_mock:
            ops.append(dict(op='mock', o=1, movable=True))
            tgt = 1
        S = []
        if seq != 'none':
            ops.append(dict(op='seq', s=0))
            S = [0]
        if tracer:
            ops.append(dict(op='tracer', t=0))
        args = [1, 2] if inner_fn == 2 else [1]
        X = ['log'] * ns
        X[pos] = ('call', tgt, inner_fn, args)
        if ns == 3 and pos < 2 and outer_tail == 'std':
            X[2] = 'std'
        if ns == 1:
            outer = _exp(0, 0, 1, ['_'], 0, INF if not S else 2, S, X=X, rt=bool(S), tk=1 if S else 3, sf=1 if S else 0, R='val:100')
        else:
            outer = _exp(0, 0, 1, ['_'], 0, INF, [], X=X, rt=False, tk=3, sf=0, R='val:100')
        P = ['_', '_'] if inner_fn == 2 else ['_']
        if inner == 'nomatch':
            P = ['eq:7'] + P[1:]
        inner_exp = None
        if inner == 'allow':
            inner_exp = _exp(1, tgt, inner_fn, P, 0, INF if not S else 2, S if inner_fn == 2 else [], rt=bool(S) and inner_fn == 2,
                             tk=1 if (S and inner_fn == 2) else 3, sf=1 if (S and inner_fn == 2) else 0, R='val:201')
        elif inner in ('once', 'nomatch'):
            inner_exp = _exp(1, tgt, inner_fn, P, 1, 1, S if inner_fn == 2 else [], rt=True, tk=1, sf=1 if (S and inner_fn == 2) else 0, R='val:201')
        elif inner == 'forbid':
            inner_exp = _exp(1, tgt, inner_fn, P, 0, 0, [], rt=False, tk=2, sf=0, R='none')
        elif inner == 'throws':
            inner_exp = _exp(1, tgt, inner_fn, P, 0, INF, [], rt=False, tk=3, sf=0, R='std')
            inner_exp['rc'] = 1
        if seq == 'inner-first' and inner_exp is not None:
            ops += [inner_exp, dict(outer, e=1), ]
            ops[-1]['e'] = 1
            ops[-2] = dict(inner_exp, e=0)
        else:
            ops.append(outer)
            if inner_exp is not None:
                ops.append(inner_exp)
        for a in (1, 2):
            ops.append(dict(op='call', o=0, fn=1, a=[a]))
            ops.append(dict(op='sat', e=0))
            if inner_exp is not None:
                ops.append(dict(op='satd', e=1))
        ops.append(dict(op='call', o=tgt, fn=inner_fn, a=args))
        if tracer:
            ops.append(dict(op='killtracer', t=0))
        ops.append(dict(op='call', o=0, fn=1, a=[3]))
        ops.append(dict(op='kill', o=0))
        yield ops


def enum_destruction(rng, sample, n_ops=8):
    """C14: random permutations of destruction/move operations over a fixed population, interleaved
    with calls and queries on survivors."""
    for _ in range(sample):
        g = Gen(rng, 'life')
        g.new_mock(True)
        g.new_mock(False)
        g.new_seq()
        g.new_seq()
        for _ in range(3):
            g.do_expect()
        x = g.fresh('w'); g.watched.add(x); g.emit(op='watched', x=x)
        x2 = g.fresh('w'); g.watched.add(x2); g.emit(op='watched', x=x2)
        for _ in range(2):
            m = g.fresh('mon')
            S = rng.sample(sorted(g.seqs), rng.choice([0, 1, 1, 2]))
            tgt = rng.choice([x, x2])
            g.mons[m] = tgt
            g.emit(op='monitor', m=m, x=tgt, S=S)
        for _ in range(2):
            t = g.fresh('tracer'); g.tracers.append(t); g.emit(op='tracer', t=t)
        # now destroy everything in a random order, with calls in between
        things = [('exp', e) for e in g.exps] + [('mock', o) for o in g.mocks] + [('seq', s) for s in g.seqs] + \
                 [('mon', m) for m in g.mons] + [('w', w) for w in g.watched] + [('tracer', t) for t in g.tracers]
        rng.shuffle(things)
        for kind, i in things:
            if rng.random() < 0.5:
                g.do_call()
            if rng.random() < 0.3:
                g.do_query()
            if kind == 'exp' and i in g.exps:
                del g.exps[i]; g.emit(op='release', e=i)
            elif kind == 'mock' and i in g.mocks:
                if g.mocks[i] and rng.random() < 0.4:
                    o2 = g.fresh('mock'); g.mocks[o2] = True
                    for xx in g.exps.values():
                        if xx['o'] == i:
                            xx['o'] = o2
                    g.emit(op='move', o=i, o2=o2)
                    things.append(('mock', o2))
                del g.mocks[i]; g.emit(op='kill', o=i)
            elif kind == 'seq' and i in g.seqs:
                g.seqs.discard(i); g.emit(op='killseq', s=i)
            elif kind == 'mon' and i in g.mons:
                del g.mons[i]; g.emit(op='releasemon', m=i)
            elif kind == 'w' and i in g.watched:
                g.watched.discard(i); g.emit(op='killw', x=i)
            elif kind == 'tracer' and i in g.tracers:
                g.tracers.remove(i); g.emit(op='killtracer', t=i)
        for o in list(g.mocks):
            g.emit(op='kill', o=o)
        yield g.ops


if __name__ == '__main__':
    prof = sys.argv[1] if len(sys.argv) > 1 else 'general'
    seed = int(sys.argv[2]) if len(sys.argv) > 2 else 1
    n = int(sys.argv[3]) if len(sys.argv) > 3 else 30
    print('\n'.join(render(random_script(seed, prof, n))))
