#!/usr/bin/env python3
"""tools/translate.py — regenerates lean/TrompModel/Gen/*.lean from /repo's current source.

(1) StaticAsserts.lean: for every clause modifier (`with`, `sideeffect`, `handle_return`, `handle_throw`,
    `times`, `runtime_times`, `call_modifier::in_sequence`, `call_validator_t::operator+`, `handle_co_yield`,
    `handle_co_return`, `handle_co_throw`, `lifetime_monitor_modifier::in_sequence`, `MAKE_MOCK_CHECKED`) the list of
    `static_assert(<condition>, "<message>")` guards, with local `constexpr bool` definitions substituted, as
    Lean `Bool` expressions over the atoms of Model/ClausesBase.lean, and the injector each action applies.
(2) Macros.lean: the `#define` table of the headers with and without TROMPELOEIL_LONG_MACROS, the `_k` bindings of the
    clause macros, the PARAM_LIST / PARAMS families (C09, C19).

An identifier or type-trait the translator does not know makes the translation FAIL (exit 2): the model can
then not be regenerated and the proof obligation counts as broken.
"""
import os
import re
import subprocess
import sys

REPO = os.environ.get('VERIF_REPO', '/repo')


class TranslateError(Exception):
    pass


# ------------------------------------------------------------------------------------------
# locating function bodies

def strip_comments(src):
    src = re.sub(r'/\*.*?\*/', lambda m: ' ' * 0 + re.sub(r'[^\n]', ' ', m.group(0)), src, flags=re.S)
    src = re.sub(r'//[^\n]*', '', src)
    return src


def find_balanced(src, start, open_ch='{', close_ch='}'):
    depth = 0
    i = start
    while i < len(src):
        c = src[i]
        if c == '"':
            j = i + 1
            while src[j] != '"' or src[j - 1] == '\\':
                j += 1
            i = j
        elif c == open_ch:
            depth += 1
        elif c == close_ch:
            depth -= 1
            if depth == 0:
                return i
        i += 1
    raise TranslateError('unbalanced braces')


def struct_body(src, name):
    m = re.search(r'\bstruct\s+%s\b[^;{]*\{' % re.escape(name), src)
    if not m:
        raise TranslateError('struct %s not found' % name)
    end = find_balanced(src, m.end() - 1)
    return src[m.end():end]


def function_in(body, fname):
    """-> (header text, body text) of the (first) function `fname(` that has a body."""
    for m in re.finditer(r'\b%s\s*\(' % re.escape(fname), body):
        close = find_balanced(body, m.end() - 1, '(', ')')
        k = close + 1
        # skip qualifiers / trailing return type until '{' or ';'
        while k < len(body) and body[k] not in '{;':
            k += 1
        if k < len(body) and body[k] == '{':
            end = find_balanced(body, k)
            # header: from the previous ';' or '}' or start
            hs = max(body.rfind(';', 0, m.start()), body.rfind('}', 0, m.start()), body.rfind('{', 0, m.start())) + 1
            return body[hs:k], body[k + 1:end]
    raise TranslateError('function %s not found' % fname)


# ------------------------------------------------------------------------------------------
# expressions

def norm(s):
    return re.sub(r'\s+', '', s)


ATOMS = {
    # signature
    'trompeloeil::is_coroutine<sigret>::value': 'e.isCoro',
    'trompeloeil::is_coroutine<return_of_t<signature>>::value': 'e.isCoro',
    'std::is_same<sigret,void>::value': 'e.sigVoid',
    # type-state
    'std::is_same<return_type,void>::value': '(!e.hasReturn)',
    'std::is_same_v<return_type,void>': '(!e.hasReturn)',
    'std::is_same<typenameParent::return_type,void>::value': '(!e.hasReturn)',
    'std::is_same<co_return_type,void>::value': '(!e.hasCoReturn)',
    'std::is_same_v<co_return_type,void>': '(!e.hasCoReturn)',
    'std::is_same<ret,sigret>::value@final': '(e.hasReturn || e.sigVoid)',
    'std::is_same<coret,sigret>::value@final': '(e.hasCoReturn || e.sigVoid)',
    'Parent::throws': 'e.throws',
    'call::throws': 'e.throws',
    'Parent::side_effects': 'e.sideEffects',
    'Parent::sequence_set': 'e.seqSet',
    'Parent::call_limit_set': 'e.limitSet',
    'sequence_set': 'e.seqSet',
    # RETURN expression
    'std::is_constructible<sigret,ret>::value': 'e.retFits',
    'std::is_same<detail::decay_t<ret>,illegal_argument>::value': 'e.illegalArg',
    'std::is_pointer<sigret>::value': 'e.sigPtr',
    'std::is_pointer<detail::decay_t<ret>>::value': 'e.retPtr',
    'std::is_const<detail::remove_pointer_t<sigret>>{}': 'e.sigPtrConst',
    'std::is_const<detail::remove_pointer_t<detail::decay_t<ret>>>{}': 'e.retPtrConst',
    'std::is_reference<sigret>::value': 'e.sigRef',
    'std::is_reference<ret>::value': 'e.retRef',
    'std::is_const<detail::remove_reference_t<sigret>>::value': 'e.sigRefConst',
    'std::is_const<detail::remove_reference_t<ret>>::value': 'e.retRefConst',
    # coroutine clause expression
    'std::is_same_v<ret,void>': 'e.exprVoid',
}
COMPARISONS = {
    'Parent::upper_call_limit==0': 'e.forbidden', 'Parent::upper_call_limit==0U': 'e.forbidden',
    'call::upper_call_limit==0': 'e.forbidden', 'upper_call_limit>0': '(!e.forbidden)',
    'Parent::upper_call_limit>0': '(!e.forbidden)', 'H>0': 'decide (e.H > 0)', 'H>=L': 'decide (e.H ≥ e.L)',
}
# `constexpr bool` definitions that are not boolean combinations of atoms: recognised by their exact text
KNOWN_DEFS = {
    'std::invoke([]{ifconstexpr(is_coroutine&&!is_void){usingpromise=typenamestd::coroutine_traits<sigret>::promise_type;'
    'returnrequires(promisep,retr){p.yield_value(r);};}else{returnfalse;}})': '(e.isCoro && !e.exprVoid && e.coFits)',
    'std::invoke([]{ifconstexpr(is_coroutine){usingpromise=typenamestd::coroutine_traits<sigret>::promise_type;'
    'ifconstexpr(std::is_same_v<void,ret>){returnrequires(promisep){p.return_void();};}else{returnrequires(promisep)'
    '{p.return_value(std::declval<ret>());};}}returntrue;})': '(!e.isCoro || e.coFits)',
}


class Parser:
    """recursive descent over  || && ! ( ) atom  with C++ precedence."""

    def __init__(self, text, defs, ctx):
        self.t = text
        self.i = 0
        self.defs = defs
        self.ctx = ctx

    def ws(self):
        while self.i < len(self.t) and self.t[self.i].isspace():
            self.i += 1

    def peek(self, s):
        self.ws()
        return self.t.startswith(s, self.i)

    def eat(self, s):
        if self.peek(s):
            self.i += len(s)
            return True
        return False

    def parse(self):
        r = self.p_or()
        self.ws()
        if self.i != len(self.t):
            raise TranslateError('%s: trailing text in condition: %r' % (self.ctx, self.t[self.i:]))
        return r

    def p_or(self):
        l = self.p_and()
        while self.peek('||'):
            self.eat('||')
            r = self.p_and()
            l = '(%s || %s)' % (l, r)
        return l

    def p_and(self):
        l = self.p_not()
        while self.peek('&&'):
            self.eat('&&')
            r = self.p_not()
            l = '(%s && %s)' % (l, r)
        return l

    def p_not(self):
        if self.peek('!') and not self.peek('!='):
            self.eat('!')
            return '(!%s)' % self.p_not()
        return self.p_prim()

    def p_prim(self):
        self.ws()
        if self.eat('('):
            r = self.p_or()
            if not self.eat(')'):
                raise TranslateError('%s: missing )' % self.ctx)
            return r
        # an atom: identifier path with optional <...> groups, optional ::value / {} , optional comparison
        start = self.i
        depth = 0
        while self.i < len(self.t):
            c = self.t[self.i]
            if c == '<' and re.match(r'.*[A-Za-z_>]$', self.t[start:self.i]) and self._template_start(start):
                depth += 1
            elif c == '>' and depth > 0:
                depth -= 1
            elif depth == 0 and (c in '()!' or self.t.startswith('&&', self.i) or self.t.startswith('||', self.i)):
                break
            elif depth == 0 and c == '{' and self.t.startswith('{}', self.i):
                self.i += 2
                continue
            self.i += 1
        atom = norm(self.t[start:self.i])
        if not atom:
            raise TranslateError('%s: empty atom at %r' % (self.ctx, self.t[start:start + 20]))
        return self.resolve(atom)

    def _template_start(self, start):
        head = self.t[start:self.i]
        return head.startswith(('std::', 'trompeloeil::', 'detail::')) or '<' in head

    def resolve(self, atom):
        if atom in ('true', 'false'):
            return atom
        if atom in self.defs:
            return self.defs[atom]
        if atom in COMPARISONS:
            return COMPARISONS[atom]
        key = atom + '@final' if self.ctx.startswith('operator+') and atom + '@final' in ATOMS else atom
        if key in ATOMS:
            return ATOMS[key]
        raise TranslateError('%s: unknown atom %r' % (self.ctx, atom))


def translate_body(body, ctx, predefs=None):
    """-> list of (lean condition, message)"""
    defs = dict(predefs or {})
    guards = []
    # statements in order: constexpr bool / constexpr auto / static_assert
    pos = 0
    pat = re.compile(r'\bconstexpr\s+(?:bool|auto)\s+(\w+)\s*=|\bstatic_assert\s*\(')
    while True:
        m = pat.search(body, pos)
        if not m:
            break
        if m.group(1):
            name = m.group(1)
            # rhs up to the ';' at depth 0
            i = m.end()
            depth = 0
            while i < len(body):
                c = body[i]
                if c in '([{':
                    depth += 1
                elif c in ')]}':
                    depth -= 1
                elif c == ';' and depth == 0:
                    break
                i += 1
            rhs = body[m.end():i]
            nrhs = norm(rhs)
            if nrhs in KNOWN_DEFS:
                defs[name] = KNOWN_DEFS[nrhs]
            elif name == 'valid':
                pass        # only selects the overload of set_return; not a guard
            else:
                defs[name] = Parser(rhs, defs, '%s: definition of %s' % (ctx, name)).parse()
            pos = i + 1
        else:
            close = find_balanced(body, m.end() - 1, '(', ')')
            inner = body[m.end():close]
            # split at the first top-level comma before the string literal
            q = inner.find('"')
            if q < 0:
                raise TranslateError('%s: static_assert without message' % ctx)
            cond = inner[:q].rstrip()
            if not cond.endswith(','):
                raise TranslateError('%s: cannot split static_assert %r' % (ctx, inner[:60]))
            cond = cond[:-1]
            msg = ''.join(re.findall(r'"((?:[^"\\]|\\.)*)"', inner[q:]))
            guards.append((Parser(cond, defs, '%s: static_assert %r' % (ctx, msg[:30])).parse(), msg))
            pos = close + 1
    return guards


INJECTORS = [('sideeffect_injector', '.sideeffect'), ('co_return_injector', '.coRet'), ('return_injector', '.ret'),
             ('throw_injector', '.throw_'), ('sequence_injector', '.seq')]


def injector_of(header, ctx):
    h = norm(header)
    if 'call_limit_injector<Parent,std::numeric_limits<std::size_t>::max()>' in h:
        return '.limitRt'
    if 'call_limit_injector<Parent,H>' in h:
        return '.limit'
    for name, lean in INJECTORS:
        if name + '<' in h:
            return lean
    if 'call_modifier<Matcher,modifier_tag,Parent>' in h:
        return '.none'
    raise TranslateError('%s: unknown injector in %r' % (ctx, header[-200:]))


def gen_static_asserts():
    mock = strip_comments(open(os.path.join(REPO, 'include/trompeloeil/mock.hpp')).read())
    coro = strip_comments(open(os.path.join(REPO, 'include/trompeloeil/coro.hpp')).read())
    life = strip_comments(open(os.path.join(REPO, 'include/trompeloeil/lifetime.hpp')).read())
    out = {}
    inj = {}
    for name, src in [('with', mock), ('sideeffect', mock), ('handle_return', mock), ('handle_throw', mock),
                      ('times', mock), ('runtime_times', mock), ('handle_co_yield', coro), ('handle_co_return', coro),
                      ('handle_co_throw', coro)]:
        body = struct_body(src, name)
        header, fbody = function_in(body, 'action')
        pre = {}
        if name in ('times', 'runtime_times'):
            pre['times_set'] = 'e.limitSet'
            if 'times_set=Parent::call_limit_set' not in norm(body):
                raise TranslateError('%s: default of times_set changed' % name)
        out[name] = translate_body(fbody, name, pre)
        inj[name] = injector_of(header, name)
    # call_modifier::in_sequence
    cm = struct_body(mock, 'call_modifier')
    header, fbody = function_in(cm, 'in_sequence')
    if 'boolb=sequence_set' not in norm(header):
        raise TranslateError('in_sequence: default of b changed')
    out['in_sequence'] = translate_body(fbody, 'in_sequence', {'b': 'e.seqSet', 'upper_call_limit>0': '(!e.forbidden)'})
    inj['in_sequence'] = injector_of(header.replace('sequence_injector<Parent>', 'sequence_injector<Parent>'), 'in_sequence')
    # lifetime monitor
    lm = struct_body(life, 'lifetime_monitor_modifier')
    header, fbody = function_in(lm, 'in_sequence')
    if 'boolb=sequence_set' not in norm(header):
        raise TranslateError('lifetime in_sequence: default of b changed')
    out['monitor_in_sequence'] = translate_body(fbody, 'monitor_in_sequence', {'b': 'e.seqSet'})
    # call_validator_t::operator+
    cv = struct_body(mock, 'call_validator_t')
    header, fbody = function_in(cv, 'operator+')
    pre = {'is_coroutine': None}
    fb = fbody.replace('trompeloeil::is_coroutine<sigret>::value', 'trompeloeil::is_coroutine<sigret>::value')
    out['final'] = translate_body(fb, 'operator+', {})
    # MAKE_MOCK_CHECKED
    m = re.search(r'#define\s+TROMPELOEIL_MAKE_MOCK_CHECKED\(.*?\n((?:.*\\\n)+.*\n)', open(os.path.join(REPO, 'include/trompeloeil/mock.hpp')).read())
    if not m:
        raise TranslateError('TROMPELOEIL_MAKE_MOCK_CHECKED not found')
    mm = norm(m.group(1).replace('\\\n', ' '))
    if 'static_assert(num==::trompeloeil::param_list<TROMPELOEIL_REMOVE_PAREN(sig)>::size,"Functionsignaturedoesnothave"#num"parameters");' not in mm:
        raise TranslateError('MAKE_MOCK_CHECKED: arity guard changed: ' + mm[:200])
    out['make_mock'] = [('decide (e.declared = e.arity)', 'Function signature does not have <n> parameters')]
    return out, inj


def lean_string(s):
    return '"' + s.replace('\\', '\\\\').replace('"', '\\"') + '"'


def write_static_asserts(path):
    out, inj = gen_static_asserts()
    lines = ['/- GENERATED by tools/translate.py from /repo (mock.hpp, coro.hpp, lifetime.hpp) — do not edit. -/',
             'import TrompModel.Model.ClausesBase', '', 'namespace Tromp.Gen', 'open Tromp.Clauses', '']
    for name in ['with', 'sideeffect', 'handle_return', 'handle_throw', 'times', 'runtime_times', 'in_sequence',
                 'handle_co_yield', 'handle_co_return', 'handle_co_throw', 'monitor_in_sequence', 'final', 'make_mock']:
        lines.append('def guards_%s : List Guard := [' % name)
        gl = out[name]
        for k, (cond, msg) in enumerate(gl):
            lines.append('  ⟨fun e => %s, %s⟩%s' % (cond, lean_string(msg), ',' if k + 1 < len(gl) else ''))
        lines.append(']')
        lines.append('')
    for name, v in sorted(inj.items()):
        lines.append('def inj_%s : Inj := %s' % (name, v))
    lines += ['', 'end Tromp.Gen', '']
    text = '\n'.join(lines)
    if not os.path.exists(path) or open(path).read() != text:
        with open(path, 'w') as f:
            f.write(text)
    return out, inj


# ------------------------------------------------------------------------------------------
# macro tables

def macro_dump(defines, std):
    cmd = ['g++', '-std=' + std, '-E', '-dD', '-I' + os.path.join(REPO, 'include'), '-x', 'c++', '-'] + ['-D' + d for d in defines]
    p = subprocess.run(cmd, input='#include <trompeloeil.hpp>\n', stdout=subprocess.PIPE, stderr=subprocess.PIPE, universal_newlines=True)
    if p.returncode != 0:
        raise TranslateError('preprocessing failed: ' + p.stderr[-500:])
    cur = ''
    names = []
    inc = os.path.realpath(os.path.join(REPO, 'include'))
    for l in p.stdout.split('\n'):
        m = re.match(r'# \d+ "([^"]*)"', l)
        if m:
            cur = m.group(1)
            continue
        m = re.match(r'#define\s+(\w+)', l)
        if m and os.path.realpath(cur).startswith(inc):
            names.append(m.group(1))
    return sorted(set(names))


# the ways a user can define TROMPELOEIL_LONG_MACROS (the headers test it with #ifndef, so every one of them counts):
# -DTROMPELOEIL_LONG_MACROS (value 1), an empty definition (`#define TROMPELOEIL_LONG_MACROS` in the source), value 0
LONG_FORMS = ['TROMPELOEIL_LONG_MACROS', 'TROMPELOEIL_LONG_MACROS=', 'TROMPELOEIL_LONG_MACROS=0']


def long_macro_dump(std):
    """-> (names defined under any form of the definition, {name: first form under which it is defined})"""
    where = {}
    for form in LONG_FORMS:
        for n in macro_dump([form], std):
            where.setdefault(n, form)
    return sorted(where), where


CLAUSE_MACROS = ['TROMPELOEIL_WITH_', 'TROMPELOEIL_SIDE_EFFECT_', 'TROMPELOEIL_RETURN_', 'TROMPELOEIL_THROW_',
                 'TROMPELOEIL_CO_RETURN_', 'TROMPELOEIL_CO_THROW_', 'TROMPELOEIL_CO_YIELD_']


def macro_bodies():
    """-> {macro name: body text (continuation lines joined)} for the C++14 branch of the headers."""
    res = {}
    for f in ('mock.hpp', 'coro.hpp', 'sequence.hpp', 'lifetime.hpp'):
        src = open(os.path.join(REPO, 'include/trompeloeil', f)).read()
        for m in re.finditer(r'^[ \t]*#[ \t]*define[ \t]+(\w+)(\([^)]*\))?((?:[^\n]*\\\n)*[^\n]*)', src, flags=re.M):
            name = m.group(1)
            body = m.group(3).replace('\\\n', '\n')
            res.setdefault(name, []).append((m.group(2) or '', body))
    return res


def gen_macros(path):
    bodies = macro_bodies()
    lines = ['/- GENERATED by tools/translate.py from /repo — do not edit. -/', '', 'namespace Tromp.Gen', '']
    # (a) macro names defined by the headers with TROMPELOEIL_LONG_MACROS, per language level
    for std in ('c++14', 'c++17', 'c++20'):
        names = long_macro_dump(std)[0]
        lines.append('def longMacros_%s : List String := [' % std.replace('+', 'p'))
        lines.append('  ' + ', '.join(lean_string(n) for n in names))
        lines.append(']')
        lines.append('')
    allnames = sorted(set(sum((long_macro_dump(std)[0] for std in ('c++14', 'c++17', 'c++20')), [])))
    lines.append('/-- union over the three language levels. -/')
    lines.append('def longMacros_all : List String := [')
    lines.append('  ' + ', '.join(lean_string(n) for n in allnames))
    lines.append(']')
    lines.append('')
    short = macro_dump([], 'c++17')
    lines.append('def shortMacros_cpp17 : List String := [')
    lines.append('  ' + ', '.join(lean_string(n) for n in short))
    lines.append(']')
    lines.append('')
    # (b) the `_k` bindings of every clause macro (generic-lambda branch)
    lines.append('/-- (macro, k, j) : the macro binds `_k` to `mkarg<j>(trompeloeil_x)`. -/')
    lines.append('def bindings : List (String × Nat × Nat) := [')
    items = []
    for mac in CLAUSE_MACROS:
        if mac not in bodies:
            raise TranslateError('clause macro %s not found' % mac)
        # the C++14+ definition is the one using `auto` parameters
        cand = [b for (params, b) in bodies[mac] if 'auto' in b and 'mkarg' in b]
        if not cand:
            raise TranslateError('%s: no generic-lambda definition' % mac)
        for m in re.finditer(r'auto\s*&&\s*_(\d+)\s*=\s*::trompeloeil::mkarg<(\d+)>\(trompeloeil_x\)', cand[0]):
            items.append('(%s, %s, %s)' % (lean_string(mac), m.group(1), m.group(2)))
    lines.append('  ' + ',\n  '.join(items))
    lines.append(']')
    lines.append('')
    # (c) capture mode passed by the plain and the LR_ variants
    lines.append('/-- (macro, capture token passed to the underscore variant). -/')
    lines.append('def captures : List (String × String) := [')
    caps = []
    for base in ['WITH', 'SIDE_EFFECT', 'RETURN', 'THROW', 'CO_RETURN', 'CO_THROW', 'CO_YIELD']:
        for pre in ('', 'LR_'):
            name = 'TROMPELOEIL_%s%s' % (pre, base)
            if name not in bodies:
                raise TranslateError('macro %s not found' % name)
            body = bodies[name][0][1]
            m = re.search(r'TROMPELOEIL_%s_\(\s*([=&])' % base, body)
            if not m:
                raise TranslateError('%s: cannot find capture token in %r' % (name, body))
            caps.append('(%s, %s)' % (lean_string(name), lean_string(m.group(1))))
    lines.append('  ' + ',\n  '.join(caps))
    lines.append(']')
    lines.append('')
    # (c') the lambda each clause macro builds around the user's expression: capture list, parameter, and what stands between
    #      the parameter list and the body (`mutable`, a trailing return type)
    lines.append('/-- (macro, capture list, parameter, specifiers between the parameter list and the body). -/')
    lines.append('def clauseLambdas : List (String × String × String × String) := [')
    lams = []
    for mac in CLAUSE_MACROS:
        cand = [b for (params, b) in bodies[mac] if 'auto' in b and 'mkarg' in b]
        m = re.search(r'\[\s*([^\]]*?)\s*\]\s*\(\s*([^)]*?)\s*\)\s*([^{]*?)\s*\{', cand[0])
        if not m:
            raise TranslateError('%s: cannot find the lambda' % mac)
        lams.append('(%s, %s, %s, %s)' % (lean_string(mac), lean_string(re.sub(r'\s+', ' ', m.group(1))),
                                          lean_string(re.sub(r'\s+', ' ', m.group(2))), lean_string(re.sub(r'\s+', ' ', m.group(3)))))
    lines.append('  ' + ',\n  '.join(lams))
    lines.append(']')
    lines.append('')
    # (d) PARAM_LIST_n / PARAMS_n : indices used, in order
    lines.append('/-- (n, the indices i of `param_list_t<…, i>` in TROMPELOEIL_PARAM_LISTn, the k of the `pk` names). -/')
    lines.append('def paramLists : List (Nat × List Nat × List Nat) := [')
    pl = []
    for n in range(16):
        name = 'TROMPELOEIL_PARAM_LIST%d' % n
        if name not in bodies:
            raise TranslateError('%s not found' % name)
        body = bodies[name][0][1]
        # expand the chain PARAM_LISTn = PARAM_LIST(n-1), … textually
        idx = []
        pk = []
        cur = n
        seen = 0
        while True:
            b = bodies['TROMPELOEIL_PARAM_LIST%d' % cur][0][1]
            own = re.findall(r'param_list_t<[^,]*,\s*(\d+)>\s*\n?\s*p(\d+)', b)
            for i_, k_ in reversed(own):
                idx.insert(0, int(i_))
                pk.insert(0, int(k_))
            m = re.search(r'TROMPELOEIL_PARAM_LIST(\d+)\(', b)
            seen += 1
            if not m or seen > 20:
                break
            cur = int(m.group(1))
        pl.append('(%d, %s, %s)' % (n, idx, pk))
    lines.append('  ' + ',\n  '.join(pl))
    lines.append(']')
    lines.append('')
    lines.append('/-- (n, the k of the names `pk` forwarded by TROMPELOEIL_PARAMSn, in order). -/')
    lines.append('def params : List (Nat × List Nat) := [')
    ps = []
    for n in range(16):
        name = 'TROMPELOEIL_PARAMS%d' % n
        if name not in bodies:
            raise TranslateError('%s not found' % name)
        ks = []
        cur = n
        seen = 0
        while True:
            b = bodies['TROMPELOEIL_PARAMS%d' % cur][0][1]
            own = re.findall(r'\bp(\d+)\b', b)
            for k_ in reversed(own):
                ks.insert(0, int(k_))
            m = re.search(r'TROMPELOEIL_PARAMS(\d+)\b', b)
            seen += 1
            if not m or seen > 20:
                break
            cur = int(m.group(1))
        ps.append('(%d, %s)' % (n, ks))
    lines.append('  ' + ',\n  '.join(ps))
    lines.append(']')
    # (e) self-containment of the prefixed macros: no TROMPELOEIL_ macro may expand to a short alias, which
    #     does not exist when TROMPELOEIL_LONG_MACROS is defined
    longs = set(sum((macro_dump(['TROMPELOEIL_LONG_MACROS'], std) for std in ('c++14', 'c++17', 'c++20')), []))
    shorts = set(sum((macro_dump([], std) for std in ('c++14', 'c++17', 'c++20')), [])) - longs
    uses = []
    for name in sorted(bodies):
        if not name.startswith('TROMPELOEIL_'):
            continue
        for params, body in bodies[name]:
            plain = re.sub(r'"(?:\\.|[^"\\])*"', '""', body)
            pnames = set(re.findall(r'\w+', params))
            for tok in sorted(set(re.findall(r'\b[A-Za-z_]\w*\b', plain))):
                if tok in shorts and tok not in pnames and (name, tok) not in uses:
                    uses.append((name, tok))
    lines.append('')
    lines.append('/-- (prefixed macro, short alias its replacement list mentions): must be empty, the aliases do not exist under')
    lines.append('    TROMPELOEIL_LONG_MACROS.  %d prefixed macro definitions scanned, %d short aliases. -/' % (
        sum(len(v) for k, v in bodies.items() if k.startswith('TROMPELOEIL_')), len(shorts)))
    lines.append('def shortUses : List (String × String) := [')
    lines.append('  ' + ',\n  '.join('(%s, %s)' % (lean_string(a), lean_string(b)) for a, b in uses))
    lines.append(']')
    # (f) the call-count clause each ALLOW_/FORBID_ statement macro injects, for every spelling (C++14 `_`, variadic `_F` / `_T`)
    lines.append('')
    lines.append('/-- (statement macro, the TIMES clause its replacement list appends: "inf" = INFINITY_TIMES(), "0" = TIMES(0)). -/')
    lines.append('def stmtTimes : List (String × String) := [')
    st = []
    for name in sorted(bodies):
        if not re.match(r'^TROMPELOEIL_(NAMED_)?(ALLOW|FORBID)_CALL(_|_F|_T)$', name):
            continue
        for params, body in bodies[name]:
            inf = '.TROMPELOEIL_INFINITY_TIMES()' in body
            zero = re.search(r'\.TROMPELOEIL_TIMES\(\s*0\s*\)', body) is not None
            st.append('(%s, %s)' % (lean_string(name), lean_string('inf' if inf and not zero else '0' if zero and not inf else 'other')))
    lines.append('  ' + ',\n  '.join(st))
    lines.append(']')
    lines += ['', 'end Tromp.Gen', '']
    text = '\n'.join(lines)
    if not os.path.exists(path) or open(path).read() != text:
        with open(path, 'w') as f:
            f.write(text)


def main():
    lean_dir = sys.argv[1] if len(sys.argv) > 1 else os.path.join(os.path.dirname(os.path.dirname(os.path.abspath(__file__))), 'lean')
    gen = os.path.join(lean_dir, 'TrompModel', 'Gen')
    os.makedirs(gen, exist_ok=True)
    try:
        write_static_asserts(os.path.join(gen, 'StaticAsserts.lean'))
        gen_macros(os.path.join(gen, 'Macros.lean'))
    except TranslateError as e:
        print('TRANSLATE-ERROR:', e)
        return 2
    return 0


if __name__ == '__main__':
    sys.exit(main())
