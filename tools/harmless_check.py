#!/usr/bin/env python3
"""usage: harmless_check.py [probe.diff ...]   — false-alarm probes.

Each harmless/<name>.diff is a rewrite of library code that changes no behaviour (locals renamed, comparisons spelled the
other way round, braces and comments moved).  The probe is applied to a scratch worktree of /repo (outside /repo and /verif,
removed afterwards) and the quick checks named in harmless/probes.json are run against it; every one must exit 0 without a
VIOLATION line.  A probe that alarms shows where the translator or a tie proof depends on spelling instead of meaning."""
import json
import os
import subprocess
import sys
import tempfile

VERIF = os.path.dirname(os.path.dirname(os.path.abspath(__file__)))


def sh(cmd, **kw):
    return subprocess.run(cmd, shell=True, stdout=subprocess.PIPE, stderr=subprocess.STDOUT, universal_newlines=True, **kw)


def main():
    probes = json.load(open(os.path.join(VERIF, 'harmless', 'probes.json')))
    want = [os.path.basename(a) for a in sys.argv[1:]] or sorted(probes)
    bad = 0
    for name in want:
        wt = tempfile.mkdtemp(prefix='harmless_wt_')
        out = tempfile.mkdtemp(prefix='harmless_out_')
        os.rmdir(wt)
        try:
            r = sh('git -C /repo worktree add --detach %s HEAD && git -C %s apply %s' % (wt, wt, os.path.join(VERIF, 'harmless', name)))
            if r.returncode != 0:
                print('%s: does not apply (the tree has changed under the probe)\n%s' % (name, r.stdout[-400:]))
                bad += 1
                continue
            for c in probes[name]['checks']:
                r = sh('cd %s && VERIF_REPO=%s VERIF_OUT=%s python3 tools/check.py %s --tier quick' % (VERIF, wt, out, c))
                viol = [l for l in r.stdout.split('\n') if l.startswith('VIOLATION')]
                ok = r.returncode == 0 and not viol
                print('%-40s %s  %s' % (name, c, 'quiet' if ok else 'ALARM: ' + '; '.join(viol)[:300]))
                if not ok:
                    bad += 1
        finally:
            sh('git -C /repo worktree remove --force %s' % wt)
            sh('rm -rf %s %s' % (wt, out))
    print('%d alarm(s) on %d harmless rewrites' % (bad, len(want)))
    return 1 if bad else 0


if __name__ == '__main__':
    sys.exit(main())
