#!/usr/bin/env python3
"""coverage_table.py — which function bodies of the library are regenerated into Lean, and which are only modelled.

Scans every header under <repo>/include/trompeloeil for function definitions (a brace-matching scan of the
comment-stripped text: a `{` met in namespace / class scope whose head has a parameter list and is not a
namespace / class / enum head opens a function body), and marks a function *translated* when the translator's index
(tools/cxx2lean.py generate(): name, module, file, line of the matched header) or one of the table translators
(tools/lockscope.py, tools/translate.py: the lock-taking functions; the macro and static_assert tables are not
function bodies) points into it.  Everything else is reached only through the hand-written model and the
correspondence harnesses.  The table is written between the MODELLED-BEGIN / MODELLED-END markers of DESIGN.md.

usage: coverage_table.py [--list]      (--list: also print every untranslated function)"""
import os
import re
import sys

HERE = os.path.dirname(os.path.abspath(__file__))
VERIF = os.path.dirname(HERE)
sys.path.insert(0, HERE)
import cxx2lean          # noqa: E402

REPO = os.environ.get('VERIF_REPO', '/repo')
KEYWORDS = {'if', 'for', 'while', 'switch', 'catch', 'return', 'sizeof', 'decltype', 'noexcept', 'static_assert', 'alignof', 'requires',
            'TROMPELOEIL_TRAILING_RETURN_TYPE', 'TROMPELOEIL_NOT_IMPLEMENTED', 'TROMPELOEIL_DECLTYPE_AUTO', 'operator'}


def blank_strings(src):
    """comments, string and character literals blanked in one left-to-right pass (a `//` inside a string is not a comment)"""
    def blank(m):
        t = m.group(0)
        if t[0] == '/':
            return re.sub(r'[^\n]', ' ', t)
        return t[0] + re.sub(r'[^\n]', ' ', t[1:-1]) + t[-1]
    return re.sub(r'//[^\n]*|/\*.*?\*/|"(?:\\.|[^"\\\n])*"|\'(?:\\.|[^\'\\\n])+\'', blank, src, flags=re.S)


def blank_preprocessor(src):
    out = []
    cont = False
    for line in src.split('\n'):
        if cont or line.lstrip().startswith('#'):
            cont = line.rstrip().endswith('\\')
            out.append(' ' * len(line))
        else:
            out.append(line)
    return '\n'.join(out)


def head_name(head):
    """the declarator name of a function head: the identifier (or operator…) before the first top-level `(` that is not a
    keyword / attribute macro"""
    depth_a = 0
    i = 0
    n = len(head)
    while i < n:
        c = head[i]
        if c == '<':
            depth_a += 1
        elif c == '>':
            depth_a = max(0, depth_a - 1)
        elif c == '(' and depth_a == 0:
            m = re.search(r'(operator\s*(?:\(\s*\)|\[\s*\]|[^\s\w(]+|\s+[\w:<>&* ]+?)|~?\w+)\s*$', head[:i])
            if m:
                name = re.sub(r'\s+', ' ', m.group(1)).strip()
                if name not in KEYWORDS and not name.startswith('TROMPELOEIL_'):
                    return name
            # skip this parenthesised group
            d = 0
            while i < n:
                if head[i] == '(':
                    d += 1
                elif head[i] == ')':
                    d -= 1
                    if d == 0:
                        break
                i += 1
        i += 1
    return None


def scan(path):
    """-> [(name, enclosing scope, first line of the head, line of `{`, line of the closing `}`)]"""
    raw = open(path).read()
    src = blank_preprocessor(blank_strings(raw))
    funcs = []
    stack = []                       # entries: ('ns' | 'class' | 'fn' | 'other', name)
    stmt_start = 0                   # offset where the current declaration started
    i = 0
    n = len(src)
    line_of = [0] * (n + 1)
    ln = 1
    for k, c in enumerate(src):
        line_of[k] = ln
        if c == '\n':
            ln += 1
    line_of[n] = ln
    paren = 0
    while i < n:
        c = src[i]
        in_fn = any(k in ('fn', 'other') for k, _, _ in stack)
        if c == '(':
            paren += 1
        elif c == ')':
            paren -= 1
        elif c == '{':
            head = src[stmt_start:i]
            h = re.sub(r'\s+', ' ', head).strip()
            # access specifiers and template heads in front do not matter
            h = re.sub(r'^(?:(?:public|private|protected)\s*:\s*)+', '', h)
            kind, name = 'other', ''
            if in_fn or paren > 0:
                kind = 'other'
            elif re.match(r'^(?:inline\s+)?namespace\b', h) or re.match(r'^extern\s+"', h):
                kind, name = 'ns', (re.findall(r'namespace\s+(\w+)', h) or [''])[-1]
            else:
                h2 = re.sub(r'template\s*<(?:[^<>]|<(?:[^<>]|<[^<>]*>)*>)*>', ' ', h)
                mcls = re.match(r'^\s*(?:typedef\s+)?(class|struct|union|enum(?:\s+class)?)\b([^()]*)$', h2.split(' : ')[0] if '(' not in h2.split(' : ')[0] else h2)
                if mcls and '(' not in re.sub(r'\b(?:decltype|alignas|TROMPELOEIL_\w+)\s*\([^()]*\)', '', h2.split('{')[0].split(' : ')[0]):
                    kind, name = 'class', (re.findall(r'(?:class|struct|union)\s+(\w+)', h2) or [''])[0]
                elif '(' in h2 and not re.search(r'=\s*$', h2):
                    nm = head_name(h2)
                    if nm:
                        kind, name = 'fn', nm
            first = stmt_start
            while first < i and src[first] in ' \t\n':
                first += 1
            stack.append((kind, name, (line_of[first], line_of[i])))
            stmt_start = i + 1
        elif c == '}':
            if stack:
                kind, name, (l0, l1) = stack.pop()
                if kind == 'fn':
                    scope = '::'.join(nm for k, nm, _ in stack if k in ('class',) and nm)
                    funcs.append((name, scope, l0, l1, line_of[i]))
            stmt_start = i + 1
        elif c == ';' and paren == 0:
            stmt_start = i + 1
        elif c == ':' and not in_fn and paren == 0:
            # `public:` etc. start a new declaration; `::` and ctor-initialiser colons do not
            if re.search(r'\b(?:public|private|protected)\s*$', src[max(0, i - 12):i]):
                stmt_start = i + 1
        i += 1
    return funcs


def main():
    inc = os.path.join(REPO, 'include', 'trompeloeil')
    files = []
    for root, _, names in os.walk(inc):
        for f in sorted(names):
            if f.endswith('.hpp'):
                files.append(os.path.join(root, f))
    files.sort()
    import tempfile
    tmp = tempfile.mkdtemp(prefix='covgen_')
    try:
        index, failures = cxx2lean.generate(tmp)
    finally:
        import shutil
        shutil.rmtree(tmp, ignore_errors=True)
    marks = {}                       # file -> [(line, translator name)]
    for name, mod, f, line in index:
        marks.setdefault(f, []).append((line, name))
    try:
        import lockscope
        for fn, f, line in lockscope.function_lines(REPO):
            marks.setdefault(f, []).append((line, 'lockscope:' + fn))
    except Exception:
        pass
    # table translators cover every definition of a name, not one header line
    import cxxvocab
    by_name = {}
    for spec in cxxvocab.FUNCTIONS:
        if spec.get('kind') == 'overloads':
            by_name.setdefault(spec['file'], {})[spec['fn']] = spec['name']
        elif spec.get('kind') == 'compare_table':
            for fn in ('eq', 'ne', 'lt', 'le', 'gt', 'ge'):
                by_name.setdefault(spec['file'], {})[fn] = spec['name']
    rows = []
    missing = []
    tot_f = tot_t = tot_l = tot_tl = 0
    for path in files:
        rel = os.path.relpath(path, REPO)
        fs = scan(path)
        ms = marks.get(rel, [])
        nf = nt = nl = ntl = 0
        for name, scope, l0, l1, l2 in fs:
            body = l2 - l1 + 1
            hit = [t for ln, t in ms if l0 - 3 <= ln <= l2]
            if name in by_name.get(rel, {}):
                hit.append(by_name[rel][name])
            only_lock = hit and all(t.startswith('lockscope:') for t in hit)
            nf += 1
            nl += body
            if hit and not only_lock:
                nt += 1
                ntl += body
            else:
                missing.append((rel, l0, (scope + '::' if scope else '') + name, body, 'lock scope only' if only_lock else ''))
        rows.append((rel, nf, nt, nl, ntl))
        tot_f += nf
        tot_t += nt
        tot_l += nl
        tot_tl += ntl
    out = ['*Generated by `tools/coverage_table.py`: function definitions found in the headers by a brace-matching scan, and how many '
           'of them the translator regenerates into Lean (`Gen/Cxx/*.lean`) on every run.  The rest is reached through the '
           'hand-written models and the correspondence harnesses only; template metaprogramming (type traits, `static_assert` '
           'tables, macros) is read by `tools/translate.py` as tables and is not counted here.*',
           '',
           '| header | function bodies | regenerated into Lean | body lines | of them regenerated |',
           '|---|---|---|---|---|']
    for rel, nf, nt, nl, ntl in rows:
        out.append('| `%s` | %d | %d | %d | %d |' % (rel.replace('include/trompeloeil/', ''), nf, nt, nl, ntl))
    out.append('| **all** | %d | %d | %d | %d |' % (tot_f, tot_t, tot_l, tot_tl))
    text = '\n'.join(out)
    print(text)
    if '--list' in sys.argv:
        print()
        for rel, l0, name, body, note in missing:
            print('%-44s %5d %4d  %s %s' % (rel.replace('include/trompeloeil/', ''), l0, body, name, note))
    design = os.path.join(VERIF, 'DESIGN.md')
    s = open(design).read()
    if '<!-- MODELLED-BEGIN -->' in s and REPO == '/repo':
        s2 = re.sub(r'(?s)<!-- MODELLED-BEGIN -->.*?<!-- MODELLED-END -->', lambda m: '<!-- MODELLED-BEGIN -->\n' + text + '\n<!-- MODELLED-END -->', s)
        if s2 != s:
            open(design, 'w').write(s2)


if __name__ == '__main__':
    main()
