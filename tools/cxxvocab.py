"""cxxvocab.py — the vocabulary of tools/cxx2lean.py: which functions of /repo are translated, the Lean type
of each, and how the calls / stream insertions occurring in them are written in Lean.  Everything here is
data; anything in the source that is not covered makes the translation fail.  (Trusted base: see DESIGN.md.)"""

import re

SEQ = 'include/trompeloeil/sequence.hpp'
MOCK = 'include/trompeloeil/mock.hpp'
LIFE = 'include/trompeloeil/lifetime.hpp'
RANGE = 'include/trompeloeil/matcher/range.hpp'
SETP = 'include/trompeloeil/matcher/set_predicate.hpp'
CORO = 'include/trompeloeil/coro.hpp'

IGNORE_HOOK = [r'^TROMPELOEIL_VERIF_ACCESS\(.*\)$']
LOCK_DECL = [r'^auto lock = get_lock\(\)$']


# String literals streamed into a report: only the phrases that carry structure (the ones the harness' report parser
# and the properties key on) are kept; all other wording is `Tok.text`, so that re-wording a message does not break a tie.
KEY_PHRASES = [('No match for call', 'noMatchCall'), ('Matches saturated', 'matchesSaturated'), ('Tried', 'tried'),
               ('no more pending', 'noMore'), ('first in line', 'firstInLine'), ('first required', 'firstRequired'),
               ('missing', 'missing'), ('Sequence mismatch', 'seqMismatch'), ('not met at destruction', 'teardown'),
               ('and has', 'andHas'), ('" has ', 'has')]


def lit(m, em):
    text = m.group(0)
    for phrase, key in KEY_PHRASES:
        if phrase in text:
            return 'Tok.key "%s"' % key
    return 'Tok.text'


def chrlit(m, em):
    return 'Tok.text'


STR_TOK = [(r'^"(?:\\.|[^"\\])*"$', lit), (r"^'(?:\\.|[^'\\])*'$", chrlit)]

FUNCTIONS = [
    dict(
        name='find', cxx='trompeloeil::find', file=MOCK,
        header=r'\n\s*find\(\s*call_matcher_list\s*<Sig>\s*&\s*list\s*,[^)]*\)\s*noexcept',
        lean_sig='{α : Type} (matches_ : α → Bool) (sequence_cost : α → Nat) (list : List α) : Option α',
        typewords=['call_matcher_base'],
        vars={'list': 'list'},
        decl_rules=[(r'^call_matcher_base \* first_match = nullptr$', 'let mut first_match : Option α := none')],
        local_types={'lowest_cost': 'Nat', 'cost': 'Nat'},
        stmt_ignore=IGNORE_HOOK,
        expr_rules=[(r'^(\w+)\.matches\(p\)$', r'matches_ \1'), (r'^(\w+)\.sequence_cost\(\)$', r'sequence_cost \1'),
                    (r'^~0U$', 'topU'), (r'^!first_match$', 'first_match.isNone'), (r'^&i$', 'some i')],
    ),
    dict(
        name='cost', cxx='sequence_type::cost', file=SEQ,
        header=r'sequence_type::cost\(\s*sequence_matcher const\s*\*\s*m\)\s*const\s*noexcept',
        lean_sig='{α : Type} [DecidableEq α] (is_satisfied : α → Bool) (m : α) (matchers : List α) : Nat',
        vars={'matchers': 'matchers', 'm': 'm'},
        local_types={'sequence_cost': 'Nat'},
        stmt_ignore=IGNORE_HOOK,
        expr_rules=[(r'^&(\w+) == m$', r'(\1 == m)'), (r'^(\w+)\.is_satisfied\(\)$', r'is_satisfied \1'), (r'^~0U$', 'topU')],
    ),
    dict(
        name='retire_until', cxx='sequence_type::retire_until', file=SEQ,
        header=r'sequence_type::retire_until\(\s*sequence_matcher const\s*\*\s*m\)\s*noexcept',
        lean_sig='{α : Type} [DecidableEq α] (m : α) (matchers0 : List α) : List α',
        prologue=['let mut matchers := matchers0'],
        epilogue='return matchers', void_result='matchers',
        vars={'matchers': 'matchers', 'm': 'm'},
        local_types={'pending': 'Bool'},
        stmt_ignore=IGNORE_HOOK,
        pop_lists={'matchers': dict(front=r'^&\*matchers\.begin\(\)$', pop=r'^%s->retire\(\)$')},
        expr_rules=[(r'^&(\w+) == m$', r'(\1 == m)'), (r'^first == m$', '(first == m)')],
    ),
    dict(
        name='is_completed', cxx='sequence_type::is_completed', file=SEQ,
        header=r'sequence_type::is_completed\(\)\s*const\s*noexcept',
        lean_sig='{α : Type} (is_satisfied : α → Bool) (matchers : List α) : Bool',
        vars={'matchers': 'matchers'},
        decl_ignore=LOCK_DECL, stmt_ignore=IGNORE_HOOK,
        expr_rules=[(r'^(\w+)\.is_satisfied\(\)$', r'is_satisfied \1')],
    ),
    dict(
        name='order', cxx='sequence_matchers<N>::order', file=SEQ,
        header=r'unsigned\s+order\(\)\s*const\s*noexcept',
        lean_sig='{α : Type} (cost_of : α → Nat) (matchers : List α) : Nat',
        vars={'matchers': 'matchers'},
        local_types={'highest_order': 'Nat', 'cost': 'Nat'},
        expr_rules=[(r'^(\w+)\.cost\(\)$', r'cost_of \1')],
    ),
    dict(
        name='validate_match', cxx='sequence_type::validate_match', file=SEQ, imports=['Cost'],
        header=r'sequence_type::validate_match\(\s*severity s,[^)]*\)\s*const',
        lean_sig='{α : Type} [DecidableEq α] (is_satisfied is_optional : α → Bool) (matcher : α) (matchers : List α) : Option (List (Tok α))',
        vars={'matchers': 'matchers', 'matcher': 'matcher'},
        prologue=['let mut report : Option (List (Tok α)) := none'],
        epilogue='return report', void_result='report',
        local_types={'first': 'Bool'},
        decl_rules=[(r'^std::ostringstream os$', 'let mut os : List (Tok α) := []')],
        expr_rules=[(r'^cost\(matcher\) != ~0U$', '(cost is_satisfied matcher matchers != topU)'),
                    (r'^matchers\.empty\(\)$', 'matchers.isEmpty'),
                    (r'^(\w+)\.is_optional\(\)$', r'is_optional \1')],
        stmt_rules=[(r'^send_report\(s, loc, os\.str\(\)\)$', 'report := some os'),
                    (r'^(\w+)\.print_expectation\(os\)$', r'os := os ++ [Tok.expectation \1]')],
        stream_sinks=[(r'^os$', 'os')],
        tok_rules=STR_TOK + [(r'^seq_name$', 'Tok.seqName'), (r'^match_name$', 'Tok.matchName'), (r'^loc$', 'Tok.loc')],
    ),
    dict(
        name='seq_dtor', cxx='sequence_type::~sequence_type', file=SEQ,
        header=r'sequence_type::~sequence_type\(\)',
        lean_sig='{α : Type} (matchers0 retired0 : List α) : Option (Sev × List (Tok α)) × List α × List α',
        prologue=['let mut matchers := matchers0', 'let mut retired_matchers := retired0', 'let mut report : Option (Sev × List (Tok α)) := none'],
        epilogue='return (report, matchers, retired_matchers)',
        vars={'matchers': 'matchers', 'retired_matchers': 'retired_matchers'},
        decl_ignore=LOCK_DECL,
        local_types={'touched': 'Bool'},
        decl_rules=[(r'^std::ostringstream os$', 'let mut os : List (Tok α) := []')],
        pop_lists={'matchers': dict(front=r'^matchers\.begin\(\)$', pop=r'^%s->detach\(\)$'),
                   'retired_matchers': dict(front=r'^$', pop=r'^%s$', inline_pop=r'^retired_matchers\.begin\(\)->detach\(\)$')},
        stmt_rules=[(r'^send_report\(severity::nonfatal, location\(\), os\.str\(\)\)$', 'report := some (Sev.nonfatal, os)'),
                    (r'^(\w+)->print_expectation\(os\)$', r'os := os ++ [Tok.expectation \1]')],
        stream_sinks=[(r'^os$', 'os')],
        tok_rules=STR_TOK + [(r'^m->sequence_name\(\)$', 'Tok.seqName')],
    ),

    # ---- action traces: the statements a function executes, in order, as data ------------------------------------
    dict(
        name='run_actions', cxx='call_matcher::run_actions', file=MOCK,
        header=r'run_actions\(\s*call_params_type_t<Sig>&\s*params,\s*call_matcher_list<Sig>\s*&saturated_list\)\s*override',
        lean_sig='(is_forbidden can_be_called is_saturated : Bool) (actions : List Nat) : List Act',
        acts=True, prologue=['let mut acts : List Act := []'], epilogue='return acts', void_result='acts',
        vars={'actions': 'actions'}, decl_ignore=LOCK_DECL,
        noreturn=[r'^report_forbidden_call\(', r'^sequences->validate\(severity::fatal,'],
        expr_rules=[(r'^sequences->is_forbidden\(\)$', 'is_forbidden'), (r'^!sequences->can_be_called\(\)$', '(!can_be_called)'),
                    (r'^sequences->is_saturated\(\)$', 'is_saturated')],
        stmt_rules=[(r'^a\.action\(params\)$', 'acts := acts ++ [Act.on "action" a]')],
    ),
    dict(
        name='call_matcher_dtor', cxx='call_matcher::~call_matcher', file=MOCK,
        header=r'~call_matcher\(\)\s*override',
        lean_sig='(is_unfulfilled : Bool) : List Act',
        acts=True, prologue=['let mut acts : List Act := []'], epilogue='return acts', void_result='acts',
        decl_ignore=LOCK_DECL,
        expr_rules=[(r'^is_unfulfilled\(\)$', 'is_unfulfilled')],
    ),
    dict(
        name='mock_destroyed', cxx='call_matcher::mock_destroyed', file=MOCK,
        header=r'mock_destroyed\(\)\s*override',
        lean_sig='(is_unfulfilled : Bool) : List Act',
        acts=True, prologue=['let mut acts : List Act := []'], epilogue='return acts', void_result='acts',
        expr_rules=[(r'^is_unfulfilled\(\)$', 'is_unfulfilled')],
    ),
    dict(
        name='is_unfulfilled', cxx='call_matcher::is_unfulfilled', file=MOCK,
        header=r'is_unfulfilled\(\)\s*const\s*noexcept',
        lean_sig='(reported is_linked is_satisfied : Bool) : Bool',
        vars={'reported': 'reported'},
        expr_rules=[(r'^this->is_linked\(\)$', 'is_linked'), (r'^sequences->is_satisfied\(\)$', 'is_satisfied')],
    ),
    dict(
        name='report_missed', cxx='call_matcher::report_missed', file=MOCK,
        header=r'report_missed\(\s*char const \*reason\)\s*noexcept',
        lean_sig=': List Act',
        acts=True, prologue=['let mut acts : List Act := []'], epilogue='return acts', void_result='acts',
    ),
    dict(
        name='decommission', cxx='call_matcher_list::decommission', file=MOCK,
        header=r'void decommission\(\)',
        lean_sig='(list : List Nat) : List Act',
        acts=True, prologue=['let mut acts : List Act := []'], epilogue='return acts', void_result='acts',
        decl_ignore=LOCK_DECL, this_list='list',
        stmt_rules=[(r'^m\.mock_destroyed\(\)$', 'acts := acts ++ [Act.on "mock_destroyed" m]'),
                    (r'^m\.unlink\(\)$', 'acts := acts ++ [Act.on "unlink" m]')],
    ),
    dict(
        name='notify', cxx='lifetime_monitor::notify', file=LIFE,
        header=r'\n\s*notify\(\)\s*noexcept',
        lean_sig=': List Act',
        acts=True, prologue=['let mut acts : List Act := []'], epilogue='return acts', void_result='acts',
    ),
    dict(
        name='lifetime_monitor_dtor', cxx='lifetime_monitor::~lifetime_monitor', file=LIFE,
        header=r'~lifetime_monitor\(\)\s*override',
        lean_sig='(died : Bool) (this_ : Nat) (chain0 : List Nat) : List Act × List Nat',
        acts=True, prologue=['let mut acts : List Act := []', 'let mut chain := chain0'],
        epilogue='return (acts, chain)', void_result='(acts, chain)',
        decl_ignore=LOCK_DECL, vars={'died': 'died'},
        decl_rules=[(r'^std::ostringstream os$', '')],
        stream_sinks=[(r'^os$', 'os_')], tok_rules=[(r'.*', '')],
        chains=[(r'object_monitor', 'older_monitor', 'chain')],
    ),
    dict(
        name='deathwatched_dtor', cxx='deathwatched<T>::~deathwatched', file=LIFE,
        header=r'deathwatched<T>::~deathwatched\(\)',
        lean_sig='(chain : List Nat) : List Act',
        acts=True, prologue=['let mut acts : List Act := []'], epilogue='return acts', void_result='acts',
        decl_ignore=LOCK_DECL, stmt_ignore=IGNORE_HOOK,
        decl_rules=[(r'^std::ostringstream os$', '')],
        stream_sinks=[(r'^os$', 'os_')], tok_rules=[(r'.*', '')],
        expr_rules=[(r'^trompeloeil_lifetime_monitor$', '(!chain.isEmpty)')],
        chain_walks=[(r'trompeloeil_lifetime_monitor\.leak\(\)', 'older_monitor', 'chain')],
        stmt_rules=[(r'^m->notify\(\)$', 'acts := acts ++ [Act.on "notify" m]')],
    ),
    dict(
        name='tracer_dtor', cxx='tracer::~tracer', file=MOCK,
        header=r'~tracer\(\)',
        lean_sig='(this_ : Nat) (chain0 : List Nat) : List Nat',
        prologue=['let mut chain := chain0'], epilogue='return chain', void_result='chain',
        chains=[(r'tracer_obj\(\)', 'previous', 'chain')],
    ),
    dict(
        name='mock_func', cxx='trompeloeil::mock_func', file=MOCK,
        header=r'mock_func\(expectations<movable, Sig>& e,[^)]*\)',
        lean_sig='(found : Bool) : List Act',
        acts=True, prologue=['let mut acts : List Act := []'], epilogue='return acts', void_result='acts',
        decl_ignore=LOCK_DECL + [r'^call_params_type_t<void\(P\.\.\.\)> param_value', r'.*param_value.*std::forward'],
        pre=[(r'call_params_type_t<void\(P\.\.\.\)>\s*param_value\(std::forward<P>\(p\)\.\.\.\);', '')],
        typewords=['trace_agent'],
        noreturn=[r'^report_mismatch\('],
        decl_rules=[(r'^auto i = find\(e\.active, param_value\)$', 'acts := acts ++ [Act.stmt "find(e.active, param_value)"]'),
                    (r'^trace_agent ta = \{i->loc, i->name, tracer_obj\(\)\}$', 'acts := acts ++ [Act.stmt "trace_agent ta{i->loc, i->name, tracer_obj()}"]')],
        expr_rules=[(r'^!i$', '(!found)')],
        ret_rules=[(r'^i->return_value\(ta, param_value\)$', 'acts ++ [Act.stmt "return i->return_value(ta, param_value)"]')],
        try_catch='mock_func',
    ),

    # ---- sequence_matcher (one handle) and sequence_matchers<N> (all handles of one expectation) -------------------
    dict(
        name='handle_cost', cxx='sequence_matcher::cost', file=SEQ, module='HandleCost',
        header=r'unsigned\s+cost\(\)\s*const\s*noexcept(?=\s*\{\s*return seq)',
        lean_sig='(seq_attached : Bool) (cost_in_sequence : Nat) : Nat',
        expr_rules=[(r'^seq$', 'seq_attached'), (r'^seq->cost\(this\)$', 'cost_in_sequence')],
    ),
    dict(
        name='handle_validate', cxx='sequence_matcher::validate_match', file=SEQ, module='HandleValidate',
        header=r'void\s+validate_match\(\s*severity s,\s*char const \*match_name,\s*location loc\)\s*const(?=\s*\{\s*if \(seq\))',
        lean_sig='(seq_attached : Bool) : List Act',
        acts=True, prologue=['let mut acts : List Act := []'], epilogue='return acts', void_result='acts',
        expr_rules=[(r'^seq$', 'seq_attached')],
    ),
    dict(
        name='handle_retire', cxx='sequence_matcher::retire', file=SEQ, module='HandleRetire',
        header=r'void\s+retire\(\)\s*noexcept(?=\s*\{\s*this->unlink)',
        lean_sig='(seq_attached : Bool) : List Act',
        acts=True, prologue=['let mut acts : List Act := []'], epilogue='return acts', void_result='acts',
        expr_rules=[(r'^seq$', 'seq_attached')],
    ),
    dict(
        name='handle_detach', cxx='sequence_matcher::detach', file=SEQ, module='HandleDetach',
        header=r'void\s+detach\(\)\s*noexcept',
        lean_sig=': List Act',
        acts=True, prologue=['let mut acts : List Act := []'], epilogue='return acts', void_result='acts',
    ),
    dict(
        name='handle_retire_predecessors', cxx='sequence_matcher::retire_predecessors', file=SEQ, module='HandleRetirePredecessors',
        header=r'void\s+retire_predecessors\(\)\s*noexcept(?=\s*\{\s*if \(seq\))',
        lean_sig='(seq_attached : Bool) : List Act',
        acts=True, prologue=['let mut acts : List Act := []'], epilogue='return acts', void_result='acts',
        expr_rules=[(r'^seq$', 'seq_attached')],
    ),
    dict(
        name='all_validate', cxx='sequence_matchers<N>::validate', file=SEQ, module='AllValidate',
        header=r'void\s+validate\(\s*severity s,\s*char const \*match_name,\s*location loc\)(?=\s*\{\s*for)',
        lean_sig='(matchers : List Nat) : List Act',
        acts=True, prologue=['let mut acts : List Act := []'], epilogue='return acts', void_result='acts',
        vars={'matchers': 'matchers'},
        stmt_rules=[(r'^e\.validate_match\(s, match_name, loc\)$', 'acts := acts ++ [Act.on "validate_match" e]')],
    ),
    dict(
        name='all_retire', cxx='sequence_matchers<N>::retire', file=SEQ, module='AllRetire',
        header=r'void\s+retire\(\)\s*noexcept(?=\s*\{\s*for)',
        lean_sig='(matchers : List Nat) : List Act',
        acts=True, prologue=['let mut acts : List Act := []'], epilogue='return acts', void_result='acts',
        vars={'matchers': 'matchers'},
        stmt_rules=[(r'^e\.retire\(\)$', 'acts := acts ++ [Act.on "retire" e]')],
    ),
    dict(
        name='all_retire_predecessors', cxx='sequence_matchers<N>::retire_predecessors', file=SEQ, module='AllRetirePredecessors',
        header=r'void\s+retire_predecessors\(\)\s*noexcept(?=\s*\{\s*for)',
        lean_sig='(matchers : List Nat) : List Act',
        acts=True, prologue=['let mut acts : List Act := []'], epilogue='return acts', void_result='acts',
        vars={'matchers': 'matchers'},
        stmt_rules=[(r'^e\.retire_predecessors\(\)$', 'acts := acts ++ [Act.on "retire_predecessors" e]')],
    ),
    dict(
        name='can_be_called', cxx='sequence_handler<N>::can_be_called', file=MOCK, module='CanBeCalled',
        header=r'can_be_called\(\)\s*const\s*noexcept\s*override',
        lean_sig='(order : Nat) : Bool',
        expr_rules=[(r'^order\(\) != ~0U$', '(order != topU)')],
    ),
    dict(
        name='is_satisfied', cxx='sequence_handler_base::is_satisfied', file=MOCK, module='HandlerIsSatisfied',
        header=r'is_satisfied\(\)\s*const\s*noexcept(?=\s*\{\s*return call_count)',
        lean_sig='(min_calls max_calls call_count : Nat) : Bool',
        vars={'min_calls': 'min_calls', 'max_calls': 'max_calls', 'call_count': 'call_count'},
    ),
    dict(
        name='is_saturated', cxx='sequence_handler_base::is_saturated', file=MOCK, module='HandlerIsSaturated',
        header=r'is_saturated\(\)\s*const\s*noexcept(?=\s*\{\s*return call_count)',
        lean_sig='(min_calls max_calls call_count : Nat) : Bool',
        vars={'min_calls': 'min_calls', 'max_calls': 'max_calls', 'call_count': 'call_count'},
    ),
    dict(
        name='is_forbidden', cxx='sequence_handler_base::is_forbidden', file=MOCK, module='HandlerIsForbidden',
        header=r'is_forbidden\(\)\s*const\s*noexcept',
        lean_sig='(min_calls max_calls call_count : Nat) : Bool',
        vars={'min_calls': 'min_calls', 'max_calls': 'max_calls', 'call_count': 'call_count'},
        expr_rules=[(r'^0ULL$', '0')],
    ),
    dict(
        name='increment_call', cxx='sequence_handler_base::increment_call', file=MOCK, module='HandlerIncrementCall',
        header=r'increment_call\(\)\s*noexcept',
        lean_sig='(call_count0 : Nat) : Nat',
        prologue=['let mut call_count := call_count0'], epilogue='return call_count', void_result='call_count',
        vars={'call_count': 'call_count'}, stmt_ignore=IGNORE_HOOK,
    ),
    dict(
        name='is_optional', cxx='sequence_matcher::is_optional', file=SEQ, module='HandleIsOptional',
        header=r'sequence_matcher::is_optional\(\)\s*const\s*noexcept',
        lean_sig='(min_calls : Nat) : Bool',
        expr_rules=[(r'^sequence_handler\.get_min_calls\(\)$', 'min_calls')],
    ),

    # ---- printing -------------------------------------------------------------------------------------------------
    dict(
        name='hexdump', cxx='trompeloeil::hexdump', file=MOCK,
        header=r'inline void hexdump\(const void\* begin, size_t size, std::ostream& os\)',
        lean_sig='(bytes : List Nat) (size : Nat) : List HTok',
        pre=[(r'std::for_each\(bytes\.begin\(\), bytes\.end\(\),\s*\[&os, &byte_number\]\(unsigned (\w+)\)\s*\{', r'for (auto \1 : bytes) {'),
             (r'\}\s*\)\s*;', '}'),
             (r'mini_span<uint8_t const> bytes\(static_cast<uint8_t const\*>\(begin\), size\);', '')],
        prologue=['let mut os_ : List HTok := []'], epilogue='return os_', void_result='os_',
        vars={'bytes': 'bytes', 'size': 'size'},
        local_types={'byte_number': 'Nat'},
        decl_rules=[(r'^stream_sentry s = \{os\}$', 'os_ := os_ ++ [HTok.sentry]')],
        stream_sinks=[(r'^os$', 'os_')],
        tok_rules=[(r'^size$', 'HTok.num size'), (r'^byte$', 'HTok.byte byte'), (r'^("(?:\\.|[^"\\])*")$', r'HTok.lit \1'),
                   (r"^'\\n'$", 'HTok.lit "\\n"'), (r"^std::setfill\('0'\)$", 'HTok.setfill0'), (r'^std::hex$', 'HTok.hex'),
                   (r'^std::setw\(2\)$', 'HTok.setw2'), (r'^std::right$', 'HTok.right')],
    ),
    dict(
        name='stream_sentry_dtor', cxx='stream_sentry::~stream_sentry', file=MOCK,
        header=r'~stream_sentry\(\)',
        lean_sig=': List Act',
        acts=True, prologue=['let mut acts : List Act := []'], epilogue='return acts', void_result='acts',
    ),
    dict(
        name='stream_sentry_ctor', cxx='stream_sentry::stream_sentry', file=MOCK, kind='init_list',
        header=r'explicit\s+stream_sentry\(\s*std::ostream& os_\)',
    ),
    # ---- range matchers: the first-fit loops -----------------------------------------------------------------------
    dict(
        name='includes_elements', cxx='impl::includes_elements_checker::operator()', file=RANGE, module='IncludesElements',
        header=r'struct includes_elements_checker\s*\{\s*template <typename R, typename \.\.\. Es>\s*bool operator\(\)\(const R& range, const Es& \.\.\. elements\) const',
        lean_sig='{α μ : Type} (accepts : μ → α → Bool) (range : List α) (elements : List μ) : Bool',
        typewords=['std::vector'], ranges={'range': 'range'},
        pre=[(r'using std::begin;', ''), (r'using std::end;', ''), (r'using element_type = decltype\(\*it\);', ''),
             (r'std::vector<std::function<bool\(const element_type\s*&\)>>', 'std::vector'),
             (r'(?:impl::)?make_predicate_matcher<element_type>\((\w+)\)', r'\1'), (r'\{\s*elements\.\.\.\s*\}', '{elements}'),
             (r'std::find_if\(matchers\.begin\(\), matchers\.end\(\),\s*\[it\]\(const auto\s*&\s*(\w+)\)\s*\{\s*return \1\(\*it\);\s*\}\)', 'find_first_accepting(matchers, *it)')],
        vars={'elements': 'elements'},
        local_types={'found': 'Option Nat'},
        decl_rules=[(r'^std::vector matchers = \{elements\}$', 'let mut matchers : List μ := elements'),
                    (r'^std::vector matchers$', 'let mut matchers : List μ := []')],
        expr_rules=[(r'^find_first_accepting\(matchers, \*it\)$', 'matchers.findIdx? (fun matcher => accepts matcher it_elem)'),
                    (r'^found != matchers\.end\(\)$', 'found.isSome'), (r'^found == matchers\.end\(\)$', 'found.isNone'),
                    (r'^matchers\.empty\(\)$', 'matchers.isEmpty'), (r'^it == e$', 'it_at_end')],
        stmt_rules=[(r'^\*found = std::move\(matchers\.back\(\)\)$', 'matchers := assignFromBack matchers found'),
                    (r'^matchers\.pop_back\(\)$', 'matchers := matchers.dropLast'),
                    (r'^matchers\.push_back\(element\)$', 'matchers := matchers ++ [element]')],
    ),
    dict(
        name='includes_range', cxx='impl::includes_range_checker::operator()', file=RANGE, module='IncludesRange',
        header=r'struct includes_range_checker\s*\{\s*template <typename R, typename C>\s*bool operator\(\)\(const R& range, const C& elements\) const',
        lean_sig='{α μ : Type} (accepts : μ → α → Bool) (range : List α) (elements : List μ) : Bool',
        typewords=['std::vector'], ranges={'range': 'range'},
        pre=[(r'using std::begin;', ''), (r'using std::end;', ''), (r'using element_type = decltype\(\*it\);', ''),
             (r'std::vector<std::function<bool\(const element_type\s*&\)>>', 'std::vector'),
             (r'(?:impl::)?make_predicate_matcher<element_type>\((\w+)\)', r'\1'), (r'\{\s*elements\.\.\.\s*\}', '{elements}'),
             (r'std::find_if\(matchers\.begin\(\), matchers\.end\(\),\s*\[it\]\(const auto\s*&\s*(\w+)\)\s*\{\s*return \1\(\*it\);\s*\}\)', 'find_first_accepting(matchers, *it)')],
        vars={'elements': 'elements'},
        local_types={'found': 'Option Nat'},
        decl_rules=[(r'^std::vector matchers = \{elements\}$', 'let mut matchers : List μ := elements'),
                    (r'^std::vector matchers$', 'let mut matchers : List μ := []')],
        expr_rules=[(r'^find_first_accepting\(matchers, \*it\)$', 'matchers.findIdx? (fun matcher => accepts matcher it_elem)'),
                    (r'^found != matchers\.end\(\)$', 'found.isSome'), (r'^found == matchers\.end\(\)$', 'found.isNone'),
                    (r'^matchers\.empty\(\)$', 'matchers.isEmpty'), (r'^it == e$', 'it_at_end')],
        stmt_rules=[(r'^\*found = std::move\(matchers\.back\(\)\)$', 'matchers := assignFromBack matchers found'),
                    (r'^matchers\.pop_back\(\)$', 'matchers := matchers.dropLast'),
                    (r'^matchers\.push_back\(element\)$', 'matchers := matchers ++ [element]')],
    ),
    dict(
        name='is_permutation_elements', cxx='impl::is_permutation_elements_checker::operator()', file=RANGE, module='IsPermutationElements',
        header=r'struct is_permutation_elements_checker\s*\{\s*template <typename R, typename \.\.\. Es>\s*bool operator\(\)\(const R& range, const Es& \.\.\. elements\) const',
        lean_sig='{α μ : Type} (accepts : μ → α → Bool) (range : List α) (elements : List μ) : Bool',
        typewords=['std::vector'], ranges={'range': 'range'},
        pre=[(r'using std::begin;', ''), (r'using std::end;', ''), (r'using element_type = decltype\(\*it\);', ''),
             (r'std::vector<std::function<bool\(const element_type\s*&\)>>', 'std::vector'),
             (r'(?:impl::)?make_predicate_matcher<element_type>\((\w+)\)', r'\1'), (r'\{\s*elements\.\.\.\s*\}', '{elements}'),
             (r'std::find_if\(matchers\.begin\(\), matchers\.end\(\),\s*\[it\]\(const auto\s*&\s*(\w+)\)\s*\{\s*return \1\(\*it\);\s*\}\)', 'find_first_accepting(matchers, *it)')],
        vars={'elements': 'elements'},
        local_types={'found': 'Option Nat'},
        decl_rules=[(r'^std::vector matchers = \{elements\}$', 'let mut matchers : List μ := elements'),
                    (r'^std::vector matchers$', 'let mut matchers : List μ := []')],
        expr_rules=[(r'^find_first_accepting\(matchers, \*it\)$', 'matchers.findIdx? (fun matcher => accepts matcher it_elem)'),
                    (r'^found != matchers\.end\(\)$', 'found.isSome'), (r'^found == matchers\.end\(\)$', 'found.isNone'),
                    (r'^matchers\.empty\(\)$', 'matchers.isEmpty'), (r'^it == e$', 'it_at_end')],
        stmt_rules=[(r'^\*found = std::move\(matchers\.back\(\)\)$', 'matchers := assignFromBack matchers found'),
                    (r'^matchers\.pop_back\(\)$', 'matchers := matchers.dropLast'),
                    (r'^matchers\.push_back\(element\)$', 'matchers := matchers ++ [element]')],
    ),
    dict(
        name='is_permutation_range', cxx='impl::is_permutation_range_checker::operator()', file=RANGE, module='IsPermutationRange',
        header=r'struct is_permutation_range_checker\s*\{\s*template <typename R, typename C>\s*bool operator\(\)\(const R& range, const C& elements\) const',
        lean_sig='{α μ : Type} (accepts : μ → α → Bool) (range : List α) (elements : List μ) : Bool',
        typewords=['std::vector'], ranges={'range': 'range'},
        pre=[(r'using std::begin;', ''), (r'using std::end;', ''), (r'using element_type = decltype\(\*it\);', ''),
             (r'std::vector<std::function<bool\(const element_type\s*&\)>>', 'std::vector'),
             (r'(?:impl::)?make_predicate_matcher<element_type>\((\w+)\)', r'\1'), (r'\{\s*elements\.\.\.\s*\}', '{elements}'),
             (r'std::find_if\(matchers\.begin\(\), matchers\.end\(\),\s*\[it\]\(const auto\s*&\s*(\w+)\)\s*\{\s*return \1\(\*it\);\s*\}\)', 'find_first_accepting(matchers, *it)')],
        vars={'elements': 'elements'},
        local_types={'found': 'Option Nat'},
        decl_rules=[(r'^std::vector matchers = \{elements\}$', 'let mut matchers : List μ := elements'),
                    (r'^std::vector matchers$', 'let mut matchers : List μ := []')],
        expr_rules=[(r'^find_first_accepting\(matchers, \*it\)$', 'matchers.findIdx? (fun matcher => accepts matcher it_elem)'),
                    (r'^found != matchers\.end\(\)$', 'found.isSome'), (r'^found == matchers\.end\(\)$', 'found.isNone'),
                    (r'^matchers\.empty\(\)$', 'matchers.isEmpty'), (r'^it == e$', 'it_at_end')],
        stmt_rules=[(r'^\*found = std::move\(matchers\.back\(\)\)$', 'matchers := assignFromBack matchers found'),
                    (r'^matchers\.pop_back\(\)$', 'matchers := matchers.dropLast'),
                    (r'^matchers\.push_back\(element\)$', 'matchers := matchers ++ [element]')],
    ),
    # ---- any_of / all_of / none_of: the pack folds ----------------------------------------------------------------------
    dict(
        name='any_of_check', cxx='impl::any_of_checker::operator()', file=SETP, module='AnyOfCheck',
        header=r'struct any_of_checker\s*\{\s*template <typename T, typename \.\.\. Cs>\s*bool operator\(\)\(const T& t, const Cs& \.\.\. compare\) const',
        lean_sig='{μ : Type} (matches_ : μ → Bool) (compares : List μ) : Bool',
        # the pack fold `ignore(initializer_list<bool>{ (X)... })` evaluates X for every pack element, left to right
        pre=[(r'trompeloeil::ignore\(std::initializer_list<bool>\{\s*\((.*?)\)\.\.\.\s*\}\);', r'for (auto& compare : compares) { \1; }')],
        vars={'compares': 'compares'},
        local_types={'any_true': 'Bool', 'all_true': 'Bool'},
        expr_rules=[(r'^trompeloeil::param_matches\(compare, std::ref\(t\)\)$', 'matches_ compare')],
    ),
    dict(
        name='all_of_check', cxx='impl::all_of_checker::operator()', file=SETP, module='AllOfCheck',
        header=r'struct all_of_checker\s*\{\s*template <typename T, typename \.\.\. Cs>\s*bool operator\(\)\(const T& t, const Cs& \.\.\. compare\) const',
        lean_sig='{μ : Type} (matches_ : μ → Bool) (compares : List μ) : Bool',
        # the pack fold `ignore(initializer_list<bool>{ (X)... })` evaluates X for every pack element, left to right
        pre=[(r'trompeloeil::ignore\(std::initializer_list<bool>\{\s*\((.*?)\)\.\.\.\s*\}\);', r'for (auto& compare : compares) { \1; }')],
        vars={'compares': 'compares'},
        local_types={'any_true': 'Bool', 'all_true': 'Bool'},
        expr_rules=[(r'^trompeloeil::param_matches\(compare, std::ref\(t\)\)$', 'matches_ compare')],
    ),
    dict(
        name='none_of_check', cxx='impl::none_of_checker::operator()', file=SETP, module='NoneOfCheck',
        header=r'struct none_of_checker\s*\{\s*template <typename T, typename \.\.\. Cs>\s*bool operator\(\)\(const T& t, const Cs& \.\.\. compare\) const',
        lean_sig='{μ : Type} (matches_ : μ → Bool) (compares : List μ) : Bool',
        # the pack fold `ignore(initializer_list<bool>{ (X)... })` evaluates X for every pack element, left to right
        pre=[(r'trompeloeil::ignore\(std::initializer_list<bool>\{\s*\((.*?)\)\.\.\.\s*\}\);', r'for (auto& compare : compares) { \1; }')],
        vars={'compares': 'compares'},
        local_types={'any_true': 'Bool', 'all_true': 'Bool'},
        expr_rules=[(r'^trompeloeil::param_matches\(compare, std::ref\(t\)\)$', 'matches_ compare')],
    ),
    dict(
        name='decay_return_type_overloads', cxx='trompeloeil::decay_return_type (the overload set)', file=MOCK, kind='overloads',
        fn='decay_return_type', module='DecayReturnType', header='',
    ),
    dict(
        name='is_null_overloads', cxx='trompeloeil::is_null (the overload set) and is_null_redirect', file=MOCK, kind='overloads',
        fn='is_null', module='IsNullOverloads', header='',
    ),
    dict(
        name='is_null_redirect_overloads', cxx='trompeloeil::is_null_redirect', file=MOCK, kind='overloads',
        fn='is_null_redirect', module='IsNullRedirect', header='',
    ),
    dict(
        name='compare_table', cxx='matcher/compare.hpp: eq ne lt le gt ge and their functors', file='include/trompeloeil/matcher/compare.hpp',
        kind='compare_table', module='CompareTable', header='',
    ),
    dict(
        name='param_matches_matcher', cxx='trompeloeil::param_matches_impl(t, u, matcher const*)', file=MOCK, module='ParamMatchesMatcher',
        header=r'param_matches_impl\(\s*T const& t,\s*std::reference_wrapper<U> u,\s*matcher const\*\)\s*noexcept\(noexcept\(t\.matches\(u\.get\(\)\)\)\)',
        lean_sig='{τ υ : Type} (matches_ : τ → υ → Bool) (t : τ) (u : υ) : Bool',
        expr_rules=[(r'^t\.matches\(u\.get\(\)\)$', 'matches_ t u')],
    ),
    dict(
        name='param_matches_value', cxx='trompeloeil::param_matches_impl(t, u, void const*)', file=MOCK, module='ParamMatchesValue',
        header=r'param_matches_impl\(\s*T const& t,\s*std::reference_wrapper<U> u,\s*void const\*\)\s*noexcept\(noexcept\(::trompeloeil::identity<U>\(t\) == u\.get\(\)\)\)',
        pre=[(r'::trompeloeil::identity<U>\(t\)', 'IDENTITY_U(t)')],
        lean_sig='{τ υ : Type} (eqv : τ → υ → Bool) (t : τ) (u : υ) : Bool', no_respell=True,
        # `identity<U>(t)` is `t` itself when `t == u` is well formed and `U(t)` otherwise: the comparison is between the expected
        # value and the argument, expected value on the left
        expr_rules=[(r'^IDENTITY_U\(t\) == u\.get\(\)$', 'eqv t u')],
    ),
    dict(
        name='predicate_matches', cxx='predicate_matcher<Predicate, Printer, MatcherType, T...>::matches_', file='include/trompeloeil/matcher.hpp',
        module='PredicateMatches',
        header=r'matches_\(V&& v, detail::index_sequence<I\.\.\.>\)\s*const',
        pre=[(r'Predicate::operator\(\)\(', 'PRED('), (r'std::forward<V>\(v\)', 'v'), (r'std::get<I>\(value\)\.\.\.', 'value')],
        lean_sig='{α β : Type} (pred : α → β → Bool) (v : α) (value : β) : Bool', no_respell=True,
        # the actual argument is the predicate's first operand, the stored operand(s) follow
        expr_rules=[(r'^PRED\(v, value\)$', 'pred v value')],
    ),
    dict(
        name='member_is_check', cxx='impl::member_is_matcher<M>::operator()', file='include/trompeloeil/matcher/member_is.hpp', module='MemberIsCheck',
        header=r'bool operator\(\)\(const V& v, const C& c\) const',
        pre=[(r'std::ref\(m\(v\)\)', 'MEMBER_OF_V')],
        lean_sig='{γ μ : Type} (param_matches : γ → μ → Bool) (c : γ) (member_of_v : μ) : Bool', no_respell=True,
        expr_rules=[(r'^trompeloeil::param_matches\(c, MEMBER_OF_V\)$', 'param_matches c member_of_v')],
    ),
    dict(
        name='any_predicate', cxx='lambdas::any_predicate::operator()', file='include/trompeloeil/matcher/any.hpp', module='AnyPredicate',
        header=r'struct any_predicate\s*\{\s*template <typename T>\s*bool\s*operator\(\)\(\s*T&&\)\s*const',
        lean_sig=': Bool',
    ),
    dict(
        name='not_matches', cxx='not_matcher<M>::matches', file='include/trompeloeil/matcher/not.hpp', module='NotMatches',
        header=r'matches\(\s*const U& u\)\s*const\s*noexcept\(noexcept\(!std::declval<M>\(\)\.matches\(u\)\)\)',
        lean_sig='(m_matches_u : Bool) : Bool',
        expr_rules=[(r'^m\.matches\(u\)$', 'm_matches_u')],
    ),
    dict(
        name='deref_matches', cxx='ptr_deref<M>::matches', file='include/trompeloeil/matcher/deref.hpp', module='DerefMatches',
        header=r'matches\(\s*const U& u\)\s*const\s*noexcept\(noexcept\(std::declval<M>\(\)\.matches\(\*u\)\)\)',
        lean_sig='(u_not_null : Bool) (m_matches_pointee : Bool) : Bool',
        expr_rules=[(r'^u != nullptr$', 'u_not_null'), (r'^m\.matches\(\*u\)$', 'm_matches_pointee')],
    ),
    dict(
        name='regex_check', cxx='lambdas::regex_check::operator()', file='include/trompeloeil/matcher/re.hpp', module='RegexCheck',
        header=r'operator\(\)\(\s*string_helper str,\s*T const&\)\s*const',
        lean_sig='(str_not_null : Bool) (regex_search : Bool) : Bool',
        expr_rules=[(r'^str$', 'str_not_null'), (r'^std::regex_search\(str\.begin\(\), str\.end\(\), re, match_type\)$', 'regex_search')],
        count=[(r'\boperator\s*\(\s*\)\s*\(', 2, 'regex_check and regex_printer define one call operator each, so every kind of string '
                'argument takes the translated path, match flags included')],
    ),
    dict(
        name='string_helper_bool', cxx='regex_check::string_helper::operator bool', file='include/trompeloeil/matcher/re.hpp', module='StringHelperBool',
        header=r'operator bool\(\) const',
        lean_sig='(begin_not_null : Bool) : Bool',
        expr_rules=[(r'^begin_$', 'begin_not_null')],
    ),
]

# ----------------------------------------------------------------------------------------------
# the intrusive ring: list_elem<T> / list<T, Disposer>.  The heap is the Lean value `h : Ring.Heap`; a member access
# `x->next`, `x.next`, `next` (= this->next) reads it, an assignment to such a member writes it (`setNext`/`setPrev`).
# Pointer paths are translated structurally by `ptr_path`; anything that is not a path of next/prev members over
# `this`, a parameter or a local fails.

def ptr_path(text, em):
    text = text.strip()
    parts = re.split(r'->|\.', text)
    base = parts[0].strip()
    if base in ('next', 'prev'):
        term = '(h.%s this)' % base
    elif base == 'this':
        term = 'this'
    elif base.startswith('&') and base[1:] in em.vars:
        term = em.vars[base[1:]]
    elif base in em.vars:
        term = em.vars[base]
    else:
        raise KeyError(text)
    for f in parts[1:]:
        f = f.strip()
        if f not in ('next', 'prev'):
            raise KeyError(text)
        term = '(h.%s %s)' % (f, term)
    return term


def ring_expr(m, em):
    try:
        return ptr_path(m.group(0), em)
    except KeyError:
        return None


def ring_assign(m, em):
    lhs, rhs = m.group(1).strip(), m.group(2).strip()
    try:
        parts = re.split(r'(->|\.)', lhs)
        field = parts[-1].strip()
        if field not in ('next', 'prev'):
            return None
        owner = ''.join(parts[:-2]).strip() if len(parts) >= 3 else 'this'
        return 'h := h.set%s %s %s' % (field.capitalize(), ptr_path(owner, em), ptr_path(rhs, em))
    except KeyError:
        return None


RING_IGNORE = IGNORE_HOOK + [r'^(\w+\.)?invariant_check\(\)$', r'^TROMPELOEIL_ASSERT\(.*\)$']
RING_EXPR = [(r'^[&\w]+(?:(?:->|\.)\w+)*$', ring_expr)]
RING_STMT = [(r'^([\w.>-]+) = ([&\w.>-]+)$', ring_assign)]


FUNCTIONS += [
    dict(
        name='ring_unlink', cxx='list_elem<T>::unlink', file=MOCK, module='RingUnlink', base='Ring',
        header=r'\n\s*void\s+unlink\(\)\s*noexcept',
        lean_sig='(this : Ring.Ptr) (h0 : Ring.Heap Ring.Ptr) : Ring.Heap Ring.Ptr',
        prologue=['let mut h := h0'], epilogue='return h', void_result='h',
        vars={'this': 'this'},
        stmt_ignore=RING_IGNORE, expr_rules=RING_EXPR, stmt_rules=RING_STMT,
    ),
    dict(
        name='ring_move_assign', cxx='list_elem<T>::operator=(list_elem&&)', file=MOCK, module='RingMoveAssign', base='Ring',
        imports=['RingUnlink'],
        header=r'operator=\(\s*list_elem\s*&&\s*r\)\s*noexcept',
        lean_sig='(this r : Ring.Ptr) (h0 : Ring.Heap Ring.Ptr) : Ring.Heap Ring.Ptr',
        prologue=['let mut h := h0'], epilogue='return h', void_result='h',
        vars={'this': 'this', 'r': 'r'},
        stmt_ignore=RING_IGNORE,
        expr_rules=[(r'^this != &r$', '(this != r)')] + RING_EXPR,
        stmt_rules=[(r'^(\w+)\.unlink\(\)$', r'h := ring_unlink \1 h')] + RING_STMT,
        ret_rules=[(r'^\*this$', 'h')],
    ),
    dict(
        name='ring_push_front', cxx='list<T, Disposer>::push_front', file=MOCK, module='RingPushFront', base='Ring',
        header=r'list<T, Disposer>::push_front\(\s*T\s*\*\s*t\)\s*noexcept\s*->\s*iterator',
        pre=[(r'iterator\{(\w+)\}', r'\1')],
        lean_sig='(this t : Ring.Ptr) (h0 : Ring.Heap Ring.Ptr) : Ring.Heap Ring.Ptr',
        prologue=['let mut h := h0'], epilogue='return h', void_result='h',
        vars={'this': 'this', 't': 't'},
        stmt_ignore=RING_IGNORE, expr_rules=RING_EXPR, stmt_rules=RING_STMT,
        ret_rules=[(r'^t$', 'h')],
    ),
    dict(
        name='ring_push_back', cxx='list<T, Disposer>::push_back', file=MOCK, module='RingPushBack', base='Ring',
        header=r'list<T, Disposer>::push_back\(\s*T\s*\*\s*t\)\s*noexcept\s*->\s*iterator',
        pre=[(r'iterator\{(\w+)\}', r'\1')],
        lean_sig='(this t : Ring.Ptr) (h0 : Ring.Heap Ring.Ptr) : Ring.Heap Ring.Ptr',
        prologue=['let mut h := h0'], epilogue='return h', void_result='h',
        vars={'this': 'this', 't': 't'},
        stmt_ignore=RING_IGNORE, expr_rules=RING_EXPR, stmt_rules=RING_STMT,
        ret_rules=[(r'^t$', 'h')],
    ),
    dict(
        name='ring_begin', cxx='list<T, Disposer>::begin', file=MOCK, module='RingBegin', base='Ring',
        header=r'list<T, Disposer>::begin\(\)\s*const\s*noexcept\s*->\s*iterator',
        pre=[(r'iterator\{(\w+)\}', r'\1')],
        lean_sig='(this : Ring.Ptr) (h : Ring.Heap Ring.Ptr) : Ring.Ptr',
        vars={'this': 'this'}, expr_rules=RING_EXPR,
    ),
    dict(
        name='ring_end', cxx='list<T, Disposer>::end', file=MOCK, module='RingEnd', base='Ring',
        header=r'list<T, Disposer>::end\(\)\s*const\s*noexcept\s*->\s*iterator',
        pre=[(r'iterator\{(\w+)\}', r'\1')],
        lean_sig='(this : Ring.Ptr) (h : Ring.Heap Ring.Ptr) : Ring.Ptr',
        vars={'this': 'this'}, expr_rules=RING_EXPR,
    ),
    dict(
        name='ring_iter_incr', cxx='list<T, Disposer>::iterator::operator++', file=MOCK, module='RingIterIncr', base='Ring',
        header=r'iterator&\s*operator\+\+\(\)\s*noexcept',
        lean_sig='(p0 : Ring.Ptr) (h : Ring.Heap Ring.Ptr) : Ring.Ptr',
        prologue=['let mut p := p0'], epilogue='return p',
        vars={'p': 'p'}, expr_rules=RING_EXPR,
        ret_rules=[(r'^\*this$', 'p')],
    ),
    dict(
        name='ring_is_linked', cxx='list_elem<T>::is_linked', file=MOCK, module='RingIsLinked', base='Ring',
        header=r'\n\s*bool\s+is_linked\(\)\s*const\s*noexcept',
        lean_sig='(this : Ring.Ptr) (h : Ring.Heap Ring.Ptr) : Bool',
        vars={'this': 'this'}, stmt_ignore=RING_IGNORE,
        expr_rules=[(r'^next != this$', '((h.next this) != this)')] + RING_EXPR,
    ),
    dict(
        name='ring_elem_dtor', cxx='list_elem<T>::~list_elem', file=MOCK, module='RingElemDtor', base='Ring',
        imports=['RingUnlink'],
        header=r'virtual\s+~list_elem\(\)',
        lean_sig='(this : Ring.Ptr) (h0 : Ring.Heap Ring.Ptr) : Ring.Heap Ring.Ptr',
        prologue=['let mut h := h0'], epilogue='return h', void_result='h',
        vars={'this': 'this'},
        stmt_rules=[(r'^unlink\(\)$', 'h := ring_unlink this h')],
    ),
    dict(
        name='ring_list_dtor', cxx='list<T, Disposer>::~list', file=MOCK, module='RingListDtor', base='Ring',
        imports=['RingUnlink', 'RingBegin', 'RingEnd', 'RingIterIncr'],
        header=r'list<T, Disposer>::~list\(\)',
        lean_sig='(this : Ring.Ptr) (fuel : Nat) (h0 : Ring.Heap Ring.Ptr) : Ring.Heap Ring.Ptr',
        while_fuel='fuel',
        prologue=['let mut h := h0'], epilogue='return h', void_result='h',
        vars={'this': 'this'},
        # an iterator is the pointer it holds; `delete t` runs ~T, whose last step is ~list_elem() = unlink()
        decl_rules=[(r'^auto i = this->begin\(\)$', 'let mut i := ring_begin this h'),
                    (r'^auto & elem = \*i$', 'let elem := i')],
        expr_rules=[(r'^i != this->end\(\)$', '(i != ring_end this h)')],
        stmt_rules=[(r'^\+\+i$', 'i := ring_iter_incr i h'),
                    (r'^Disposer::dispose\(&elem\)$', 'h := ring_unlink elem h')],
    ),
]

# ----------------------------------------------------------------------------------------------
# matching one expectation against a call, and the no-match report (C01, C04, C08, C15)

FUNCTIONS += [
    dict(
        name='match_conditions', cxx='call_matcher::match_conditions', file=MOCK, module='MatchConditions',
        header=r'\n\s*match_conditions\(\s*call_params_type_t<Sig> const\s*&\s*params\)\s*const',
        lean_sig='{κ : Type} (check : κ → Bool) (conditions : List κ) : Bool × List κ',
        prologue=['let mut evals : List κ := []'], epilogue='return (true, evals)',
        vars={'conditions': 'conditions'},
        eval_log=[(r'^(\w+)\.check\(params\)$', r'evals := evals ++ [\1]')],
        expr_rules=[(r'^(\w+)\.check\(params\)$', r'check \1')],
        ret_rules=[(r'^false$', '(false, evals)'), (r'^true$', '(true, evals)')],
    ),
    dict(
        name='call_matcher_matches', cxx='call_matcher::matches', file=MOCK, module='CallMatcherMatches', imports=['MatchConditions'],
        header=r'\n\s*matches\(\s*call_params_type_t<Sig> const\s*&\s*params\)\s*const\s*override',
        lean_sig='{κ : Type} (paramsOk : Bool) (check : κ → Bool) (conditions : List κ) : Bool × List κ',
        # `A && B`: B (which evaluates the user's WITH predicates) runs only if A holds
        ret_rules=[(r'^match_parameters\(val, params\) && match_conditions\(params\)$',
                    'if paramsOk then match_conditions check conditions else (false, [])')],
    ),
    dict(
        name='report_mismatch_member', cxx='call_matcher::report_mismatch', file=MOCK, module='ReportMismatchMember',
        header=r'\n\s*report_mismatch\(\s*std::ostream\s*&\s*os,\s*call_params_type_t<Sig> const\s*&\s*params\)\s*override',
        lean_sig='{κ : Type} (paramsOk : Bool) (check : κ → Bool) (conditions : List κ) : Bool × List (MTok κ) × List κ',
        prologue=['let mut reported := false', 'let mut os : List (MTok κ) := []', 'let mut evals : List κ := []'],
        epilogue='return (reported, os, evals)',
        vars={'conditions': 'conditions', 'reported': 'reported'},
        eval_log=[(r'^(\w+)\.check\(params\)$', r'evals := evals ++ [\1]')],
        expr_rules=[(r'^(\w+)\.check\(params\)$', r'check \1'), (r'^match_parameters\(val, params\)$', 'paramsOk')],
        stmt_rules=[(r'^report_signature\(os\)$', 'os := os ++ [MTok.signature]'),
                    (r'^::trompeloeil::print_mismatch\(os, val, params\)$', 'os := os ++ [MTok.paramMismatch]')],
        stream_sinks=[(r'^os$', 'os')],
        tok_rules=[(r'^"(?:\\.|[^"\\])*"$', 'MTok.text'), (r"^'(?:\\.|[^'\\])*'$", 'MTok.text'),
                   (r'^(\w+)\.name\(\)$', r'MTok.failedWith \1')],
        ret_rules=[(r'^os$', '(reported, os, evals)')],
    ),
    dict(
        name='report_mismatch_free', cxx='trompeloeil::report_mismatch', file=MOCK, module='ReportMismatchFree',
        header=r'\n\s*report_mismatch\(\s*call_matcher_list\s*<Sig>\s*&\s*matcher_list,[^)]*\)',
        pre=[(r'location\{\}', 'location()')],
        lean_sig='{α : Type} (matches_ : α → Bool) (matcher_list saturated_list : List α) : List (Tok α)',
        vars={'matcher_list': 'matcher_list', 'saturated_list': 'saturated_list'},
        local_types={'saturated_match': 'Bool'},
        decl_rules=[(r'^std::ostringstream os$', 'let mut os : List (Tok α) := []')],
        expr_rules=[(r'^(\w+)\.matches\(p\)$', r'matches_ \1')],
        stmt_rules=[(r'^stream_params\(os, p\)$', 'os := os ++ [Tok.text]'),
                    (r'^(\w+)\.report_mismatch\(os, p\)$', r'os := os ++ [Tok.tried \1]'),
                    (r'^send_report\(severity::fatal, location\(\), os\.str\(\)\)$', 'return os')],
        stmt_ignore=[r'^std::abort\(\)$'],
        stream_sinks=[(r'^os$', 'os'), (r'^(\w+)\.report_signature\(os\)$', r'os|Tok.expectation \1')],
        tok_rules=STR_TOK + [(r'^name$', 'Tok.matchName')],
        epilogue='return os',
    ),
    dict(
        name='hook_last', cxx='call_matcher::hook_last', file=MOCK, module='HookLast',
        header=r'\n\s*hook_last\(\s*call_matcher_list<Sig>\s*&\s*list\)\s*noexcept',
        lean_sig='{α : Type} (this : α) (list0 : List α) : List α',
        prologue=['let mut list := list0'], epilogue='return list',
        vars={'this': 'this'},
        stmt_rules=[(r'^list\.push_front\(this\)$', 'list := this :: list')],
        ret_rules=[(r'^this$', 'list')],
    ),
]

# ----------------------------------------------------------------------------------------------
# small state-changing functions: call limits (C03), sequence registration (C05), the reporter and tracer slots (C16, C17)

FUNCTIONS += [
    dict(
        name='set_limits', cxx='sequence_handler_base::set_limits', file=MOCK, module='SetLimits',
        header=r'\n\s*set_limits\(size_t L, size_t H\)\s*noexcept',
        lean_sig='(L H : Nat) (lim0 : Nat × Nat) : Nat × Nat',
        prologue=['let mut min_calls := lim0.1', 'let mut max_calls := lim0.2'], epilogue='return (min_calls, max_calls)',
        vars={'L': 'L', 'H': 'H', 'min_calls': 'min_calls', 'max_calls': 'max_calls'},
        stmt_ignore=IGNORE_HOOK,
    ),
    dict(
        name='runtime_times', cxx='runtime_times::action', file=MOCK, module='RuntimeTimes', imports=['SetLimits'],
        header=r'action\(call_modifier<Matcher, modifier_tag, Parent>&&\s*m,\s*rt_multiplicity bounds\)',
        # `throw std::logic_error{…};` leaves the function; the expectation under construction is owned by `m` and dies with it
        pre=[(r'throw\s+std::logic_error\s*\{[^}]*\}\s*;', 'return THROW_LOGIC_ERROR;')],
        lean_sig='(low high : Nat) (lim0 : Nat × Nat) : Option (Nat × Nat)',
        prologue=['let mut lim := lim0'], epilogue='return some lim',
        decl_ignore=LOCK_DECL, stmt_ignore=[r'^static_assert\(.*\)$'],
        expr_rules=[(r'^bounds\.high < bounds\.low$', '(high < low)')],
        stmt_rules=[(r'^m\.matcher->sequences->set_limits\(bounds\.low, bounds\.high\)$', 'lim := set_limits low high lim')],
        ret_rules=[(r'^THROW_LOGIC_ERROR$', 'none'), (r'^std::move\(m\)\.matcher$', 'some lim')],
    ),
    dict(
        name='add_last', cxx='sequence_type::add_last', file=SEQ, module='AddLast',
        header=r'sequence_type::add_last\(\s*sequence_matcher\s*\*\s*m\)\s*noexcept',
        lean_sig='{α : Type} (m : α) (matchers0 : List α) : List α',
        prologue=['let mut matchers := matchers0'], epilogue='return matchers',
        vars={'m': 'm'},
        stmt_rules=[(r'^matchers\.push_back\(m\)$', 'matchers := matchers ++ [m]')],
    ),
    dict(
        name='add_retired', cxx='sequence_type::add_retired', file=SEQ, module='AddRetired',
        header=r'sequence_type::add_retired\(\s*sequence_matcher\s*\*\s*m\)\s*noexcept',
        lean_sig='{α : Type} (m : α) (retired0 : List α) : List α',
        prologue=['let mut retired_matchers := retired0'], epilogue='return retired_matchers',
        vars={'m': 'm'},
        stmt_rules=[(r'^retired_matchers\.push_back\(m\)$', 'retired_matchers := retired_matchers ++ [m]')],
    ),
    dict(
        name='set_tracer', cxx='trompeloeil::set_tracer', file=MOCK, module='SetTracer',
        header=r'\n\s*set_tracer\(\s*tracer\s*\*\s*obj\)\s*noexcept',
        lean_sig='{τ : Type} (obj : Option τ) (cur0 : Option τ) : Option τ × Option τ',
        vars={'obj': 'obj'},
        decl_rules=[(r'^auto & ptr = tracer_obj\(\)$', 'let mut ptr := cur0')],
        ret_rules=[(r'^rv$', '(rv, ptr)')],
    ),
    dict(
        name='set_reporter1', cxx='trompeloeil::set_reporter(reporter_func)', file=MOCK, module='SetReporter1',
        header=r'\n\s*set_reporter\(\s*reporter_func f\)',
        lean_sig='{ρ : Type} (f : ρ) (rep0 : ρ) : ρ × ρ',
        # (what is returned, what is installed afterwards)
        ret_rules=[(r'^detail::exchange\(reporter_obj\(\), std::move\(f\)\)$', '(rep0, f)')],
    ),
    dict(
        name='set_reporter2', cxx='trompeloeil::set_reporter(reporter_func, ok_reporter_func)', file=MOCK, module='SetReporter2',
        imports=['SetReporter1'],
        header=r'\n\s*set_reporter\(\s*reporter_func rf,\s*ok_reporter_func orf\)',
        pre=[(r'(?s)return\s*\{(.*)\}\s*;', r'return PAIR(\1);')],
        lean_sig='{ρ κ : Type} (rf : ρ) (orf : κ) (rep0 : ρ) (ok0 : κ) : (ρ × κ) × (ρ × κ)',
        # ((returned pair), (installed afterwards)); the first component goes through the one-argument overload
        ret_rules=[(r'^PAIR\(set_reporter\(std::move\(rf\)\), detail::exchange\(ok_reporter_obj\(\), std::move\(orf\)\)\)$',
                    '(((set_reporter1 rf rep0).1, ok0), ((set_reporter1 rf rep0).2, orf))')],
    ),
]

# ----------------------------------------------------------------------------------------------
# registering a destruction requirement with its object (C13): the chain `object -> newest requirement -> older -> …`

FUNCTIONS += [
    dict(
        name='chain_lifetime_monitor', cxx='trompeloeil::chain_lifetime_monitor', file=LIFE, module='ChainLifetimeMonitor',
        header=r'chain_lifetime_monitor\(lifetime_monitor\*\s*monitor,\s*lifetime_monitor\*\s*older\)\s*noexcept',
        nth=1,      # 0 is the forward declaration (no body)
        lean_sig='{μ : Type} [DecidableEq μ] (monitor : μ) (older : Option μ) (older_of0 : μ → Option μ) : μ → Option μ',
        prologue=['let mut older_of := older_of0'], epilogue='return older_of',
        vars={'monitor': 'monitor', 'older': 'older'},
        stmt_rules=[(r'^monitor->older_monitor = older$', 'older_of := fun x => if x = monitor then older else older_of x')],
    ),
    dict(
        name='expect_death', cxx='deathwatched<T>::trompeloeil_expect_death', file=LIFE, module='ExpectDeath',
        imports=['ChainLifetimeMonitor'],
        header=r'trompeloeil_expect_death\(\s*trompeloeil::lifetime_monitor\*\s*monitor\)\s*const\s*noexcept',
        lean_sig='{μ : Type} [DecidableEq μ] (monitor : μ) (head0 : Option μ) (older_of0 : μ → Option μ) : Option μ × (μ → Option μ)',
        prologue=['let mut head := head0', 'let mut older_of := older_of0'], epilogue='return (head, older_of)',
        vars={'monitor': 'monitor'},
        decl_ignore=LOCK_DECL, stmt_ignore=IGNORE_HOOK,
        stmt_rules=[(r'^chain_lifetime_monitor\(monitor, trompeloeil_lifetime_monitor\.leak\(\)\)$',
                     'older_of := chain_lifetime_monitor monitor head older_of'),
                    (r'^trompeloeil_lifetime_monitor = monitor$', 'head := some monitor')],
        ret_rules=[(r'^trompeloeil_lifetime_monitor\.leak\(\)$', '(head, older_of)')],
    ),
    dict(
        name='null_on_move_copy_ctor', cxx='null_on_move<T>::null_on_move(null_on_move const&)', file=MOCK, module='NullOnMoveCopyCtor',
        header=r'null_on_move\(\s*null_on_move const&\)\s*noexcept',
        require=[(r'struct null_on_move\s*\{.*?\n\s*T\*\s*p\s*=\s*nullptr;', 'the member is no longer declared `T* p = nullptr;`')],
        lean_sig='{μ : Type} (other : Option μ) : Option μ',
        # no member initialiser, empty body: the new object has the default member initialiser's value, whatever `other` holds
        prologue=['let p : Option μ := none'], epilogue='return p',
    ),
    dict(
        name='null_on_move_move_ctor', cxx='null_on_move<T>::null_on_move(null_on_move&&)', file=MOCK, module='NullOnMoveMoveCtor',
        header=r'null_on_move\(\s*null_on_move&&\)\s*noexcept',
        require=[(r'struct null_on_move\s*\{.*?\n\s*T\*\s*p\s*=\s*nullptr;', 'the member is no longer declared `T* p = nullptr;`')],
        lean_sig='{μ : Type} (other : Option μ) : Option μ',
        prologue=['let p : Option μ := none'], epilogue='return p',
    ),
    dict(
        name='null_on_move_assign_ptr', cxx='null_on_move<T>::operator=(T*)', file=MOCK, module='NullOnMoveAssignPtr',
        header=r'operator=\(\s*T\*\s*t\)\s*noexcept',
        lean_sig='{μ : Type} (t : Option μ) (p0 : Option μ) : Option μ',
        prologue=['let mut p := p0'], epilogue='return p',
        vars={'t': 't', 'p': 'p'},
        ret_rules=[(r'^\*this$', 'p')],
    ),
    dict(
        name='null_on_move_assign_copy', cxx='null_on_move<T>::operator=(const null_on_move&)', file=MOCK, module='NullOnMoveAssignCopy',
        header=r'operator=\(\s*const null_on_move&\)\s*noexcept',
        lean_sig='{μ : Type} (p0 : Option μ) : Option μ',
        prologue=['let mut p := p0'], epilogue='return p',
        vars={'p': 'p'},
        ret_rules=[(r'^\*this$', 'p')],
    ),
    dict(
        name='null_on_move_assign_move', cxx='null_on_move<T>::operator=(null_on_move&&)', file=MOCK, module='NullOnMoveAssignMove',
        header=r'operator=\(\s*null_on_move&&\)\s*noexcept',
        lean_sig='{μ : Type} (p0 : Option μ) : Option μ',
        prologue=['let mut p := p0'], epilogue='return p',
        vars={'p': 'p'},
        ret_rules=[(r'^\*this$', 'p')],
    ),
]

# ----------------------------------------------------------------------------------------------
# mocked coroutines (C20): how the CO_ clauses register with the expectation, and the coroutine body.
# Of each `action` only the part under `if constexpr (valid)` is translated (what precedes it computes `valid` and the
# static_asserts, which tools/translate.py tabulates for C19); `valid` is a parameter.

CO_SLICE = [(r'(?s)^.*?(if\s+constexpr\s*\(\s*valid\s*\))', r'\1'), (r'return\s*\{\s*std::move\(m\)\.matcher\s*\}\s*;', 'return;'),
            (r'using\s+\w+\s*=[^;]*;', ''),
            (r'std::make_shared<yield_expr_list<signature>>\(\)', 'MAKE_SHARED_YIELD_LIST()'),
            (r'new yield_expr<signature, E>\(std::forward<E>\(e\)\)', 'NEW_YIELD_EXPR(e)'),
            (r'std::forward<H>\(h\)', 'FWD(h)'), (r'new handler\(', 'NEW_HANDLER('), (r'new ret_handler\(', 'NEW_RET_HANDLER(')]
CO_EXPR = [(r'^valid$', 'valid'), (r'^!m\.matcher->yield_expressions$', 'st.ylist.isNone')]
CO_MAKE = (r'^m\.matcher->yield_expressions = MAKE_SHARED_YIELD_LIST\(\)$', 'st := st.fresh')

FUNCTIONS += [
    dict(
        name='handle_co_yield', cxx='handle_co_yield::action', file=CORO, module='HandleCoYield',
        header=r'struct handle_co_yield\s*\{[^{]*?action\(\s*call_modifier<Matcher, modifier_tag, Parent>&&\s*m,\s*E&&\s*e\)',
        pre=CO_SLICE,
        lean_sig='{ε η : Type} (valid : Bool) (e : ε) (st0 : CoSt ε η) : CoSt ε η',
        prologue=['let mut st := st0'], epilogue='return st', void_result='st',
        vars={'e': 'e'}, typewords=['yield_expr'],
        expr_rules=CO_EXPR,
        decl_rules=[(r'^auto expr = NEW_YIELD_EXPR\(e\)$', 'let expr := e')],
        stmt_rules=[CO_MAKE, (r'^m\.matcher->yield_expressions->push_back\(expr\)$', 'st := st.pushBack expr')],
    ),
    dict(
        name='handle_co_return', cxx='handle_co_return::action', file=CORO, module='HandleCoReturn',
        header=r'struct handle_co_return\s*\{[^{]*?action\(\s*call_modifier<Matcher, modifier_tag, Parent>&&\s*m,\s*H&&\s*h\)',
        pre=CO_SLICE,
        lean_sig='{ε η : Type} (valid : Bool) (h : η) (st0 : CoSt ε η) : CoSt ε η',
        prologue=['let mut st := st0'], epilogue='return st', void_result='st',
        vars={'h': 'h'},
        expr_rules=CO_EXPR,
        stmt_rules=[CO_MAKE,
                    (r'^m\.matcher->return_handler_obj\.reset\(NEW_HANDLER\(FWD\(h\), m\.matcher->yield_expressions\)\)$',
                     'st := st.setHandler h')],
    ),
    dict(
        name='handle_co_throw', cxx='handle_co_throw::action', file=CORO, module='HandleCoThrow',
        header=r'struct handle_co_throw\s*\{[^{]*?action\(\s*call_modifier<Matcher, modifier_tag, Parent>&&\s*m,\s*H&&\s*h\)',
        pre=CO_SLICE,
        lean_sig='{ε η : Type} (valid : Bool) (h : η) (st0 : CoSt ε η) : CoSt ε η',
        prologue=['let mut st := st0'], epilogue='return st', void_result='st',
        vars={'h': 'h'},
        expr_rules=CO_EXPR,
        # the thrower is wrapped (co_throw_handler_t) and installed exactly like a CO_RETURN handler
        decl_rules=[(r'^auto handler = throw_handler_t\(FWD\(h\)\)$', 'let handler := h')],
        stmt_rules=[CO_MAKE,
                    (r'^m\.matcher->return_handler_obj\.reset\(NEW_RET_HANDLER\(std::move\(handler\), m\.matcher->yield_expressions\)\)$',
                     'st := st.setHandler handler')],
    ),
    dict(
        name='co_body', cxx='co_return_handler_t::call', file=CORO, module='CoBody',
        header=r'\n\s*call\(\s*trace_agent&[^,]*,\s*call_params_type_t<Sig>&\s*params\)\s*override',
        pre=[(r'using\s+\w+\s*=[^;]*;', ''), (r'requires\s*\{\s*std::declval<promise_type&>\(\)\.yield_value\(std::declval<value_type>\(\)\);\s*\}', 'CAN_YIELD'),   # probed with an rvalue, as `co_yield e.expr(params)` yields one
             (r'co_yield\s+(\w+)\.expr\(params\)\s*;', r'CO_YIELD(\1);'), (r'co_return\s+func\(params\)\s*;', 'CO_RETURN();'),
             (r'\*yields', 'yields')],
        lean_sig='{ε : Type} (canYield : Bool) (yields : List ε) : List (CoAct ε)',
        prologue=['let mut acts : List (CoAct ε) := []'], epilogue='return acts',
        vars={'yields': 'yields'},
        expr_rules=[(r'^CAN_YIELD$', 'canYield')],
        stmt_rules=[(r'^CO_YIELD\((\w+)\)$', r'acts := acts ++ [CoAct.yield \1]'), (r'^CO_RETURN\(\)$', 'acts := acts ++ [CoAct.ret]')],
    ),
]

# ----------------------------------------------------------------------------------------------
# parameter matching and the parameter listings of reports (C01, C15): pack expansions over the positions 0 … N-1.
# `f(std::get<I>(t), std::get<I>(u))...` inside an initializer list is evaluated for I = 0, 1, …, N-1 in that order; the
# vocabulary reads it as a loop over the positions (`pairs`: position, matcher, argument).

GET_I = (r'std::get<I>\((\w+)\)', r'GET_I(\1)')
PACK_BOOL = (r'::trompeloeil::ignore\(std::initializer_list<bool>\{(.*?)\.\.\.\}\);', r'for (auto& pr : pairs) { \1; }')
PACK_INT = (r'::trompeloeil::ignore\(std::initializer_list<int>\{\((.*?),0\)\.\.\.\}\);', r'for (auto& pr : pairs) { \1; }')

FUNCTIONS += [
    dict(
        name='match_parameters', cxx='trompeloeil::match_parameters(index_sequence<I...>, t, u)', file=MOCK, module='MatchParameters',
        header=r'\n\s*match_parameters\(\s*detail::index_sequence<I\.\.\.>,\s*T const& t,\s*U const& u\)\s*noexcept\(noexcept\(std::initializer_list<bool>\{[^}]*\}\)\)',
        pre=[PACK_BOOL, GET_I],
        lean_sig='{π : Type} (param_matches : π → Bool) (pairs : List π) : Bool',
        vars={'pairs': 'pairs'}, local_types={'all_true': 'Bool'},
        stmt_ignore=[r'^::trompeloeil::ignore\(t, u\)$'],
        expr_rules=[(r'^::trompeloeil::param_matches\(GET_I\(t\), GET_I\(u\)\)$', 'param_matches pr')],
    ),
    dict(
        name='print_mismatch_one', cxx='trompeloeil::print_mismatch(os, num, v, p)', file=MOCK, module='PrintMismatchOne',
        header=r'void print_mismatch\(\s*std::ostream& os,\s*size_t num,\s*V const& v,\s*P const& p\)',
        lean_sig='(matches_ : Bool) (num : Nat) (os0 : List PTok) : List PTok',
        prologue=['let mut os := os0'], epilogue='return os',
        expr_rules=[(r'^::trompeloeil::param_matches\(v, p\)$', 'matches_')],
        decl_rules=[(r'^auto prefix = param_name_prefix\(&v\) \+ "_"$', '')],
        stmt_rules=[(r'^os << "  Expected " << std::setw\(\(num < 9\) \? 2 : 1\) << prefix << num \+ 1$', 'os := os ++ [PTok.expected num]'),
                    (r'^::trompeloeil::print_expectation\(os, v\)$', 'pure ()')],
    ),
    dict(
        name='print_mismatch_all', cxx='trompeloeil::print_mismatch(os, index_sequence<I...>, v, p)', file=MOCK, module='PrintMismatchAll',
        imports=['PrintMismatchOne'],
        header=r'void print_mismatch\(\s*std::ostream& os,\s*detail::index_sequence<I\.\.\.>,\s*std::tuple<V\.\.\.> const& v,\s*std::tuple<P\.\.\.> const& p\)',
        pre=[PACK_INT, GET_I],
        lean_sig='(pairs : List (Nat × Bool)) : List PTok',
        prologue=['let mut os : List PTok := []'], epilogue='return os',
        vars={'pairs': 'pairs'},
        stmt_ignore=[r'^::trompeloeil::ignore\(os, v, p\)$'],
        stmt_rules=[(r'^print_mismatch\(os, I, GET_I\(v\), GET_I\(p\)\)$', 'os := print_mismatch_one pr.2 pr.1 os')],
    ),
    dict(
        name='missed_value', cxx='trompeloeil::missed_value', file=MOCK, module='MissedValue',
        header=r'void missed_value\(\s*std::ostream& os,\s*int i,\s*T const& t\)',
        lean_sig='(i : Nat) (os0 : List PTok) : List PTok',
        prologue=['let mut os := os0'], epilogue='return os',
        decl_rules=[(r'^auto prefix = param_name_prefix\(&t\) \+ "_"$', '')],
        stmt_rules=[(r'^os << "  param " << std::setw\(\(i < 9\) \? 2 : 1\) << prefix << i \+ 1 << ::trompeloeil::param_compare_operator\(&t\)$',
                     'os := os ++ [PTok.param i]'),
                    (r'^::trompeloeil::print\(os, t\)$', 'pure ()'), (r"^os << '\\n'$", 'pure ()')],
    ),
    dict(
        name='stream_params', cxx='trompeloeil::stream_params(os, index_sequence<I...>, t)', file=MOCK, module='StreamParams',
        imports=['MissedValue'],
        header=r'void stream_params\(\s*std::ostream &os,\s*detail::index_sequence<I\.\.\.>,\s*std::tuple<T\.\.\.> const &t\)',
        pre=[PACK_INT, GET_I],
        lean_sig='(pairs : List Nat) : List PTok',
        prologue=['let mut os : List PTok := []'], epilogue='return os',
        vars={'pairs': 'pairs'},
        stmt_ignore=[r'^::trompeloeil::ignore\(os, t\)$'],
        stmt_rules=[(r'^missed_value\(os, I, GET_I\(t\)\)$', 'os := missed_value pr os')],
    ),
]

# ----------------------------------------------------------------------------------------------
# the trace record of one call (C17): class trace_agent

TRACE_SINK = [(r'^os$', 'os')]

FUNCTIONS += [
    dict(
        name='trace_agent_ctor', cxx='trace_agent::trace_agent', file=MOCK, module='TraceAgentCtor',
        header=r'trace_agent\(\s*location loc_,\s*char const\* name_,\s*tracer\* t_\)\s*:\s*loc\{loc_\}\s*,\s*t\{t_\}',
        lean_sig='(t : Bool) : List TTok',
        prologue=['let mut os : List TTok := []'], epilogue='return os',
        vars={'t': 't'},
        stmt_rules=[(r'^os << name_ << " with\.\\n"$', 'os := os ++ [TTok.name]')],
    ),
    dict(
        name='trace_agent_dtor', cxx='trace_agent::~trace_agent', file=MOCK, module='TraceAgentDtor',
        header=r'~trace_agent\(\)',
        lean_sig='(t : Bool) : Bool',
        prologue=['let mut sent := false'], epilogue='return sent',
        vars={'t': 't'},
        stmt_rules=[(r'^t->trace\(loc\.file, loc\.line, os\.str\(\)\)$', 'sent := true')],
    ),
    dict(
        name='trace_params', cxx='trace_agent::trace_params', file=MOCK, module='TraceParams',
        header=r'\n\s*trace_params\(\s*std::tuple<T\.\.\.> const& params\)',
        lean_sig='(t : Bool) (os0 : List TTok) : List TTok',
        prologue=['let mut os := os0'], epilogue='return os',
        vars={'t': 't'},
        stmt_rules=[(r'^stream_params\(os, params\)$', 'os := os ++ [TTok.params]')],
    ),
    dict(
        name='trace_return', cxx='trace_agent::trace_return', file=MOCK, module='TraceReturn',
        header=r'\n\s*trace_return\(\s*T&& rv\)\s*->\s*T',
        lean_sig='(t : Bool) (os0 : List TTok) : List TTok',
        prologue=['let mut os := os0'], epilogue='return os',
        vars={'t': 't'},
        stmt_rules=[(r'^os << " -> "$', 'os := os ++ [TTok.result]'), (r'^print\(os, rv\)$', 'pure ()'), (r"^os << '\\n'$", 'pure ()')],
        ret_rules=[(r'^FWD_RV$', 'os')],
        pre=[(r'std::forward<T>\(rv\)', 'FWD_RV')],
    ),
    dict(
        name='trace_exception', cxx='trace_agent::trace_exception', file=MOCK, module='TraceException',
        header=r'\n\s*trace_exception\(\)',
        # `try { throw; } catch (std::exception const& e) {A} catch (...) {B}`: re-throwing the exception in flight sorts it
        # into "derived from std::exception" (A) and everything else (B)
        pre=[(r'(?s)try\s*\{\s*throw;\s*\}\s*catch\s*\(std::exception const& e\)\s*(\{.*?\})\s*catch\s*\(\.\.\.\)\s*(\{.*?\})',
              r'if (IS_STD_EXCEPTION) \1 else \2')],
        lean_sig='(t isStd : Bool) (os0 : List TTok) : List TTok',
        prologue=['let mut os := os0'], epilogue='return os',
        vars={'t': 't'},
        expr_rules=[(r'^IS_STD_EXCEPTION$', 'isStd')],
        stmt_rules=[(r'^os << "threw exception: what\(\) = " << e\.what\(\) << \'\\n\'$', 'os := os ++ [TTok.stdException]'),
                    (r'^os << "threw unknown exception\\n"$', 'os := os ++ [TTok.unknownException]')],
    ),
]

# ----------------------------------------------------------------------------------------------
# value printing (C18): print, printer<T>, the streamer<> specialisations.  String literals are kept verbatim (the
# model's rendering is defined by them); `sep` is an ordinary mutable variable.

PR_LIT = [(r'^("(?:\\.|[^"\\])*")$', r'PrTok.lit \1'), (r'^sep$', 'PrTok.lit sep')]
PR_SINK = [(r'^os$', 'acts')]
PR_STR = [(r'^("(?:\\.|[^"\\])*")$', r'\1')]
PR_PRINT_ELEM = (r'^::trompeloeil::print\(os, element\)$', 'acts := acts ++ [PrTok.printSub element]')

FUNCTIONS += [
    dict(
        name='print_top', cxx='trompeloeil::print(os, t)', file=MOCK, module='PrintTop',
        header=r'\n\s*print\(\s*std::ostream& os,\s*T const &t\)\s*(?=\{)', nth=2,   # 0, 1: the two streamer<> primaries
        lean_sig='(is_null : Bool) : List PrTok',
        prologue=['let mut acts : List PrTok := []'], epilogue='return acts',
        expr_rules=[(r'^is_null\(t\)$', 'is_null')],
        decl_rules=[(r'^stream_sentry s = \{os\}$|^stream_sentry s\(os\)$', 'acts := acts ++ [PrTok.sentry]')],
        stmt_rules=[(r'^PRINTER_T_PRINT\(os, t\)$', 'acts := acts ++ [PrTok.toPrinter]')],
        pre=[(r'printer<T>::print\(os, t\)', 'PRINTER_T_PRINT(os, t)')],
        stream_sinks=PR_SINK, tok_rules=PR_LIT,
    ),
    dict(
        name='printer_default', cxx='printer<T>::print', file=MOCK, module='PrinterDefault',
        header=r'template <typename T, typename = void>\s*struct printer\s*\{\s*static\s*void\s*print\(\s*std::ostream& os,\s*T const & t\)',
        pre=[(r'streamer<T>::print\(os, t\)', 'STREAMER_T_PRINT(os, t)')],
        lean_sig=': List PrTok',
        prologue=['let mut acts : List PrTok := []'], epilogue='return acts',
        stmt_rules=[(r'^STREAMER_T_PRINT\(os, t\)$', 'acts := acts ++ [PrTok.toStreamer]')],
    ),
    dict(
        name='streamer_streamable', cxx='streamer<T, true, *>::print', file=MOCK, module='StreamerStreamable',
        header=r'struct streamer\s*\{\s*static\s*void\s*print\(\s*std::ostream& os,\s*T const &t\)',
        lean_sig=': List PrTok',
        prologue=['let mut acts : List PrTok := []'], epilogue='return acts',
        decl_rules=[(r'^stream_sentry s = \{os\}$|^stream_sentry s\(os\)$', 'acts := acts ++ [PrTok.sentry]')],
        stmt_rules=[(r'^os << t$', 'acts := acts ++ [PrTok.streamValue]')],
    ),
    dict(
        name='streamer_pair', cxx='streamer<std::pair<T, U>, false, false>::print', file=MOCK, module='StreamerPair',
        header=r'struct streamer<std::pair<T, U>, false, false>\s*\{\s*static\s*void\s*print\(\s*std::ostream& os,\s*std::pair<T, U> const& t\)',
        lean_sig=': List PrTok',
        prologue=['let mut acts : List PrTok := []'], epilogue='return acts',
        stmt_rules=[(r'^::trompeloeil::print\(os, t\.first\)$', 'acts := acts ++ [PrTok.printSub 0]'),
                    (r'^::trompeloeil::print\(os, t\.second\)$', 'acts := acts ++ [PrTok.printSub 1]')],
        stream_sinks=PR_SINK, tok_rules=PR_LIT,
    ),
    dict(
        name='streamer_tuple', cxx='streamer<std::tuple<T...>, false, false>::print_tuple', file=MOCK, module='StreamerTuple',
        header=r'print_tuple\(\s*std::ostream& os,\s*std::tuple<T\.\.\.> const& t,\s*detail::index_sequence<I\.\.\.>\)',
        # the pack expansion `{((os << sep), print(os, get<I>(t)), (sep = ", "))...}` runs its three steps for I = 0 … N-1 in order
        pre=[(r'std::initializer_list<const char\*> v\{\(\(os << sep\),\s*::trompeloeil::print\(os, std::get<I>\(t\)\),\s*\(sep = ", "\)\)\.\.\.\};',
              'for (auto& element : elements) { os << sep; ::trompeloeil::print(os, element); sep = ", "; }')],
        lean_sig='(elements : List Nat) : List PrTok',
        prologue=['let mut acts : List PrTok := []'], epilogue='return acts',
        vars={'elements': 'elements'}, local_types={'sep': 'String'},
        stmt_ignore=[r'^ignore\(v\)$'],
        expr_rules=PR_STR,
        stmt_rules=[PR_PRINT_ELEM],
        stream_sinks=PR_SINK, tok_rules=PR_LIT,
    ),
    dict(
        name='streamer_collection', cxx='streamer<T, false, true>::print', file=MOCK, module='StreamerCollection',
        header=r'struct streamer<T, false, true>\s*\{\s*static\s*void\s*print\(\s*std::ostream& os,\s*T const& t\)',
        pre=[(r'using element_type = [^;]*;', ''),
             (r'std::for_each\(std::begin\(t\), std::end\(t\),\s*\[&os, &sep\]\(element_type (\w+)\)\s*\{', r'for (auto& \1 : elements) {'),
             (r'\}\s*\)\s*;', '}')],
        lean_sig='(elements : List Nat) : List PrTok',
        prologue=['let mut acts : List PrTok := []'], epilogue='return acts',
        vars={'elements': 'elements'}, local_types={'sep': 'String'},
        expr_rules=PR_STR,
        stmt_rules=[PR_PRINT_ELEM],
        stream_sinks=PR_SINK, tok_rules=PR_LIT,
    ),
    dict(
        name='streamer_opaque', cxx='streamer<T, false, false>::print', file=MOCK, module='StreamerOpaque',
        header=r'struct streamer<T, false, false>\s*\{\s*static\s*void\s*print\(\s*std::ostream& os,\s*T const &t\)',
        lean_sig=': List PrTok',
        prologue=['let mut acts : List PrTok := []'], epilogue='return acts',
        stmt_rules=[(r'^hexdump\(&t, sizeof\(T\), os\)$', 'acts := acts ++ [PrTok.hexdump]')],
    ),
]

# ----------------------------------------------------------------------------------------------
# what `_k` is bound to (C09, C19): mkarg<N>(params) -> arg<N>(&params, bool_constant<N <= tuple_size>)

FUNCTIONS += [
    dict(
        name='arg_in_range', cxx='trompeloeil::arg<N>(T*, std::true_type)', file=MOCK, module='ArgInRange',
        header=r'arg\(\s*T\* t,\s*std::true_type\)\s*TROMPELOEIL_TRAILING_RETURN_TYPE\(R\)',
        pre=[(r'std::get<N-1>\(\*t\)\.get\(\)', 'TUPLE_ELEMENT(N - 1)')],
        lean_sig='(N : Nat) : Nat',
        vars={'N': 'N'},
        ret_rules=[(r'^TUPLE_ELEMENT\(N - 1\)$', 'N - 1')],      # the reference the tuple holds at position N-1
    ),
    dict(
        name='arg_out_of_range', cxx='trompeloeil::arg<N>(void const*, std::false_type)', file=MOCK, module='ArgOutOfRange',
        header=r'arg\(\s*void const\*,\s*std::false_type\)\s*noexcept',
        pre=[(r'return\s*\{\s*\}\s*;', 'return ILLEGAL_ARGUMENT;')],
        lean_sig=': Option Nat',
        ret_rules=[(r'^ILLEGAL_ARGUMENT$', 'none')],              # a value of type illegal_argument
    ),
    dict(
        name='mkarg', cxx='trompeloeil::mkarg<N>', file=MOCK, module='Mkarg', imports=['ArgInRange', 'ArgOutOfRange'],
        header=r'mkarg\(\s*T& t\)\s*noexcept\s*TROMPELOEIL_TRAILING_RETURN_TYPE\(R\)',
        # overload resolution on the tag: true_type selects the tuple element, false_type the illegal_argument
        pre=[(r'arg<N>\(&t, std::integral_constant<bool, \(N <= std::tuple_size<T>::value\)>\{\}\)', 'ARG_DISPATCH')],
        lean_sig='(N size : Nat) : Option Nat',
        ret_rules=[(r'^ARG_DISPATCH$', 'if N ≤ size then some (arg_in_range N) else arg_out_of_range')],
    ),
]

# ----------------------------------------------------------------------------------------------
# report routing (C15, C16) and the compile-time TIMES (C03): statement traces

FUNCTIONS += [
    dict(
        name='send_report', cxx='trompeloeil::send_report', file=MOCK, module='SendReport',
        header=r'\n\s*send_report\(\s*severity s,\s*location loc,\s*std::string const &msg\)',
        pre=[(r'reporter<T>::send', 'REPORTER_SEND')],
        lean_sig=': List Act', acts=True, prologue=['let mut acts : List Act := []'], epilogue='return acts', void_result='acts',
    ),
    dict(
        name='send_ok_report', cxx='trompeloeil::send_ok_report', file=MOCK, module='SendOkReport',
        header=r'\n\s*send_ok_report\(\s*std::string const &msg\)',
        pre=[(r'reporter<T>::sendOk', 'REPORTER_SEND_OK')],
        lean_sig=': List Act', acts=True, prologue=['let mut acts : List Act := []'], epilogue='return acts', void_result='acts',
    ),
    dict(
        name='reporter_send', cxx='reporter<T>::send', file=MOCK, module='ReporterSend',
        header=r'void reporter<T>::\s*send\(\s*severity s,\s*char const \*file,\s*unsigned long line,\s*char const \*msg\)',
        lean_sig=': List Act', acts=True, prologue=['let mut acts : List Act := []'], epilogue='return acts', void_result='acts',
    ),
    dict(
        name='reporter_send_ok', cxx='reporter<T>::sendOk', file=MOCK, module='ReporterSendOk',
        header=r'void reporter<T>::\s*sendOk\(char const\* msg\)',
        lean_sig=': List Act', acts=True, prologue=['let mut acts : List Act := []'], epilogue='return acts', void_result='acts',
    ),
    dict(
        name='times_action', cxx='times::action (TIMES / AT_LEAST / AT_MOST)', file=MOCK, module='TimesAction',
        header=r'action\(call_modifier<Matcher, modifier_tag, Parent>&&\s*m,\s*multiplicity<L, H>\)',
        # the static_asserts (compile-time only; tabulated by tools/translate.py for C19) are cut before parsing
        pre=[(r'(?s)static_assert\s*\((?:[^;"]|"(?:\\.|[^"\\])*")*\)\s*;', ''), (r'return\s*\{\s*std::move\(m\)\.matcher\s*\}\s*;', 'return;')],
        lean_sig=': List Act', acts=True, prologue=['let mut acts : List Act := []'], epilogue='return acts', void_result='acts',
        decl_ignore=LOCK_DECL,
    ),
]

# ----------------------------------------------------------------------------------------------
# destruction of a mock function's expectation lists (C04): ~expectations, both specialisations

FUNCTIONS += [
    dict(
        name='expectations_dtor', cxx='expectations<movable, Sig>::~expectations', file=MOCK, module='ExpectationsDtor',
        header=r'~expectations\(\)', nth=0,
        lean_sig=': List Act', acts=True, prologue=['let mut acts : List Act := []'], epilogue='return acts', void_result='acts',
    ),
    dict(
        name='expectations_dtor_nonmovable', cxx='expectations<false, Sig>::~expectations', file=MOCK, module='ExpectationsDtorNonMovable',
        header=r'~expectations\(\)', nth=1,
        lean_sig=': List Act', acts=True, prologue=['let mut acts : List Act := []'], epilogue='return acts', void_result='acts',
    ),
]

# ----------------------------------------------------------------------------------------------
# clause registration order (C08), the end-of-life / forbidden reports (C04, C07, C15), return_value (C08)

R_TOK = [(r'^reason$', 'RTok.reason'), (r'^name$', 'RTok.name'), (r'^loc$', 'RTok.loc'), (r'^values$', 'RTok.values'),
         (r'^min_calls$', 'RTok.minTimes min_calls'), (r'^call_count$', 'RTok.times call_count'),
         (r'^"once"$', 'RTok.minOnce'), (r'^"never called\\n"$', 'RTok.never'), (r'^"called once\\n"$', 'RTok.once'),
         (r'^"(?:\\.|[^"\\])*"$', 'RTok.text'), (r"^'(?:\\.|[^'\\])*'$", 'RTok.text')]

FUNCTIONS += [
    dict(
        name='add_condition', cxx='call_matcher::add_condition', file=MOCK, module='AddCondition',
        header=r'\n\s*add_condition\(\s*char const \*str,\s*C&& c\)',
        pre=[(r'new condition<Sig, C>\(str, std::forward<C>\(c\)\)', 'NEW_CONDITION(c)')],
        lean_sig='{κ : Type} (c : κ) (conditions0 : List κ) : List κ',
        prologue=['let mut conditions := conditions0'], epilogue='return conditions', void_result='conditions',
        vars={'c': 'c'},
        decl_rules=[(r'^auto cond = NEW_CONDITION\(c\)$', 'let cond := c')],
        stmt_rules=[(r'^conditions\.push_back\(cond\)$', 'conditions := conditions ++ [cond]')],
    ),
    dict(
        name='add_side_effect', cxx='call_matcher::add_side_effect', file=MOCK, module='AddSideEffect',
        header=r'\n\s*add_side_effect\(\s*S&& s\)',
        pre=[(r'new side_effect<Sig, S>\(std::forward<S>\(s\)\)', 'NEW_SIDE_EFFECT(s)')],
        lean_sig='{κ : Type} (s : κ) (actions0 : List κ) : List κ',
        prologue=['let mut actions := actions0'], epilogue='return actions', void_result='actions',
        vars={'s': 's'},
        decl_rules=[(r'^auto effect = NEW_SIDE_EFFECT\(s\)$', 'let effect := s')],
        stmt_rules=[(r'^actions\.push_back\(effect\)$', 'actions := actions ++ [effect]')],
    ),
    dict(
        name='report_unfulfilled', cxx='trompeloeil::report_unfulfilled', file=MOCK, module='ReportUnfulfilled',
        header=r'report_unfulfilled\(\s*const char\* reason,[^)]*location\s+loc\)',
        # `switch (call_count) { case 0: A; break; case 1: B; break; default: C; }` read as the if-chain it is
        pre=[(r'(?s)switch\s*\(call_count\)\s*\{\s*case 0:\s*(.*?;)\s*break;\s*case 1:\s*(.*?;)\s*break;\s*default:\s*(.*?;)\s*\}',
              r'if (call_count == 0) { \1 } else if (call_count == 1) { \2 } else { \3 }')],
        lean_sig='(min_calls call_count : Nat) : Sev × List RTok',
        vars={'min_calls': 'min_calls', 'call_count': 'call_count'},
        decl_rules=[(r'^std::ostringstream os$', 'let mut os : List RTok := []')],
        stmt_rules=[(r'^send_report\(severity::nonfatal, loc, os\.str\(\)\)$', 'return (Sev.nonfatal, os)')],
        stream_sinks=[(r'^os$', 'os')], tok_rules=R_TOK,
        epilogue='return (Sev.fatal, os)',
    ),
    dict(
        name='report_forbidden_call', cxx='trompeloeil::report_forbidden_call', file=MOCK, module='ReportForbiddenCall',
        header=r'report_forbidden_call\(\s*char const \*name,\s*location loc,\s*std::string const& values\)',
        lean_sig=': Sev × List RTok',
        decl_rules=[(r'^std::ostringstream os$', 'let mut os : List RTok := []')],
        stmt_rules=[(r'^send_report\(severity::fatal, loc, os\.str\(\)\)$', 'return (Sev.fatal, os)')],
        stream_sinks=[(r'^os$', 'os')], tok_rules=R_TOK,
        epilogue='return (Sev.nonfatal, os)',
    ),
    dict(
        name='return_value', cxx='call_matcher::return_value', file=MOCK, module='ReturnValue',
        header=r'\n\s*return_value\(\s*trace_agent& agent,\s*call_params_type_t<Sig>& params\)\s*override',
        pre=[(r'default_return<return_of_t<Sig>>\(\)', 'DEFAULT_RETURN'), (r'return_handler_obj->call\(agent, params\)', 'HANDLER_CALL')],
        lean_sig='{ρ : Type} (has_handler : Bool) (default_return handler_call : ρ) : ρ',
        expr_rules=[(r'^!return_handler_obj$', '(!has_handler)')],
        ret_rules=[(r'^DEFAULT_RETURN$', 'default_return'), (r'^HANDLER_CALL$', 'handler_call')],
    ),
]

# ----------------------------------------------------------------------------------------------
# range_is / range_starts_with / range_ends_with with listed elements (C11): an iterator into the range, a lambda that
# takes the next member and matches it, and the pack fold `all_true = all_true && match(elements)...`.
# The iterator is modelled by the list of members still ahead of it; the lambda + fold are read — by one exact-text
# rule — as "for each listed element, in order, while all_true: take the next member (none left: false) and match it".

EL_STEP = ('match it with\n| [] => all_true := false\n| v :: rest =>\n  all_true := accepts compare v\n  it := rest')
EL_LAMBDA_FOLD = (r'(?s)const auto match = \[&\]\(const auto\s*&\s*compare\)\s*\{\s*if \(it == e\) return false;\s*const auto\s*&\s*v = \*it\+\+;\s*'
                  r'return trompeloeil::param_matches\(compare, std::ref\(v\)\);\s*\};\s*'
                  r'trompeloeil::ignore\(std::initializer_list<bool>\{\s*\(all_true = all_true && match\(elements\)\)\s*\.\.\.\}\);',
                  'for (auto& compare : elements) { if (all_true) { STEP(compare); } }')
# ends_with: the size guard in front makes "none left" unreachable, so its lambda has no `it == e` test
EL_LAMBDA_FOLD_NOCHECK = (r'(?s)const auto match = \[&\]\(const auto\s*&\s*compare\)\s*\{\s*const auto\s*&\s*v = \*it\+\+;\s*'
                          r'return trompeloeil::param_matches\(compare, std::ref\(v\)\);\s*\};\s*'
                          r'trompeloeil::ignore\(std::initializer_list<bool>\{\s*\(all_true = all_true && match\(elements\)\)\s*\.\.\.\}\);',
                          'for (auto& compare : elements) { if (all_true) { STEP(compare); } }')
EL_PRE = [(r'using std::begin;', ''), (r'using std::end;', ''), (r'auto it = begin\(range\);', 'auto it = range;'),
          (r'const auto e = end\(range\);', '')]
EL_COMMON = dict(
    lean_sig='{α μ : Type} (accepts : μ → α → Bool) (range : List α) (elements : List μ) : Bool',
    vars={'elements': 'elements', 'range': 'range'}, local_types={'all_true': 'Bool'},
    decl_rules=[(r'^auto it = range$', 'let mut it : List α := range'), (r'^bool all_true = true$', 'let mut all_true : Bool := true')],
    stmt_rules=[(r'^STEP\(compare\)$', EL_STEP)],
)

FUNCTIONS += [
    dict(EL_COMMON, name='is_elements', cxx='impl::is_elements_checker::operator()', file=RANGE, module='IsElements',
         header=r'struct is_elements_checker\s*\{\s*template <typename R, typename \.\.\. Es>\s*bool operator\(\)\(const R& range, const Es& \.\.\. elements\) const',
         pre=EL_PRE + [EL_LAMBDA_FOLD],
         ret_rules=[(r'^all_true && it == e$', '(all_true && it.isEmpty)')]),
    dict(EL_COMMON, name='starts_with_elements', cxx='impl::starts_with_elements_checker::operator()', file=RANGE, module='StartsWithElements',
         header=r'struct starts_with_elements_checker\s*\{\s*template <typename R, typename \.\.\. Es>\s*bool operator\(\)\(const R& range, const Es& \.\.\. elements\) const',
         pre=EL_PRE + [EL_LAMBDA_FOLD]),
    dict(EL_COMMON, name='ends_with_elements', cxx='impl::ends_with_checker::operator()', file=RANGE, module='EndsWithElements',
         header=r'struct ends_with_checker\s*\{\s*template <typename R, typename\.\.\. Es>\s*bool operator\(\)\(const R &range, const Es &\.\.\.elements\) const',
         pre=EL_PRE + [EL_LAMBDA_FOLD_NOCHECK,
                       (r'static_cast<std::ptrdiff_t>\(sizeof\.\.\.\(elements\)\)', 'NUM_ELEMENTS'), (r'std::distance\(it, e\)', 'REMAINING')],
         decl_rules=EL_COMMON['decl_rules'] + [(r'^const auto num_values = NUM_ELEMENTS$', 'let num_values := elements.length'),
                                               (r'^const auto size = REMAINING$', 'let size := it.length')],
         stmt_rules=EL_COMMON['stmt_rules'] + [(r'^std::advance\(it, size - num_values\)$', 'it := it.drop (size - num_values)')]),
]

# range_is / range_starts_with / range_ends_with / range_all_of / range_none_of / range_any_of given a container or one
# matcher (C11): one standard algorithm over the range with a lambda that matches a member against a matcher.  The
# lambda is read — whatever its parameters are called — as `fun params => accepts <first argument> <second argument>`
# of its `param_matches(c, std::ref(v))`; a swapped pair of arguments no longer type-checks in the generated Lean.
# std::equal / std::mismatch (four-iterator forms) are read as Range.equal4 / Range.mismatch, std::all_of / any_of /
# none_of as List.all / List.any: that reading of the standard algorithms is part of the trusted base.
RC_LAM2 = (r'\[&?\]\(const auto\s*&\s*(\w+),\s*const auto\s*&\s*(\w+)\)\s*\{\s*return trompeloeil::param_matches\((\w+),\s*std::ref\((\w+)\)\);\s*\}',
           r'LAM2(\1, \2, \3, \4)')
RC_LAM1 = (r'\[&?\]\(const auto\s*&\s*(\w+)\)\s*\{\s*return trompeloeil::param_matches\((\w+),\s*std::ref\((\w+)\)\);\s*\}',
           r'LAM1(\1, \2, \3)')
RC_PRE = EL_PRE + [RC_LAM2, RC_LAM1]
RC_L2 = r'LAM2\((\w+), (\w+), (\w+), (\w+)\)'
RC_F2 = r'(fun (\2 : μ) (\1 : α) => accepts \3 \4)'
RC_ONE = dict(
    lean_sig='{α μ : Type} (accepts : μ → α → Bool) (range : List α) (comp : μ) : Bool',
    vars={'range': 'range', 'comp': 'comp'}, pre=RC_PRE, no_respell=True,
    decl_rules=[(r'^auto it = range$', 'let it : List α := range')],
)

FUNCTIONS += [
    dict(base='Range', name='is_range', cxx='impl::is_range_checker::operator()', file=RANGE, module='IsRange',
         header=r'struct is_range_checker\s*\{\s*template <typename R, typename C>\s*bool operator\(\)\(const R& r, const C& cs\) const',
         lean_sig='{α μ : Type} (accepts : μ → α → Bool) (r : List α) (cs : List μ) : Bool',
         vars={'r': 'r', 'cs': 'cs'}, pre=RC_PRE, no_respell=True,
         ret_rules=[(r'^std::equal\(begin\(r\), end\(r\), begin\(cs\), end\(cs\), ' + RC_L2 + r'\)$', r'Range.equal4 ' + RC_F2 + ' r cs')]),
    dict(RC_ONE, name='range_all_of', cxx='impl::range_all_of_checker::operator()', file=RANGE, module='RangeAllOf',
         header=r'struct range_all_of_checker\s*\{\s*template <typename R, typename C>\s*bool operator\(\)\(const R& range, const C& comp\) const',
         ret_rules=[(r'^std::all_of\(it, e, LAM1\((\w+), (\w+), (\w+)\)\)$', r'it.all (fun (\1 : α) => accepts \2 \3)')]),
    dict(RC_ONE, name='range_none_of', cxx='impl::range_none_of_checker::operator()', file=RANGE, module='RangeNoneOf',
         header=r'struct range_none_of_checker\s*\{\s*template <typename R, typename C>\s*bool operator\(\)\(const R& range, const C& comp\) const',
         ret_rules=[(r'^std::none_of\(it, e, LAM1\((\w+), (\w+), (\w+)\)\)$', r'(!it.any (fun (\1 : α) => accepts \2 \3))')]),
    dict(RC_ONE, name='range_any_of', cxx='impl::range_any_of_checker::operator()', file=RANGE, module='RangeAnyOf',
         header=r'struct range_any_of_checker\s*\{\s*template <typename R, typename C>\s*bool operator\(\)\(const R& range, const C& comp\) const',
         ret_rules=[(r'^std::any_of\(it, e, LAM1\((\w+), (\w+), (\w+)\)\)$', r'it.any (fun (\1 : α) => accepts \2 \3)')]),
    dict(base='Range', name='starts_with_range', cxx='impl::starts_with_range_checker::operator()', file=RANGE, module='StartsWithRange',
         header=r'struct starts_with_range_checker\s*\{\s*template <typename R, typename E>\s*bool operator\(\)\(const R& range, const E& elements\) const',
         lean_sig='{α μ : Type} (accepts : μ → α → Bool) (range : List α) (elements : List μ) : Bool',
         vars={'range': 'range', 'elements': 'elements'}, pre=RC_PRE, no_respell=True,
         decl_rules=[(r'^auto result = std::mismatch\(begin\(range\), end\(range\), begin\(elements\), end\(elements\), ' + RC_L2 + r'\)$',
                      r'let result := Range.mismatch ' + RC_F2 + ' range elements')],
         ret_rules=[(r'^result\.second == (?:end\(elements\)|elements\.end\(\))$', 'result.2.isEmpty')]),
    dict(base='Range', name='ends_with_range', cxx='impl::ends_with_range_checker::operator()', file=RANGE, module='EndsWithRange',
         header=r'struct ends_with_range_checker\s*\{\s*template <typename R, typename E>\s*bool operator\(\)\(const R &range, const E& elements\) const',
         lean_sig='{α μ : Type} (accepts : μ → α → Bool) (range : List α) (elements : List μ) : Bool',
         vars={'range': 'range', 'elements': 'elements'}, no_respell=True,
         pre=RC_PRE + [(r'static_cast<ptrdiff_t>\(elements\.size\(\)\)', 'NUM_ELEMENTS'), (r'std::distance\(it, e\)', 'REMAINING')],
         decl_rules=[(r'^auto it = range$', 'let mut it : List α := range'),
                     (r'^const auto num_values = NUM_ELEMENTS$', 'let num_values := elements.length'),
                     (r'^const auto size = REMAINING$', 'let size := it.length'),
                     (r'^auto result = std::mismatch\(it, e, begin\(elements\), end\(elements\), ' + RC_L2 + r'\)$',
                      r'let result := Range.mismatch ' + RC_F2 + ' it elements')],
         stmt_rules=[(r'^std::advance\(it, size - num_values\)$', 'it := it.drop (size - num_values)')],
         ret_rules=[(r'^result\.second == (?:end\(elements\)|elements\.end\(\))$', 'result.2.isEmpty')]),
]

# ----------------------------------------------------------------------------------------------
# the RETURN path (C08): return_handler_t::call -> trace_return<Ret>(agent, func, params) -> func(params), once

FUNCTIONS += [
    dict(
        name='return_handler_call', cxx='return_handler_t<Sig, T>::call', file=MOCK, module='ReturnHandlerCall',
        header=r'class return_handler_t : public return_handler<Sig>.*?\n\s*call\(\s*trace_agent& agent,\s*call_params_type_t<Sig>& params\)\s*override',
        pre=[(r'trace_return<return_of_t<Sig>>\(agent, func, params\)', 'TRACE_RETURN(agent, func, params)')],
        lean_sig=': List Act', acts=True, prologue=['let mut acts : List Act := []'], epilogue='return acts', void_result='acts',
        ret_rules=[(r'^TRACE_RETURN\(agent, func, params\)$', 'acts ++ [Act.stmt "return trace_return<Ret>(agent, func, params)"]')],
    ),
    dict(
        name='throw_handler_call', cxx='throw_handler_t<H, signature>::operator()', file=MOCK, module='ThrowHandlerCall',
        header=r'struct throw_handler_t\b.*?\n\s*R operator\(\)\(T& p\)',
        lean_sig=': List Act', acts=True, try_catch=True, prologue=['let mut acts : List Act := []'], epilogue='return acts', void_result='acts',
        noreturn=[r'^abort\('],
        pre=[(r'default_return<R>\(\)', 'DEFAULT_RETURN()')],
        ret_rules=[(r'^DEFAULT_RETURN\(\)$', 'acts ++ [Act.stmt "return default_return<R>()"]')],
    ),
    dict(
        name='trace_return_void', cxx='trompeloeil::trace_return<void>(agent, func, params)', file=MOCK, module='TraceReturnVoid',
        header=r'\n\s*trace_return\(\s*trace_agent const&,\s*F& func,\s*P& params\)',
        lean_sig=': List Act', acts=True, prologue=['let mut acts : List Act := []'], epilogue='return acts', void_result='acts',
    ),
    dict(
        name='trace_return_value', cxx='trompeloeil::trace_return<Ret>(agent, func, params)', file=MOCK, module='TraceReturnValue',
        header=r'\n\s*trace_return\(\s*trace_agent& agent,\s*F& func,\s*P& params\)',
        lean_sig=': List Act', acts=True, try_catch=True, prologue=['let mut acts : List Act := []'], epilogue='return acts', void_result='acts',
        ret_rules=[(r'^agent\.trace_return\(func\(params\)\)$', 'acts ++ [Act.stmt "return agent.trace_return(func(params))"]')],
    ),
]

# ----------------------------------------------------------------------------------------------
# The thin layers between the public queries / the per-expectation handler and the functions translated above: each is
# one delegation (under the lock where it is a public query).  `Tie/Delegates.lean` says what each passes on.
def _deleg(name, cxx, file, header, sig, rules, **kw):
    return dict(dict(name=name, cxx=cxx, file=file, module=''.join(w.capitalize() for w in name.split('_')), header=header, lean_sig=sig,
                     expr_rules=rules, decl_ignore=LOCK_DECL, stmt_ignore=IGNORE_HOOK, no_respell=True), **kw)


FUNCTIONS += [
    _deleg('cm_is_satisfied', 'call_matcher::is_satisfied', MOCK,
           r'is_satisfied\(\)\s*const\s*noexcept\s*override(?=\s*\{\s*auto lock)', '(handler_is_satisfied : Bool) : Bool',
           [(r'^sequences->is_satisfied\(\)$', 'handler_is_satisfied')]),
    _deleg('cm_is_saturated', 'call_matcher::is_saturated', MOCK,
           r'is_saturated\(\)\s*const\s*noexcept\s*override(?=\s*\{\s*auto lock)', '(handler_is_saturated : Bool) : Bool',
           [(r'^sequences->is_saturated\(\)$', 'handler_is_saturated')]),
    _deleg('cm_sequence_cost', 'call_matcher::sequence_cost', MOCK,
           r'sequence_cost\(\)\s*const\s*noexcept\s*override', '(handler_order : Nat) : Nat',
           [(r'^sequences->order\(\)$', 'handler_order')]),
    _deleg('sh_order', 'sequence_handler<N>::order', MOCK,
           r'order\(\)\s*const\s*noexcept\s*override(?=\s*\{\s*return matchers)', '(matchers_order : Nat) : Nat',
           [(r'^matchers\.order\(\)$', 'matchers_order')]),
    _deleg('sh_validate', 'sequence_handler<N>::validate', MOCK,
           r'validate\(\s*severity s,\s*char const \*match_name,\s*location loc\)\s*override', ': List String', [],
           prologue=['let mut acts : List String := []'], epilogue='return acts',
           stmt_rules=[(r'^matchers\.validate\(s, match_name, loc\)$', 'acts := acts ++ ["matchers.validate"]')]),
    _deleg('sh_retire', 'sequence_handler<N>::retire', MOCK,
           r'\n\s*retire\(\)\s*noexcept\s*override', ': List String', [],
           prologue=['let mut acts : List String := []'], epilogue='return acts',
           stmt_rules=[(r'^matchers\.retire\(\)$', 'acts := acts ++ ["matchers.retire"]')]),
    _deleg('sh_retire_predecessors', 'sequence_handler<N>::retire_predecessors', MOCK,
           r'\n\s*retire_predecessors\(\)\s*noexcept\s*override', ': List String', [],
           prologue=['let mut acts : List String := []'], epilogue='return acts',
           stmt_rules=[(r'^matchers\.retire_predecessors\(\)$', 'acts := acts ++ ["matchers.retire_predecessors"]')]),
    _deleg('sm0_order', 'sequence_matchers<0>::order', MOCK,
           r'struct sequence_matchers<0>\s*\{.*?order\(\)\s*const\s*noexcept', ': Nat', []),
    _deleg('lm_is_satisfied', 'lifetime_monitor::is_satisfied', 'include/trompeloeil/lifetime.hpp',
           r'bool is_satisfied\(\) const noexcept override', '(died : Bool) : Bool', [], vars={'died': 'died'}),
    _deleg('lm_is_saturated', 'lifetime_monitor::is_saturated', 'include/trompeloeil/lifetime.hpp',
           r'bool is_saturated\(\) const noexcept override', '(died : Bool) : Bool', [], vars={'died': 'died'}),
    _deleg('seq_is_completed', 'sequence::is_completed', SEQ,
           r'bool is_completed\(\) const(?=\s*\{\s*return obj)', '(obj_is_completed : Bool) : Bool',
           [(r'^obj->is_completed\(\)$', 'obj_is_completed')]),
    _deleg('condition_check', 'condition<Sig, Cond>::check', MOCK,
           r'check\(\s*call_params_type_t<Sig> const & t\)\s*const\s*override', '(c_of_t : Bool) : Bool',
           [(r'^c\(t\)$', 'c_of_t')]),
    _deleg('get_min_calls', 'sequence_handler_base::get_min_calls', MOCK,
           r'get_min_calls\(\)\s*const\s*noexcept', '(min_calls max_calls call_count : Nat) : Nat', [],
           vars={'min_calls': 'min_calls', 'max_calls': 'max_calls', 'call_count': 'call_count'}),
    _deleg('get_calls', 'sequence_handler_base::get_calls', MOCK,
           r'get_calls\(\)\s*const\s*noexcept', '(min_calls max_calls call_count : Nat) : Nat', [],
           vars={'min_calls': 'min_calls', 'max_calls': 'max_calls', 'call_count': 'call_count'}),
    _deleg('sm_is_satisfied', 'sequence_matcher::is_satisfied', SEQ,
           r'sequence_matcher::is_satisfied\(\)\s*const\s*noexcept', '(handler_is_satisfied : Bool) : Bool',
           [(r'^sequence_handler\.is_satisfied\(\)$', 'handler_is_satisfied')]),
    _deleg('yield_expr_expr', 'yield_expr<Sig, Expr>::expr', 'include/trompeloeil/coro.hpp',
           r'expr\(\s*call_params_type_t<Sig>& t\)\s*const\s*override(?=\s*\{\s*return e\(t\))', '(e_of_t : Nat) : Nat',
           [(r'^e\(t\)$', 'e_of_t')]),
    _deleg('co_throw_handler_call', 'co_throw_handler_t<H, signature>::operator()', 'include/trompeloeil/coro.hpp',
           r'promise_value_type operator\(\)\(T& p\)', ': List String', [],
           pre=[(r'return \(\(void\)h\(p\), trompeloeil::default_return<promise_value_type>\(\)\);', 'H_OF_P(); return DEFAULT_RETURN();')],
           prologue=['let mut acts : List String := []'], epilogue='return acts',
           stmt_rules=[(r'^H_OF_P\(\)$', 'acts := acts ++ ["h(p)"]')],
           ret_rules=[(r'^DEFAULT_RETURN\(\)$', 'acts ++ ["return default_return<promise_value_type>()"]')]),
]

# ----------------------------------------------------------------------------------------------
# The clause plumbing of the expectation statement: what `.WITH(…)`, `.SIDE_EFFECT(…)`, `.RETURN(…)`, `.THROW(…)` do at run
# time once their static_asserts (read as tables by tools/translate.py) have passed — one call into the matcher each.
# The compile-time lines (static_assert, constexpr bool, using) are dropped from the body before it is read.
PLUMB_DROP = [(r'static_assert\((?:[^()]|\((?:[^()]|\([^()]*\))*\))*\);', ''),
              (r'constexpr\s+bool\s+\w+\s*=[^;]*;', ''), (r'constexpr\s+auto\s+\w+\s*=[^;]*;', ''),
              (r'using\s+\w+\s*=[^;]*;', ''),
              (r'std::forward<\w+>\((\w+)\)', r'\1'), (r'std::move\(m\)\.matcher', 'm.matcher'), (r'std::move\(m\.matcher\)', 'm.matcher'),
              (r'return\s*\{\s*m\.matcher\s*\}\s*;', 'return;'), (r'return\s+std::move\(m\)\s*;', 'return;'),
              (r'tag\{\}', 'tag')]
PLUMB = dict(lean_sig=': List Act', acts=True, prologue=['let mut acts : List Act := []'], epilogue='return acts', void_result='acts',
             file=MOCK, no_respell=True)

FUNCTIONS += [
    dict(PLUMB, name='with_action', cxx='with::action', module='WithAction', pre=PLUMB_DROP,
         header=r'struct with\s*\{.*?\n\s*action\(\s*call_modifier<Matcher, modifier_tag, Parent>&& m,\s*const char\* str,\s*D&& d\)'),
    dict(PLUMB, name='sideeffect_action', cxx='sideeffect::action', module='SideeffectAction', pre=PLUMB_DROP,
         header=r'struct sideeffect\s*\{.*?\n\s*action\(\s*call_modifier<Matcher, modifier_tag, Parent>&& m,\s*A&& a\)'),
    dict(PLUMB, name='handle_return_action', cxx='handle_return::action (run-time part)', module='HandleReturnAction', pre=PLUMB_DROP,
         header=r'struct handle_return\s*\{.*?\n\s*action\(\s*call_modifier<Matcher, modifier_tag, Parent>&& m,\s*H&& h\)'),
    dict(PLUMB, name='handle_throw_action', cxx='handle_throw::action (run-time part)', module='HandleThrowAction',
         # whatever the local that holds the handler is called
         pre=PLUMB_DROP + [(r'(?s)auto (\w+) = throw_handler_t<H, signature>\(h\);(.*?)std::move\(\1\)', r'MAKE_THROW_HANDLER(h);\2std::move(handler)')],
         header=r'struct handle_throw\s*\{.*?\n\s*action\(call_modifier<Matcher, modifier_tag, Parent>&& m,\s*H&& h\)'),
    dict(PLUMB, name='set_return', cxx='call_matcher::set_return(std::true_type, h)', module='SetReturn',
         pre=PLUMB_DROP + [(r'new handler\(h\)', 'NEW_HANDLER(h)')],
         header=r'set_return\(\s*std::true_type,\s*T&& h\)'),
]

# the matcher printers that hold user-supplied expected values: how each value reaches the stream (C18, finding F15)
FUNCTIONS += [
    dict(name='range_printers', cxx='the *_printer structs of matcher/range.hpp', file=RANGE, kind='printers', module='RangePrinters', header=''),
    dict(name='set_predicate_printers', cxx='the *_printer structs of matcher/set_predicate.hpp', file=SETP, kind='printers',
         module='SetPredicatePrinters', header=''),
    dict(name='member_is_printer', cxx='the printer lambda of match_member_is (matcher/member_is.hpp)', file='include/trompeloeil/matcher/member_is.hpp',
         kind='printers', functions=['match_member_is'], module='MemberIsPrinter', header=''),
]

# the shipped tracer (stream_tracer.hpp): one record = location, newline, the text trace_agent built, newline
FUNCTIONS += [
    dict(name='stream_tracer_trace', cxx='stream_tracer::trace', file='include/trompeloeil/stream_tracer.hpp', module='StreamTracerTrace',
         header=r'trace\(\s*char const \*file,\s*unsigned long line,\s*std::string const &call\)\s*override',
         lean_sig=': List String', prologue=['let mut out : List String := []'], epilogue='return out', no_respell=True,
         pre=[(r'location\{file, line\}', 'LOCATION(file, line)')],
         stmt_rules=[(r"^stream << LOCATION\(file, line\) << '\\n' << call << '\\n'$", 'out := out ++ ["location{file, line}", "newline", "call", "newline"]')]),
]
