"""cxxvocab.py — the vocabulary of tools/cxx2lean.py: which functions of /repo are translated, the Lean type
of each, and how the calls / stream insertions occurring in them are written in Lean.  Everything here is
data; anything in the source that is not covered makes the translation fail.  (Trusted base: see DESIGN.md.)"""

SEQ = 'include/trompeloeil/sequence.hpp'
MOCK = 'include/trompeloeil/mock.hpp'
LIFE = 'include/trompeloeil/lifetime.hpp'

IGNORE_HOOK = [r'^TROMPELOEIL_VERIF_ACCESS\(.*\)$']
LOCK_DECL = [r'^auto lock = get_lock\(\)$']


def lit(m, em):
    return 'Tok.lit ' + m.group(0)


def chrlit(m, em):
    c = m.group(0)[1:-1]
    return 'Tok.lit "%s"' % {'"': '\\"'}.get(c, c)


STR_TOK = [(r'^"(?:\\.|[^"\\])*"$', lit), (r"^'(?:\\.|[^'\\])*'$", chrlit)]

FUNCTIONS = [
    dict(
        name='find', cxx='trompeloeil::find', file=MOCK,
        header=r'\n\s*find\(\s*call_matcher_list\s*<Sig>\s*&\s*list\s*,[^)]*\)\s*noexcept',
        lean_sig='{α : Type} (matches_ : α → Bool) (sequence_cost : α → Nat) (list : List α) : Option α',
        typewords=['call_matcher_base'],
        vars={'list': 'list'},
        decl_rules=[(r'^call_matcher_base \* first_match = nullptr$', 'let mut first_match : Option α := none')],
        local_types={'lowest_cost': 'Nat', 'cost': 'Nat'},
        stmt_ignore=IGNORE_HOOK,
        expr_rules=[(r'^(\w+)\.matches\(p\)$', r'matches_ \1'), (r'^(\w+)\.sequence_cost\(\)$', r'sequence_cost \1'),
                    (r'^~0U$', 'topU'), (r'^!first_match$', 'first_match.isNone'), (r'^&i$', 'some i')],
    ),
    dict(
        name='cost', cxx='sequence_type::cost', file=SEQ,
        header=r'sequence_type::cost\(\s*sequence_matcher const\s*\*\s*m\)\s*const\s*noexcept',
        lean_sig='{α : Type} [DecidableEq α] (is_satisfied : α → Bool) (m : α) (matchers : List α) : Nat',
        vars={'matchers': 'matchers', 'm': 'm'},
        local_types={'sequence_cost': 'Nat'},
        stmt_ignore=IGNORE_HOOK,
        expr_rules=[(r'^&(\w+) == m$', r'(\1 == m)'), (r'^(\w+)\.is_satisfied\(\)$', r'is_satisfied \1'), (r'^~0U$', 'topU')],
    ),
    dict(
        name='retire_until', cxx='sequence_type::retire_until', file=SEQ,
        header=r'sequence_type::retire_until\(\s*sequence_matcher const\s*\*\s*m\)\s*noexcept',
        lean_sig='{α : Type} [DecidableEq α] (m : α) (matchers0 : List α) : List α',
        prologue=['let mut matchers := matchers0'],
        epilogue='return matchers', void_result='matchers',
        vars={'matchers': 'matchers', 'm': 'm'},
        local_types={'pending': 'Bool'},
        stmt_ignore=IGNORE_HOOK,
        pop_lists={'matchers': dict(front=r'^&\*matchers\.begin\(\)$', pop=r'^%s->retire\(\)$')},
        expr_rules=[(r'^&(\w+) == m$', r'(\1 == m)'), (r'^first == m$', '(first == m)')],
    ),
    dict(
        name='is_completed', cxx='sequence_type::is_completed', file=SEQ,
        header=r'sequence_type::is_completed\(\)\s*const\s*noexcept',
        lean_sig='{α : Type} (is_satisfied : α → Bool) (matchers : List α) : Bool',
        vars={'matchers': 'matchers'},
        decl_ignore=LOCK_DECL, stmt_ignore=IGNORE_HOOK,
        expr_rules=[(r'^(\w+)\.is_satisfied\(\)$', r'is_satisfied \1')],
    ),
    dict(
        name='order', cxx='sequence_matchers<N>::order', file=SEQ,
        header=r'unsigned\s+order\(\)\s*const\s*noexcept',
        lean_sig='{α : Type} (cost_of : α → Nat) (matchers : List α) : Nat',
        vars={'matchers': 'matchers'},
        local_types={'highest_order': 'Nat', 'cost': 'Nat'},
        expr_rules=[(r'^(\w+)\.cost\(\)$', r'cost_of \1')],
    ),
    dict(
        name='validate_match', cxx='sequence_type::validate_match', file=SEQ, imports=['Cost'],
        header=r'sequence_type::validate_match\(\s*severity s,[^)]*\)\s*const',
        lean_sig='{α : Type} [DecidableEq α] (is_satisfied is_optional : α → Bool) (matcher : α) (matchers : List α) : Option (List (Tok α))',
        vars={'matchers': 'matchers', 'matcher': 'matcher'},
        prologue=['let mut report : Option (List (Tok α)) := none'],
        epilogue='return report', void_result='report',
        local_types={'first': 'Bool'},
        decl_rules=[(r'^std::ostringstream os$', 'let mut os : List (Tok α) := []')],
        expr_rules=[(r'^cost\(matcher\) != ~0U$', '(cost is_satisfied matcher matchers != topU)'),
                    (r'^matchers\.empty\(\)$', 'matchers.isEmpty'),
                    (r'^(\w+)\.is_optional\(\)$', r'is_optional \1')],
        stmt_rules=[(r'^send_report\(s, loc, os\.str\(\)\)$', 'report := some os'),
                    (r'^(\w+)\.print_expectation\(os\)$', r'os := os ++ [Tok.expectation \1]')],
        stream_sinks=[(r'^os$', 'os')],
        tok_rules=STR_TOK + [(r'^seq_name$', 'Tok.seqName'), (r'^match_name$', 'Tok.matchName'), (r'^loc$', 'Tok.loc')],
    ),
    dict(
        name='seq_dtor', cxx='sequence_type::~sequence_type', file=SEQ,
        header=r'sequence_type::~sequence_type\(\)',
        lean_sig='{α : Type} (matchers0 retired0 : List α) : Option (Sev × List (Tok α)) × List α × List α',
        prologue=['let mut matchers := matchers0', 'let mut retired_matchers := retired0', 'let mut report : Option (Sev × List (Tok α)) := none'],
        epilogue='return (report, matchers, retired_matchers)',
        vars={'matchers': 'matchers', 'retired_matchers': 'retired_matchers'},
        decl_ignore=LOCK_DECL,
        local_types={'touched': 'Bool'},
        decl_rules=[(r'^std::ostringstream os$', 'let mut os : List (Tok α) := []')],
        pop_lists={'matchers': dict(front=r'^matchers\.begin\(\)$', pop=r'^%s->detach\(\)$'),
                   'retired_matchers': dict(front=r'^$', pop=r'^%s$', inline_pop=r'^retired_matchers\.begin\(\)->detach\(\)$')},
        stmt_rules=[(r'^send_report\(severity::nonfatal, location\(\), os\.str\(\)\)$', 'report := some (Sev.nonfatal, os)'),
                    (r'^(\w+)->print_expectation\(os\)$', r'os := os ++ [Tok.expectation \1]')],
        stream_sinks=[(r'^os$', 'os')],
        tok_rules=STR_TOK + [(r'^m->sequence_name\(\)$', 'Tok.seqName')],
    ),
]
