#!/usr/bin/env python3
"""Shared machinery of the checks: building (Lean project, C++ harnesses from /repo's current
tree), running script batches on implementation and model, projections, shrinking, the Lean
audit, evidence and replay files."""
import concurrent.futures as cf
import hashlib
import json
import os
import re
import shutil
import subprocess
import sys
import time

HERE = os.path.dirname(os.path.abspath(__file__))
VERIF = os.path.dirname(HERE)
REPO = os.environ.get('VERIF_REPO', '/repo')
LEAN_DIR = os.path.join(VERIF, 'lean')
BUILD = os.path.join(VERIF, 'build')
# VERIF_OUT redirects replays and evidence (used when the checks are run against a seeded variant of the
# tree given by VERIF_REPO, so that the committed evidence of the real tree is not overwritten)
_OUT = os.environ.get('VERIF_OUT', VERIF)
REPLAYS = os.path.join(_OUT, 'replays')
EVIDENCE = os.path.join(_OUT, 'evidence')
NPROC = int(os.environ.get('VERIF_JOBS', str(os.cpu_count() or 8)))
GUARD = 'TROMPELOEIL_VERIF'

sys.path.insert(0, HERE)
sys.path.insert(0, os.path.join(VERIF, 'harness', 'world'))


def log(*a):
    print(*a, file=sys.stderr, flush=True)


def sh(cmd, **kw):
    return subprocess.run(cmd, shell=isinstance(cmd, str), stdout=subprocess.PIPE, stderr=subprocess.PIPE,
                          universal_newlines=True, **kw)


# ------------------------------------------------------------------------------------------
# tree hash and builds

def repo_hash(extra=''):
    h = hashlib.sha256()
    inc = os.path.join(REPO, 'include')
    for root, dirs, files in sorted(os.walk(inc)):
        dirs.sort()
        for f in sorted(files):
            p = os.path.join(root, f)
            h.update(os.path.relpath(p, inc).encode())
            with open(p, 'rb') as fh:
                h.update(fh.read())
    h.update(extra.encode())
    return h.hexdigest()[:20]


def dir_hash(path, exts=('.cpp', '.hpp', '.py')):
    h = hashlib.sha256()
    for root, dirs, files in sorted(os.walk(path)):
        dirs.sort()
        for f in sorted(files):
            if f.endswith(exts):
                with open(os.path.join(root, f), 'rb') as fh:
                    h.update(f.encode())
                    h.update(fh.read())
    return h.hexdigest()[:12]


def prune_builds(keep):
    """keep the build cache small: only the directories in `keep` and the twelve most recent others."""
    if not os.path.isdir(BUILD):
        return
    ds = [os.path.join(BUILD, d) for d in os.listdir(BUILD) if os.path.isdir(os.path.join(BUILD, d))]
    ds = [d for d in ds if os.path.basename(d) not in keep]
    ds.sort(key=os.path.getmtime, reverse=True)
    for d in ds[12:]:
        shutil.rmtree(d, ignore_errors=True)


CXX_SAN = ['-O1', '-g', '-fsanitize=address,undefined', '-fno-sanitize-recover=all', '-DTROMPELOEIL_SANITY_CHECKS']


def compile_many(jobs, cwd):
    """jobs: list of (src, obj, flags).  Returns list of error strings."""
    errs = []

    def one(j):
        src, obj, flags = j
        r = sh(['g++'] + flags + ['-c', src, '-o', obj], cwd=cwd)
        return (src, r.returncode, r.stderr)
    with cf.ThreadPoolExecutor(NPROC) as ex:
        for src, rc, err in ex.map(one, jobs):
            if rc != 0:
                # keep every "<generated file>:<line>:" reference (they locate the offending generated block) + the tail
                refs = sorted(set(re.findall(r'%s:\d+:' % re.escape(os.path.basename(src)), err)))
                errs.append('%s:\n%s\n%s' % (src, ' '.join(refs[:400]), err[-3000:]))
    return errs


class BuildError(Exception):
    pass


def build_world_harness():
    """compile harness/world against /repo's current headers; cached by content hash."""
    import shapes
    hdir = os.path.join(VERIF, 'harness', 'world')
    key = repo_hash(dir_hash(hdir))
    out = os.path.join(BUILD, key, 'world')
    exe = os.path.join(out, 'h_world')
    if os.path.exists(exe):
        os.utime(os.path.join(BUILD, key))
        return exe
    os.makedirs(out, exist_ok=True)
    t0 = time.time()
    shapes.gen(os.path.join(out, 'gen'), NPROC)
    flags = ['-std=c++17'] + CXX_SAN + ['-I' + os.path.join(REPO, 'include'), '-I' + hdir]
    srcs = [os.path.join(out, 'gen', f) for f in sorted(os.listdir(os.path.join(out, 'gen')))] + \
           [os.path.join(hdir, 'h_world.cpp')]
    jobs = [(s, os.path.join(out, os.path.basename(s)[:-4] + '.o'), flags) for s in srcs]
    errs = compile_many(jobs, out)
    if errs:
        raise BuildError('world harness does not compile against /repo:\n' + '\n'.join(errs[:3]))
    r = sh(['g++', '-fsanitize=address,undefined'] + [j[1] for j in jobs] + ['-o', exe + '.tmp'])
    if r.returncode != 0:
        raise BuildError('world harness link failed:\n' + r.stderr[-3000:])
    os.rename(exe + '.tmp', exe)
    for j in jobs:
        os.remove(j[1])
    log('[build] h_world for tree %s in %.0fs' % (key, time.time() - t0))
    prune_builds({key})
    return exe


def build_simple_harness(name, std='c++17', extra_flags=None, sanitize=True, link_flags=None):
    """compile every .cpp of harness/<name> against /repo's current headers into build/<key>/<name>/h_<name>."""
    hdir = os.path.join(VERIF, 'harness', name)
    flags0 = (CXX_SAN if sanitize else ['-O1', '-g']) + (extra_flags or [])
    key = repo_hash(dir_hash(hdir) + std + ' '.join(flags0))
    out = os.path.join(BUILD, key, name)
    exe = os.path.join(out, 'h_' + name)
    if os.path.exists(exe):
        os.utime(os.path.join(BUILD, key))
        return exe
    os.makedirs(out, exist_ok=True)
    t0 = time.time()
    flags = ['-std=' + std] + flags0 + ['-I' + os.path.join(REPO, 'include'), '-I' + hdir]
    srcs = [os.path.join(hdir, f) for f in sorted(os.listdir(hdir)) if f.endswith('.cpp')]
    jobs = [(s_, os.path.join(out, os.path.basename(s_)[:-4] + '.o'), flags) for s_ in srcs]
    errs = compile_many(jobs, out)
    if errs:
        raise BuildError('%s harness does not compile against /repo:\n' % name + '\n'.join(errs[:3]))
    lf = link_flags if link_flags is not None else (['-fsanitize=address,undefined'] if sanitize else [])
    r = sh(['g++'] + lf + [j[1] for j in jobs] + ['-o', exe + '.tmp'] + (['-lpthread'] if 'thread' in ' '.join(flags0) else []))
    if r.returncode != 0:
        raise BuildError('%s harness link failed:\n' % name + r.stderr[-3000:])
    os.rename(exe + '.tmp', exe)
    for j in jobs:
        os.remove(j[1])
    log('[build] h_%s for tree %s in %.0fs' % (name, key, time.time() - t0))
    prune_builds({key})
    return exe


def build_generated_harness(name, files, std='c++17', extra_flags=None, sanitize=True):
    """compile generated sources (plus harness/<name>/*.hpp on the include path) against /repo."""
    hdir = os.path.join(VERIF, 'harness', name)
    flags0 = (CXX_SAN if sanitize else ['-O1', '-g']) + (extra_flags or [])
    h = hashlib.sha256()
    for n in sorted(files):
        h.update(n.encode())
        h.update(files[n].encode())
    key = repo_hash(dir_hash(hdir) + std + ' '.join(flags0) + h.hexdigest())
    out = os.path.join(BUILD, key, name)
    exe = os.path.join(out, 'h_' + name)
    if os.path.exists(exe):
        os.utime(os.path.join(BUILD, key))
        return exe
    os.makedirs(out, exist_ok=True)
    t0 = time.time()
    for n, src in files.items():
        with open(os.path.join(out, n), 'w') as f:
            f.write(src)
    flags = ['-std=' + std] + flags0 + ['-I' + os.path.join(REPO, 'include'), '-I' + hdir]
    srcs = [os.path.join(out, n) for n in sorted(files) if n.endswith('.cpp')]
    jobs = [(s_, s_[:-4] + '.o', flags) for s_ in srcs]
    errs = compile_many(jobs, out)
    if errs:
        e = BuildError('generated %s harness does not compile against /repo:\n' % name + '\n'.join(errs[:3]))
        e.full = '\n'.join(errs)
        raise e
    r = sh(['g++'] + (['-fsanitize=address,undefined'] if sanitize else []) + [j[1] for j in jobs] + ['-o', exe + '.tmp'])
    if r.returncode != 0:
        raise BuildError('%s harness link failed:\n' % name + r.stderr[-3000:])
    os.rename(exe + '.tmp', exe)
    for j in jobs:
        os.remove(j[1])
    log('[build] generated h_%s for tree %s in %.0fs' % (name, key, time.time() - t0))
    prune_builds({key})
    return exe


def run_noinput(exe):
    env = dict(os.environ)
    env['ASAN_OPTIONS'] = 'detect_leaks=1:exitcode=97:detect_stack_use_after_return=1'
    env['UBSAN_OPTIONS'] = 'print_stacktrace=1:halt_on_error=1'
    p = subprocess.run([exe], stdout=subprocess.PIPE, stderr=subprocess.PIPE, universal_newlines=True, env=env)
    out = [o for o in p.stdout.split('\n') if o != '']
    errs = []
    if p.returncode != 0:
        errs.append(('<whole run>', 'exit %d: %s' % (p.returncode, crash_summary(p.stderr))))
    return out, errs


def run_lines(cmd, lines, nbatch=None):
    """run a one-line-in/one-line-out program over `lines` in parallel batches; returns (outputs, errors)."""
    if not lines:
        return [], []
    nbatch = nbatch or NPROC
    size = (len(lines) + nbatch - 1) // nbatch
    batches = [lines[i:i + size] for i in range(0, len(lines), size)]
    env = dict(os.environ)
    env['ASAN_OPTIONS'] = 'detect_leaks=1:exitcode=97:detect_stack_use_after_return=1'
    env['UBSAN_OPTIONS'] = 'print_stacktrace=1:halt_on_error=1'

    def one(b):
        p = subprocess.run(cmd, input='\n'.join(b) + '\n', stdout=subprocess.PIPE, stderr=subprocess.PIPE,
                           universal_newlines=True, env=env)
        return p.returncode, p.stdout.split('\n'), p.stderr
    outs = []
    errs = []
    with cf.ThreadPoolExecutor(NPROC) as ex:
        for b, (rc, out, err) in zip(batches, ex.map(one, batches)):
            out = [o for o in out if o != '']
            if rc != 0 or len(out) != len(b):
                errs.append((b[len(out)] if len(out) < len(b) else b[-1], 'exit %d: %s' % (rc, crash_summary(err))))
                out = out + ['<crash>'] * (len(b) - len(out))
            outs.extend(out[:len(b)])
    return outs, errs


def prop_modules(prop, lean_dir=None):
    """the theorem modules of a property: Props/<id>.lean and any Props/<id>_*.lean (history-level theorems that have to
    come later in the import order)."""
    d = os.path.join(lean_dir or LEAN_DIR, 'TrompModel', 'Props')
    out = []
    for f in sorted(os.listdir(d)):
        if f == prop + '.lean' or (f.startswith(prop + '_') and f.endswith('.lean')):
            out.append('TrompModel.Props.' + f[:-5])
    return out


def build_lean(prop=None, lean_dir=None):
    """lake build of the driver and of the property's theorem module (a failure is a failed proof
    obligation).  Only the modules this property needs are built, so that a broken obligation of another
    property does not take this check down with it."""
    t0 = time.time()
    lean_dir = lean_dir or LEAN_DIR
    if os.environ.get('VERIF_SKIP_LEAN') == '1' and lean_dir == LEAN_DIR:      # seeded-variant runs: the Lean side is unchanged
        return os.path.join(LEAN_DIR, '.lake', 'build', 'bin', 'tmodel')
    targets = ['tmodel']
    if prop:
        targets += prop_modules(prop, lean_dir)
    r = sh(['lake', 'build'] + targets, cwd=lean_dir)
    if r.returncode != 0:
        raise BuildError('lake build %s failed:\n' % ' '.join(targets) + (r.stdout + r.stderr)[-6000:])
    exe = os.path.join(lean_dir, '.lake', 'build', 'bin', 'tmodel')
    if time.time() - t0 > 5:
        log('[build] lake build %.0fs' % (time.time() - t0))
    return exe


# ------------------------------------------------------------------------------------------
# Lean audit

FORBIDDEN_TOKENS = re.compile(r'\b(sorry|admit|native_decide|bv_decide|implemented_by|unsafe)\b|^axiom\s|maxHeartbeats\s+0',
                              re.M)
ALLOWED_AXIOMS = {'propext', 'Classical.choice', 'Quot.sound'}


def strip_comments(src):
    src = re.sub(r'/-.*?-/', '', src, flags=re.S)
    src = re.sub(r'--.*', '', src)
    return src


def lean_audit(prop, lean_dir=None):
    """-> dict(obligations, discharged, theorems=[(name, axioms)], problems=[...])"""
    problems = []
    if os.environ.get('VERIF_SKIP_LEAN') == '1' and lean_dir is None:
        return dict(obligations=0, discharged=0, theorems=[], problems=[])
    LEAN_DIR = lean_dir or globals()['LEAN_DIR']
    for root, _, files in os.walk(LEAN_DIR):
        if '.lake' in root:
            continue
        for f in files:
            if f.endswith('.lean'):
                src = strip_comments(open(os.path.join(root, f)).read())
                m = FORBIDDEN_TOKENS.search(src)
                if m:
                    problems.append('%s: forbidden token %r' % (os.path.join(root, f), m.group(0)))
    thms = []
    mods = prop_modules(prop, LEAN_DIR)
    decls = []
    for mod in mods:
        pfile = os.path.join(LEAN_DIR, *mod.split('.')) + '.lean'
        src = strip_comments(open(pfile).read())
        ns = re.findall(r'^namespace\s+(\S+)', src, flags=re.M)
        prefix = (ns[0] + '.') if ns else ''
        decls += [prefix + n for n in re.findall(r'^theorem\s+(\S+)', src, flags=re.M)]
    if decls:
        probe = os.path.join(LEAN_DIR, '.lake', 'audit_%s.lean' % prop)
        os.makedirs(os.path.dirname(probe), exist_ok=True)
        with open(probe, 'w') as fh:
            for mod in mods:
                fh.write('import %s\n' % mod)
            for n in decls:
                fh.write('#print axioms %s\n' % n)
        r = sh(['lake', 'env', 'lean', probe], cwd=LEAN_DIR)
        out = r.stdout + r.stderr
        if r.returncode != 0:
            problems.append('axiom audit failed: ' + out[-2000:])
        for full in decls:
            m = re.search(r"'%s' depends on axioms: \[(.*?)\]" % re.escape(full), out, flags=re.S)
            m0 = re.search(r"'%s' does not depend on any axioms" % re.escape(full), out)
            if m:
                ax = [a.strip() for a in m.group(1).replace('\n', ' ').split(',') if a.strip()]
            elif m0:
                ax = []
            else:
                ax = None
                problems.append('no axiom report for ' + full)
            if ax is not None:
                bad = [a for a in ax if a not in ALLOWED_AXIOMS]
                if bad:
                    problems.append('%s depends on %s' % (full, bad))
            thms.append((full, ax))
    ok = [t for t in thms if t[1] is not None and all(a in ALLOWED_AXIOMS for a in t[1])]
    return dict(obligations=len(thms), discharged=len(ok) if not [p for p in problems if 'forbidden token' in p] else 0,
                theorems=thms, problems=problems)


# ------------------------------------------------------------------------------------------
# Each tie module is attached to the properties that the translated function *primarily* decides, so that a change of one
# function raises the alarm where it belongs and not in every check that happens to exercise the function.
# translator tie: Gen/Cxx/*.lean regenerated from the current source + the theorems of Tie/*.lean

TIES = {
    'Find': dict(props=['C01', 'C02'], theorems=['find_eq', 'find_tie'], cxx='trompeloeil::find (mock.hpp)'),
    'Cost': dict(props=['C05'], theorems=['cost_eq', 'cost_tie'], cxx='sequence_type::cost (sequence.hpp)'),
    'Order': dict(props=['C02', 'C05'], theorems=['order_eq', 'order_tie'], cxx='sequence_matchers<N>::order (sequence.hpp)'),
    'RetireUntil': dict(props=['C05'], theorems=['retire_until_eq', 'retire_tie'], cxx='sequence_type::retire_until (sequence.hpp)'),
    'IsCompleted': dict(props=['C06'], theorems=['is_completed_eq', 'completed_tie'], cxx='sequence_type::is_completed (sequence.hpp)'),
    'ValidateMatch': dict(props=['C05', 'C15'], theorems=['validate_match_eq', 'validate_tie'], cxx='sequence_type::validate_match (sequence.hpp)'),
    'SeqDtor': dict(props=['C06', 'C14'], theorems=['seq_dtor_eq', 'teardown_tie'], cxx='sequence_type::~sequence_type (sequence.hpp)'),
    'RunActions': dict(props=['C01', 'C05', 'C07', 'C16'], theorems=['run_actions_order'], cxx='call_matcher::run_actions (mock.hpp)'),
    'SemRunActions': dict(gen=['RunActions'], props=['C01', 'C05', 'C07'], theorems=['run_actions_sem'], cxx='call_matcher::run_actions (mock.hpp), meaning of its trace'),
    'SemNotify': dict(gen=['Notify'], props=['C05', 'C06'], theorems=['notify_sem'], cxx='lifetime_monitor::notify (lifetime.hpp), meaning of its trace'),
    'SemRelease': dict(gen=['CallMatcherDtor', 'IsUnfulfilled', 'ReportMissed'], props=['C04'], theorems=['release_sem'], cxx='call_matcher::~call_matcher (mock.hpp), meaning of its trace'),
    'SemDecommission': dict(gen=['Decommission', 'MockDestroyed', 'ReportMissed'], props=['C04'], theorems=['decommission_sem'], cxx='call_matcher_list::decommission (mock.hpp), meaning of its trace'),
    'SemKillw': dict(gen=['DeathwatchedDtor'], props=['C13'], theorems=['killw_sem'], cxx='deathwatched<T>::~deathwatched (lifetime.hpp), meaning of its trace'),
    'SemReleasemon': dict(gen=['LifetimeMonitorDtor'], props=['C13'], theorems=['releasemon_sem'], cxx='lifetime_monitor::~lifetime_monitor (lifetime.hpp), meaning of its trace'),
    'CallMatcherDtor': dict(props=['C04'], theorems=['call_matcher_dtor_order'], cxx='call_matcher::~call_matcher (mock.hpp)'),
    'MockDestroyed': dict(props=['C04'], theorems=['mock_destroyed_order'], cxx='call_matcher::mock_destroyed (mock.hpp)'),
    'IsUnfulfilled': dict(props=['C04'], theorems=['is_unfulfilled_tie'], cxx='call_matcher::is_unfulfilled (mock.hpp)'),
    'ReportMissed': dict(props=['C04'], theorems=['report_missed_order'], cxx='call_matcher::report_missed (mock.hpp)'),
    'Decommission': dict(props=['C04'], theorems=['decommission_order'], cxx='call_matcher_list::decommission (mock.hpp)'),
    'Notify': dict(props=['C05', 'C06'], theorems=['notify_order'], cxx='lifetime_monitor::notify (lifetime.hpp)'),
    'LifetimeMonitorDtor': dict(props=['C13'], theorems=['lifetime_monitor_dtor_order'], cxx='lifetime_monitor::~lifetime_monitor (lifetime.hpp)'),
    'DeathwatchedDtor': dict(props=['C13'], theorems=['deathwatched_dtor_order'], cxx='deathwatched<T>::~deathwatched (lifetime.hpp)'),
    'TracerDtor': dict(props=['C17'], theorems=['tracer_dtor_tie'], cxx='tracer::~tracer (mock.hpp)'),
    'MockFunc': dict(props=['C08', 'C17'], theorems=['mock_func_order'], cxx='trompeloeil::mock_func (mock.hpp)'),
    'HandleCost': dict(props=['C05'], theorems=['handle_cost_tie'], cxx='sequence_matcher::cost (sequence.hpp)'),
    'HandleValidate': dict(props=['C05'], theorems=['handle_validate_order'], cxx='sequence_matcher::validate_match (sequence.hpp)'),
    'HandleRetire': dict(props=['C06'], theorems=['handle_retire_order'], cxx='sequence_matcher::retire (sequence.hpp)'),
    'HandleDetach': dict(props=['C14'], theorems=['handle_detach_order'], cxx='sequence_matcher::detach (sequence.hpp)'),
    'HandleRetirePredecessors': dict(props=['C05'], theorems=['handle_retire_predecessors_order'], cxx='sequence_matcher::retire_predecessors (sequence.hpp)'),
    'AllValidate': dict(props=['C05'], theorems=['all_validate_order'], cxx='sequence_matchers<N>::validate (sequence.hpp)'),
    'AllRetire': dict(props=['C06'], theorems=['all_retire_order'], cxx='sequence_matchers<N>::retire (sequence.hpp)'),
    'AllRetirePredecessors': dict(props=['C05', 'C06'], theorems=['all_retire_predecessors_order'], cxx='sequence_matchers<N>::retire_predecessors (sequence.hpp)'),
    'CanBeCalled': dict(props=['C05'], theorems=['can_be_called_tie'], cxx='sequence_handler<N>::can_be_called (mock.hpp)'),
    'HandlerIsSatisfied': dict(props=['C03'], theorems=['is_satisfied_tie'], cxx='sequence_handler_base::is_satisfied (mock.hpp)'),
    'HandlerIsSaturated': dict(props=['C03'], theorems=['is_saturated_tie'], cxx='sequence_handler_base::is_saturated (mock.hpp)'),
    'HandlerIsForbidden': dict(props=['C07'], theorems=['is_forbidden_tie'], cxx='sequence_handler_base::is_forbidden (mock.hpp)'),
    'HandlerIncrementCall': dict(props=['C03'], theorems=['increment_call_tie'], cxx='sequence_handler_base::increment_call (mock.hpp)'),
    'Hexdump': dict(props=['C18'], theorems=['hexdump_eq'], cxx='trompeloeil::hexdump (mock.hpp)'),
    'StreamSentry': dict(props=['C18'], gen=['StreamSentryCtor', 'StreamSentryDtor'],
                         theorems=['sentry_ctor_establishes', 'sentry_dtor_restores', 'stream_sentry_dtor_order'],
                         cxx='stream_sentry constructor and destructor (mock.hpp)'),
    'RangeLoops': dict(props=['C11'], gen=['IncludesElements', 'IncludesRange', 'IsPermutationElements', 'IsPermutationRange'],
                       theorems=['includes_elements_eq', 'includes_range_eq', 'is_permutation_elements_eq', 'is_permutation_range_eq'],
                       cxx='the first-fit loops of range_includes / range_is_permutation (matcher/range.hpp)'),
    'SetPredicate': dict(props=['C10'], gen=['AnyOfCheck', 'AllOfCheck', 'NoneOfCheck'], theorems=['any_of_eq', 'all_of_eq', 'none_of_eq'],
                         cxx='any_of / all_of / none_of checkers (matcher/set_predicate.hpp)'),
    'Matchers': dict(props=['C10'], gen=['NotMatches', 'DerefMatches', 'RegexCheck', 'StringHelperBool'],
                     theorems=['not_matches_tie', 'deref_matches_tie', 'regex_check_tie'],
                     cxx='not_matcher::matches, ptr_deref::matches, regex_check (matcher/not.hpp, deref.hpp, re.hpp)'),
    'HandleIsOptional': dict(props=['C05'], theorems=['is_optional_tie'], cxx='sequence_matcher::is_optional (sequence.hpp)'),
    'NoMatch': dict(props=['C01', 'C04', 'C08', 'C15'], gen=['MatchConditions', 'CallMatcherMatches', 'ReportMismatchMember', 'ReportMismatchFree', 'HookLast'],
                    theorems=['match_conditions_eq', 'match_conditions_tie', 'matches_tie', 'report_mismatch_member_eq', 'report_mismatch_member_tie',
                              'report_mismatch_free_eq', 'report_mismatch_free_tie', 'hook_last_tie'],
                    cxx='call_matcher::match_conditions / matches / report_mismatch / hook_last and the free trompeloeil::report_mismatch (mock.hpp)'),
    'Slots': dict(props=['C03', 'C05', 'C16', 'C17'], gen=['SetLimits', 'RuntimeTimes', 'AddLast', 'AddRetired', 'SetTracer', 'SetReporter1', 'SetReporter2'],
                  theorems=['set_limits_tie', 'runtime_times_tie', 'add_last_tie', 'add_retired_tie', 'set_tracer_tie', 'set_reporter1_tie',
                            'set_reporter2_tie', 'setreporter_sem'],
                  cxx='sequence_handler_base::set_limits, runtime_times::action (RT_TIMES), sequence_type::add_last / add_retired, '
                      'set_tracer, set_reporter (both overloads) (mock.hpp, sequence.hpp)'),
    'Monitors': dict(props=['C13'], gen=['ChainLifetimeMonitor', 'ExpectDeath', 'NullOnMoveAssignPtr', 'NullOnMoveAssignCopy', 'NullOnMoveAssignMove',
                                        'NullOnMoveCopyCtor', 'NullOnMoveMoveCtor'],
                     theorems=['expect_death_eq', 'expect_death_tie', 'null_on_move_assign_ptr_tie', 'null_on_move_assign_copy_tie',
                               'null_on_move_assign_move_tie', 'null_on_move_copy_ctor_tie', 'null_on_move_move_ctor_tie'],
                     cxx='chain_lifetime_monitor, deathwatched<T>::trompeloeil_expect_death (lifetime.hpp), null_on_move<T>::operator= and its copy / move constructors (mock.hpp)'),
    'Coro': dict(props=['C20'], gen=['HandleCoYield', 'HandleCoReturn', 'HandleCoThrow', 'CoBody', 'YieldExprExpr', 'CoThrowHandlerCall'],
                 theorems=['co_body_tie', 'handle_co_yield_eq', 'handle_co_return_eq', 'handle_co_throw_eq', 'handle_invalid', 'fold_shared',
                           'registered_tie', 'registered_eq_ofClauses', 'yield_and_throw_clauses'],
                 cxx='handle_co_yield / handle_co_return / handle_co_throw ::action (registration of the CO_ clauses, shared yield list) '
                     'and co_return_handler_t::call (the coroutine body) (coro.hpp)'),
    'Params': dict(props=['C01', 'C15'], gen=['MatchParameters', 'PrintMismatchOne', 'PrintMismatchAll', 'MissedValue', 'StreamParams'],
                   theorems=['match_parameters_eq', 'match_parameters_tie', 'print_mismatch_one_eq', 'print_mismatch_all_eq', 'print_mismatch_tie',
                             'missed_value_eq', 'stream_params_eq'],
                   cxx='match_parameters, print_mismatch, missed_value, stream_params (mock.hpp): the pack folds over the parameter positions'),
    'Trace': dict(props=['C17'], gen=['TraceAgentCtor', 'TraceAgentDtor', 'TraceParams', 'TraceReturn', 'TraceException', 'StreamTracerTrace'],
                  theorems=['trace_agent_ctor_tie', 'trace_agent_dtor_tie', 'trace_params_tie', 'trace_return_tie', 'trace_exception_tie', 'trace_record_tie',
                            'stream_tracer_record'],
                  cxx='class trace_agent: constructor, destructor, trace_params, trace_return, trace_exception (mock.hpp)'),
    'PrintDispatch': dict(props=['C18'], gen=['PrintTop', 'PrinterDefault', 'StreamerStreamable', 'StreamerPair', 'StreamerTuple', 'StreamerCollection', 'StreamerOpaque'],
                          theorems=['print_dispatch', 'print_null_tie', 'print_null_model', 'streamer_streamable_tie', 'streamer_opaque_tie', 'streamer_pair_tie',
                                    'streamer_collection_eq', 'streamer_tuple_eq', 'streamer_collection_tie', 'streamer_tuple_tie'],
                          cxx='print(os, t), printer<T>::print, streamer<>::print for streamable values, pairs, tuples, collections, opaque objects (mock.hpp)'),
    'Mkarg': dict(props=['C09', 'C19'], gen=['ArgInRange', 'ArgOutOfRange', 'Mkarg'], theorems=['mkarg_tie', 'underscore_k'],
                  cxx='mkarg<N> and the two arg<N> overloads (mock.hpp): what _k is bound to'),
    'Routing': dict(props=['C03', 'C15', 'C16'], gen=['SendReport', 'SendOkReport', 'ReporterSend', 'ReporterSendOk', 'TimesAction'],
                    theorems=['send_report_route', 'send_ok_report_route', 'times_action_tie'],
                    cxx='send_report, send_ok_report, reporter<T>::send / sendOk, times::action (mock.hpp)'),
    'SemMockFunc': dict(gen=['MockFunc', 'Find', 'ReportMismatchFree', 'ReportMismatchMember', 'RunActions'], props=['C01', 'C02'],
                        theorems=['mock_func_sem'],
                        cxx='the whole call path: mock_func read with find, report_mismatch and run_actions (mock.hpp), meaning of the composed trace'),
    'SemExpect': dict(gen=['RuntimeTimes', 'SetLimits', 'AddLast', 'HookLast'], props=['C03', 'C05', 'C02'],
                      theorems=['register_pendingOf', 'expect_sem'],
                      cxx='the expectation statement: runtime_times::action / set_limits, sequence_matcher ctor (add_last), make_expectation (hook_last), meaning'),
    'SemKill': dict(gen=['ExpectationsDtor', 'ExpectationsDtorNonMovable', 'Decommission', 'MockDestroyed', 'ReportMissed'], props=['C04'],
                    theorems=['expectations_dtor_order', 'expectations_dtor_sem'],
                    cxx='~expectations (both specialisations): active list decommissioned before the saturated list'),
    'Reports': dict(props=['C04', 'C07', 'C08', 'C15'], gen=['AddCondition', 'AddSideEffect', 'ReportUnfulfilled', 'ReportForbiddenCall', 'ReturnValue'],
                    theorems=['add_condition_tie', 'add_side_effect_tie', 'clauses_in_declaration_order', 'report_unfulfilled_tie',
                              'report_forbidden_call_tie', 'return_value_tie'],
                    cxx='call_matcher::add_condition / add_side_effect / return_value, report_unfulfilled, report_forbidden_call (mock.hpp)'),
    'RangeElements': dict(props=['C11'], gen=['IsElements', 'StartsWithElements', 'EndsWithElements'],
                          theorems=['elem_loop', 'is_elements_tie', 'starts_with_elements_tie', 'ends_with_elements_tie'],
                          cxx='is_elements_checker, starts_with_elements_checker, ends_with_checker (matcher/range.hpp): iterator + lambda + pack fold'),
    'RangeContainers': dict(props=['C11'], gen=['IsRange', 'StartsWithRange', 'EndsWithRange', 'RangeAllOf', 'RangeNoneOf', 'RangeAnyOf'],
                            theorems=['is_range_tie', 'starts_with_range_tie', 'ends_with_range_tie', 'range_all_of_tie', 'range_none_of_tie',
                                      'range_any_of_tie', 'range_containers_accept'],
                            cxx='is_range_checker, starts_with_range_checker, ends_with_range_checker, range_all_of / none_of / any_of checkers '
                                '(matcher/range.hpp): one standard algorithm with a param_matches lambda each'),
    'Delegates': dict(props=['C03', 'C05', 'C06', 'C13'],
                      gen=['CmIsSatisfied', 'CmIsSaturated', 'CmSequenceCost', 'ShOrder', 'ShValidate', 'ShRetire', 'ShRetirePredecessors', 'Sm0Order',
                           'LmIsSatisfied', 'LmIsSaturated', 'SeqIsCompleted', 'ConditionCheck', 'GetMinCalls', 'GetCalls', 'SmIsSatisfied',
                           'HandlerIsSatisfied', 'HandlerIsSaturated'],
                      theorems=['cm_queries_delegate', 'public_is_satisfied_tie', 'public_is_saturated_tie', 'lm_queries', 'public_monitor_queries_tie',
                                'sm_is_satisfied_delegates', 'seq_is_completed_delegates', 'sh_delegates', 'cm_sequence_cost_delegates',
                                'sm0_order_zero', 'condition_check_delegates', 'call_count_accessors'],
                      cxx='the delegating layers: call_matcher::is_satisfied / is_saturated / sequence_cost, sequence_handler<N>::validate / order / '
                          'retire / retire_predecessors, sequence_matchers<0>::order, lifetime_monitor::is_satisfied / is_saturated, '
                          'sequence::is_completed, sequence_matcher::is_satisfied, condition::check, get_min_calls / get_calls'),
    'IsNull': dict(props=['C18'], gen=['IsNullOverloads', 'IsNullRedirect'],
                   theorems=['is_null_table_tie', 'is_null_sem', 'matcher_is_not_null', 'array_is_not_null', 'reference_wrapper_unwrapped'],
                   cxx='the overload set of is_null / is_null_redirect (mock.hpp): the null test in front of every printed value'),
    'ClausePlumbing': dict(props=['C08'], gen=['WithAction', 'SideeffectAction', 'HandleReturnAction', 'HandleThrowAction', 'SetReturn',
                                                'AddCondition', 'AddSideEffect'],
                           theorems=['clause_plumbing_tie', 'applyClause_eq', 'clauses_registered', 'statement_registers'],
                           cxx='with::action, sideeffect::action, handle_return::action, handle_throw::action (run-time parts), '
                               'call_matcher::set_return (mock.hpp): each clause makes one call into the matcher'),
    'Printers': dict(props=['C18'], gen=['RangePrinters', 'SetPredicatePrinters', 'MemberIsPrinter'],
                     theorems=['expected_values_go_through_print', 'printers_covered', 'member_is_value_goes_through_print'],
                     cxx='the *_printer structs of matcher/range.hpp and matcher/set_predicate.hpp: every held value is written through trompeloeil::print'),
    'ReturnPath': dict(props=['C08', 'C17'], gen=['ReturnHandlerCall', 'TraceReturnVoid', 'TraceReturnValue', 'ThrowHandlerCall'],
                       theorems=['return_path_tie', 'return_evaluated_once', 'throw_path_tie', 'throw_evaluated_once'],
                       cxx='return_handler_t::call and the two trace_return<Ret> helpers (mock.hpp): the RETURN functor is evaluated once'),
    'DecayReturn': dict(props=['C08', 'C09'], gen=['DecayReturnType'],
                        theorems=['decay_return_table_tie', 'lvalue_return_is_same_object', 'rvalue_return_is_value', 'array_return_is_pointer'],
                        cxx='the overload set of decay_return_type (mock.hpp): what a RETURN expression becomes on its way out of the clause'),
    'Compare': dict(props=['C10'], gen=['CompareTable', 'ParamMatchesMatcher', 'ParamMatchesValue', 'PredicateMatches', 'MemberIsCheck', 'AnyPredicate'],
                    theorems=['compare_table_tie', 'opOf_cmp', 'compare_matcher_tie', 'param_matches_matcher_tie', 'param_matches_value_tie',
                              'member_is_tie', 'any_predicate_tie'],
                    cxx='eq/ne/lt/le/gt/ge: the functor macro and the function table of matcher/compare.hpp, predicate_matcher::matches_ '
                        '(matcher.hpp), param_matches_impl for matchers and for plain values (mock.hpp), member_is_matcher, any_predicate'),
    'RingScripts': dict(props=['C14', 'C06', 'C05'], gen=['RunActions', 'Notify', 'Decommission', 'ExpectationsDtor', 'IsCompleted', 'HandleRetire', 'HandleDetach', 'SeqDtor', 'Cost', 'RetireUntil'],
                        theorems=['run_actions_list_script', 'run_actions_heap', 'run_actions_seq_script', 'run_actions_seq_heap',
                                  'notify_seq_script', 'notify_seq_heap', 'decommission_list_script', 'expectations_dtor_list_script',
                                  'kill_script_from_cxx', 'kill_heap_from_cxx', 'is_completed_on_heap',
                                  'handle_retire_script', 'handle_detach_script', 'seq_dtor_on_machine', 'cost_on_machine', 'retire_until_on_machine'],
                        cxx='which ring operations run_actions / lifetime_monitor::notify / decommission / ~expectations perform on the '
                            'mock-function lists and the sequence lists (read off their translations), composed with the heap refinement'),
    'Ring': dict(props=['C14'], gen=['RingUnlink', 'RingElemDtor', 'RingMoveAssign', 'RingPushFront', 'RingPushBack', 'RingBegin', 'RingEnd',
                                    'RingIterIncr', 'RingIsLinked', 'RingListDtor'],
                 theorems=['ring_unlink_tie', 'ring_elem_dtor_tie', 'ring_move_assign_tie', 'ring_push_front_tie', 'ring_push_back_tie',
                           'ring_begin_tie', 'ring_end_tie', 'ring_iter_incr_tie', 'ring_is_linked_tie', 'ring_list_dtor_tie',
                           'ring_list_dtor_whole'],
                 cxx='the intrusive ring: list_elem<T>::unlink / ~list_elem / operator=(list_elem&&) / is_linked, '
                     'list<T,Disposer>::push_front / push_back / begin / end / iterator::operator++ / ~list (mock.hpp)'),
}


def lean_workdir():
    """the Lean project that regenerated files are written into: /verif/lean itself, or a scratch copy (with its build
    products, so that the rebuild is incremental) when the check runs against a variant of the tree (VERIF_OUT set),
    so that the real project is never touched by a variant."""
    out = os.environ.get('VERIF_OUT')
    if not out:
        return LEAN_DIR
    import shutil
    dst = os.path.join(out, 'lean')
    if not os.path.exists(dst):
        shutil.copytree(LEAN_DIR, dst, symlinks=True)
    return dst


def tie_check(prop, lean_dir=None):
    """Regenerates Gen/Cxx/*.lean from REPO's current source and re-checks the tie theorems that serve `prop`.
    -> dict(modules, obligations, discharged, theorems=[(name, axioms)], broken=[(module, what)])"""
    import cxx2lean
    mods = [m for m in TIES if prop in TIES[m]['props']]
    res = dict(modules=mods, obligations=0, discharged=0, theorems=[], broken=[], index=[])
    if not mods:
        return res
    lean_dir = lean_dir or lean_workdir()
    cxx2lean.REPO = REPO
    index, failures = cxx2lean.generate(os.path.join(lean_dir, 'TrompModel', 'Gen'))
    gens = set()
    for m in mods:
        gens.update(TIES[m].get('gen', [m]))
    res['index'] = ['%s <- %s:%d' % (n, f, ln) for n, m, f, ln in index if m in gens]
    failed_mods = {}
    for name, mod, msg in failures:
        failed_mods[mod] = 'translator: ' + msg
    t0 = time.time()
    r = sh(['lake', 'build'] + ['TrompModel.Tie.' + m for m in mods], cwd=lean_dir)
    if r.returncode != 0:
        for m in mods:
            r1 = sh(['lake', 'build', 'TrompModel.Tie.' + m], cwd=lean_dir)
            if r1.returncode != 0 and m not in failed_mods:
                errs = re.findall(r'error: [^\n]*(?:\n(?!error:|warning:|✖|✔|ℹ|⚠)[^\n]*){0,12}', r1.stdout + r1.stderr)
                failed_mods[m] = 'lake build TrompModel.Tie.%s fails:\n%s' % (m, '\n'.join(errs[:3])[:3000])
    if time.time() - t0 > 5:
        log('[tie] lake build %.0fs' % (time.time() - t0))
    for m in mods:
        res['obligations'] += len(TIES[m]['theorems'])
        if m in failed_mods:
            res['broken'].append((m, 'the translation of %s no longer provably equals the model definition (theorems %s of '
                                     'lean/TrompModel/Tie/%s.lean)\n%s' % (TIES[m]['cxx'], ', '.join(TIES[m]['theorems']), m, failed_mods[m])))
    good = [m for m in mods if m not in failed_mods]
    if good:
        probe = os.path.join(lean_dir, '.lake', 'audit_tie_%s.lean' % prop)
        with open(probe, 'w') as fh:
            for m in good:
                fh.write('import TrompModel.Tie.%s\n' % m)
            for m in good:
                for t in TIES[m]['theorems']:
                    fh.write('#print axioms Tromp.Tie.%s\n' % t)
        r = sh(['lake', 'env', 'lean', probe], cwd=lean_dir)
        out = r.stdout + r.stderr
        for m in good:
            for t in TIES[m]['theorems']:
                full = 'Tromp.Tie.' + t
                mm = re.search(r"'%s' depends on axioms: \[(.*?)\]" % re.escape(full), out, flags=re.S)
                m0 = re.search(r"'%s' does not depend on any axioms" % re.escape(full), out)
                ax = [a.strip() for a in mm.group(1).replace('\n', ' ').split(',') if a.strip()] if mm else ([] if m0 else None)
                res['theorems'].append((full, ax))
                if ax is None or [a for a in ax if a not in ALLOWED_AXIOMS]:
                    res['broken'].append((m, 'axiom audit of %s: %s' % (full, ax)))
                else:
                    res['discharged'] += 1
        for root in (os.path.join(lean_dir, 'TrompModel', 'Tie'), os.path.join(lean_dir, 'TrompModel', 'Gen', 'Cxx')):
            for f in os.listdir(root):
                if f.endswith('.lean'):
                    mt = FORBIDDEN_TOKENS.search(strip_comments(open(os.path.join(root, f)).read()))
                    if mt:
                        res['broken'].append((f, 'forbidden token %r in %s' % (mt.group(0), f)))
    return res


def leanchecker(prop):
    """the toolchain's independent re-checker over the compiled property modules and the tie modules serving the property"""
    mods = list(prop_modules(prop)) + ['TrompModel.Tie.%s' % t for t, v in sorted(TIES.items()) if prop in v['props']]

    def one(mod):
        r = sh(['lake', 'env', 'leanchecker', mod], cwd=LEAN_DIR)
        return r.returncode == 0, '%s: %s' % (mod, (r.stdout + r.stderr)[-400:])
    import concurrent.futures as cf
    with cf.ThreadPoolExecutor(4) as ex:
        res = list(ex.map(one, mods))
    return all(o for o, _ in res), '\n'.join(t for o, t in res if not o) or 'ok: %d modules' % len(mods)


# ------------------------------------------------------------------------------------------
# running scripts

def _run_one_batch(args):
    exe, lines, env = args
    p = subprocess.run([exe] + ([env.get('TMODEL_MODE', 'world')] if exe.endswith('tmodel') else []), input='\n'.join(lines) + '\n',
                       stdout=subprocess.PIPE, stderr=subprocess.PIPE, universal_newlines=True, env=env)
    return p.returncode, p.stdout, p.stderr


def split_outputs(out, n):
    """split an output stream at the `reset` lines into n per-script outputs (missing ones are None)."""
    res = []
    cur = []
    for line in out.split('\n'):
        if line == 'reset':
            res.append(cur)
            cur = []
        elif line != '':
            cur.append(line)
    tail = cur
    while len(res) < n:
        res.append(None)
    return res[:n], tail


def run_scripts(exe, scripts, nbatch=None, timeout=None, mode='world'):
    """scripts: list of lists of lines.  Returns list of (lines | None, crashinfo | None)."""
    if not scripts:
        return []
    nbatch = nbatch or min(NPROC, max(1, len(scripts) // 50))
    size = (len(scripts) + nbatch - 1) // nbatch
    batches = [scripts[i:i + size] for i in range(0, len(scripts), size)]
    env = dict(os.environ)
    env['ASAN_OPTIONS'] = 'detect_leaks=1:abort_on_error=0:exitcode=97:detect_stack_use_after_return=1'
    env['UBSAN_OPTIONS'] = 'print_stacktrace=1:halt_on_error=1'
    env['TMODEL_MODE'] = mode
    results = []
    jobs = []
    for b in batches:
        lines = []
        for s in b:
            lines.extend(s)
            lines.append('reset')
        jobs.append((exe, lines, env))
    with cf.ThreadPoolExecutor(NPROC) as ex:
        outs = list(ex.map(_run_one_batch, jobs))
    for b, (rc, out, err) in zip(batches, outs):
        per, tail = split_outputs(out, len(b))
        crashed_at = None
        if rc != 0:
            crashed_at = sum(1 for x in per if x is not None)
        for i, o in enumerate(per):
            if o is None:
                if crashed_at is not None and i == crashed_at:
                    results.append((tail, 'exit %d: %s' % (rc, crash_summary(err))))
                else:
                    results.append((None, 'not-run (batch aborted)' if rc != 0 else 'missing-output'))
            else:
                results.append((o, None))
    return results


def run_scripts_robust(exe, scripts, mode='world'):
    """like run_scripts, but (a) a crash inside a batch is confirmed by running that script alone (an
    earlier script of the batch may have left process-wide state behind; the isolated run is what
    counts) and (b) scripts that were not reached because their batch aborted are re-run."""
    res = run_scripts(exe, scripts)
    isolated = set()
    for _ in range(40):
        crashed = [i for i, (o, c) in enumerate(res) if c and o is not None and i not in isolated]
        todo = [i for i, (o, c) in enumerate(res) if o is None]
        if not crashed and not todo:
            break
        if crashed:
            sub = run_scripts(exe, [scripts[i] for i in crashed], nbatch=len(crashed))
            for i, r in zip(crashed, sub):
                res[i] = r
                isolated.add(i)
        if todo:
            sub = run_scripts(exe, [scripts[i] for i in todo], nbatch=min(len(todo), NPROC * 4))
            for i, r in zip(todo, sub):
                res[i] = r
    return res


# ------------------------------------------------------------------------------------------
# projections: which part of the event stream a property constrains

def events(line):
    return [] if line == '-' else line.split(' ; ')


def _rep_fields(ev):
    # "report F r0 kind rest..."
    t = ev.split(' ', 4)
    return t[1], t[2], t[3], (t[4] if len(t) > 4 else '')


def proj_full(op, evs):
    return evs


def make_projection(keep):
    def p(op, evs):
        out = []
        for e in evs:
            k = keep(op, e)
            if k is not None:
                out.append(k)
        return out
    return p


def _k_c01(op, e):
    h = e.split(' ', 1)[0]
    if h in ('res', 'ans', 'fx', 'ret', 'logic_error', 'bad-op', 'no-shape', 'parse-error'):
        return e
    if h == 'report':
        sev, _, kind, _ = _rep_fields(e)
        return 'report %s %s' % (sev, kind) if op.startswith('call') else None
    return None


def _k_c02(op, e):
    h = e.split(' ', 1)[0]
    if h in ('res', 'fx', 'ret', 'ans', 'bad-op', 'no-shape', 'parse-error'):
        return e
    if h == 'ok':
        return None
    return None


def _k_c03(op, e):
    h = e.split(' ', 1)[0]
    if h in ('res', 'ans', 'logic_error', 'ret', 'bad-op', 'no-shape', 'parse-error'):
        return e
    if h == 'report' and op.startswith('call'):
        sev, _, kind, rest = _rep_fields(e)
        if kind == 'nomatch':
            m = re.search(r'sat=(\[[^\]]*\])', rest)
            return 'report %s nomatch %s' % (sev, m.group(1) if m else '')
        return 'report %s %s' % (sev, kind)
    return None


def _k_c04(op, e):
    h = e.split(' ', 1)[0]
    if h in ('bad-op', 'no-shape', 'parse-error'):
        return e
    if h == 'report':
        sev, _, kind, rest = _rep_fields(e)
        if kind in ('unfulfilled', 'pending'):
            return 'report %s %s %s' % (sev, kind, rest)
        if op.split(' ')[0] in ('release', 'kill', 'move'):
            return 'report %s %s' % (sev, kind)
    return None


def _k_c05(op, e):
    h = e.split(' ', 1)[0]
    if h in ('res', 'ret', 'fx', 'bad-op', 'no-shape', 'parse-error'):
        return e
    if h == 'ans' and op.split(' ')[0] in ('sat', 'satd', 'msat', 'msatd'):
        return e
    if h == 'report':
        sev, _, kind, rest = _rep_fields(e)
        if kind == 'seqmis':
            return 'report %s seqmis %s' % (sev, ' '.join(rest.split(' ')[:2]))
        if op.split(' ')[0] in ('call', 'killw'):
            return 'report %s %s' % (sev, kind)
    return None


def _k_c06(op, e):
    h = e.split(' ', 1)[0]
    if h in ('bad-op', 'no-shape', 'parse-error'):
        return e
    if h == 'ans' and op.startswith('completed'):
        return e
    if h == 'report':
        sev, _, kind, rest = _rep_fields(e)
        if kind == 'seqdead':
            return 'report %s seqdead %s' % (sev, rest)
        if op.startswith('killseq'):
            return 'report %s %s' % (sev, kind)
    return None


def _k_c07(op, e):
    h = e.split(' ', 1)[0]
    # 'ok': an OK report for a call that a FORBID_CALL catches is an effect the call must not have (seed C07-m7)
    if h in ('res', 'ans', 'fx', 'ret', 'ok', 'bad-op', 'no-shape', 'parse-error'):
        return e
    if h == 'report':
        sev, _, kind, rest = _rep_fields(e)
        if kind == 'forbidden':
            return 'report %s forbidden %s' % (sev, rest)
        return 'report %s %s' % (sev, kind)
    return None


def _k_c08(op, e):
    h = e.split(' ', 1)[0]
    if h in ('with', 'fx', 'ret', 'res', 'bad-op', 'no-shape', 'parse-error'):
        return e
    return None


def _k_c13(op, e):
    h = e.split(' ', 1)[0]
    if h in ('bad-op', 'no-shape', 'parse-error'):
        return e
    if h == 'ans' and op.split(' ')[0] in ('msat', 'msatd'):
        return e
    if h == 'report':
        sev, _, kind, rest = _rep_fields(e)
        if kind in ('stillalive', 'unexpected'):
            return 'report %s %s %s' % (sev, kind, rest)
        if kind == 'seqmis':
            return None                     # "sequence constraints aside": C05's business
        if op.split(' ')[0] in ('killw', 'releasemon', 'copyw', 'movew', 'assignw', 'monitor'):
            return 'report %s %s' % (sev, kind)
    return None


def _k_c15(op, e):
    h = e.split(' ', 1)[0]
    if h in ('bad-op', 'no-shape', 'parse-error'):
        return e
    if h == 'report':
        sev, _, kind, rest = _rep_fields(e)
        return 'report %s %s %s' % (sev, kind, rest)
    return None


def _k_c16(op, e):
    h = e.split(' ', 1)[0]
    if h in ('ok', 'was', 'okwas', 'bad-op', 'no-shape', 'parse-error'):
        return e
    if h == 'report':
        sev, r, kind, _ = _rep_fields(e)
        return 'report %s %s' % (r, kind)
    if h == 'res':
        return 'accepted' if not e.endswith(' rep') else 'rejected'
    return None


def _k_c17(op, e):
    h = e.split(' ', 1)[0]
    if h in ('bad-op', 'no-shape', 'parse-error'):
        return e
    if h == 'trace':
        return None if e.endswith(' rep') else e
    if h == 'res':
        return 'accepted' if not e.endswith(' rep') else 'rejected'
    return None


PROJECTIONS = {
    'C01': make_projection(_k_c01), 'C02': make_projection(_k_c02), 'C03': make_projection(_k_c03),
    'C04': make_projection(_k_c04), 'C05': make_projection(_k_c05), 'C06': make_projection(_k_c06),
    'C07': make_projection(_k_c07), 'C08': make_projection(_k_c08), 'C13': make_projection(_k_c13),
    'C14': proj_full, 'C15': make_projection(_k_c15), 'C16': make_projection(_k_c16),
    'C17': make_projection(_k_c17), 'full': proj_full,
}


def first_diff(proj, script, impl, model):
    """index of the first operation whose projected events differ, or None."""
    if impl is None:
        return 0
    for i, op in enumerate(script):
        if i >= len(model):
            return None
        if i >= len(impl):
            return i
        a = proj(op, events(impl[i]))
        b = proj(op, events(model[i]))
        if a != b:
            return i
    return None


# ------------------------------------------------------------------------------------------
# shrinking

def shrink(ops, fails, budget=400):
    """greedy delta-debugging over the op list; `fails(ops)` -> bool (must re-run both sides)."""
    import worldgen
    cur = list(ops)
    n = 2
    calls = 0
    while len(cur) >= 2 and calls < budget:
        chunk = max(1, len(cur) // n)
        reduced = False
        for i in range(0, len(cur), chunk):
            cand = cur[:i] + cur[i + chunk:]
            cand = drop_dangling(cand)
            if not cand or worldgen.render(cand) is None:
                continue
            calls += 1
            if fails(cand):
                cur = cand
                n = max(n - 1, 2)
                reduced = True
                break
            if calls >= budget:
                break
        if not reduced:
            if chunk == 1:
                break
            n = min(len(cur), n * 2)
    return cur


def drop_dangling(ops):
    """remove operations that refer to ids whose creating operation is no longer present."""
    import worldgen
    have = {k: set() for k in worldgen.KINDS}
    out = []
    for op in ops:
        ok = True
        for kind, field in worldgen.USES.get(op['op'], []):
            if kind == 'seq*':
                if any(s not in have['seq'] for s in op[field]):
                    ok = False
            elif op[field] not in have[kind]:
                ok = False
        if not ok:
            continue
        if op['op'] in worldgen.CREATES:
            kind, field = worldgen.CREATES[op['op']]
            have[kind].add(op[field])
        out.append(op)
    return out


# ------------------------------------------------------------------------------------------
# files

def write_replay(prop, tier, seed, name, header, body_lines):
    d = os.path.join(REPLAYS, prop)
    os.makedirs(d, exist_ok=True)
    path = os.path.join(d, '%s-%s.replay' % (seed, name))
    with open(path, 'w') as f:
        f.write('# property %s\n# tier %s\n# seed %s\n# repo-tree %s\n' % (prop, tier, seed, repo_hash()))
        for h in header:
            f.write('# %s\n' % h)
        for l in body_lines:
            f.write(l + '\n')
    return path


def write_evidence(prop, tier, seed, level, coverage, assumptions, wall, violations, extra=None):
    os.makedirs(EVIDENCE, exist_ok=True)
    ev = dict(property_id=prop, tier=tier, seed=int(seed), level=level, coverage=coverage,
              assumptions=assumptions, wall_s=round(wall, 2), violations=violations)
    if extra:
        ev.update(extra)
    with open(os.path.join(EVIDENCE, prop + '.json'), 'w') as f:
        json.dump(ev, f, indent=1, sort_keys=True)
        f.write('\n')


def crash_summary(err):
    m = re.search(r'SUMMARY: [^\n]*', err or '')
    if m:
        return m.group(0)
    m = re.search(r'runtime error: [^\n]*', err or '')
    if m:
        return m.group(0)
    return (err or '').strip().replace('\n', ' | ')[-400:]


def load_known():
    p = os.path.join(VERIF, 'known_findings.json')
    if not os.path.exists(p):
        return []
    return json.load(open(p))
