#!/usr/bin/env python3
"""usage: seed_prompt.py <Cnn> <tag>   — prints the brief given to an independent sub-agent that is asked for a
property-breaking change.  Creates the scratch worktree /tmp/seedwork_<Cnn>_<tag> (outside /repo and /verif).
The sub-agent sees only the property text, never anything from /verif."""
import json
import os
import subprocess
import sys

VERIF = os.path.dirname(os.path.dirname(os.path.abspath(__file__)))


def main():
    pid, tag = sys.argv[1], sys.argv[2]
    extra = sys.argv[3] if len(sys.argv) > 3 else ''
    prop = [json.loads(l) for l in open(os.path.join(VERIF, 'properties.jsonl')) if json.loads(l)['id'] == pid][0]
    wt = '/tmp/seedwork_%s_%s' % (pid, tag)
    out = '/tmp/seedsrc_%s_%s' % (pid, tag)
    subprocess.run('git -C /repo worktree remove --force %s; git -C /repo worktree add --detach %s HEAD' % (wt, wt),
                   shell=True, stdout=subprocess.DEVNULL, stderr=subprocess.DEVNULL)
    os.makedirs(out, exist_ok=True)
    print("""You are helping to evaluate how well a verification effort detects subtle regressions in the C++14 header-only mocking
library trompeloeil.  You have your own scratch git worktree of the library at {wt} (work ONLY there and in {out}; never touch
/repo or /verif and do not read anything under /verif).

The library is supposed to have this semantic property:

  TITLE: {title}

  STATEMENT: {statement}

  QUANTIFIED OVER: {quant}

Your job: write a small change to the library (files under {wt}/include/) that BREAKS this property, while
  (a) the library still compiles,
  (b) the library's existing test suite still passes completely with your change, and
  (c) a small demonstration program you write FAILS (non-zero exit) with your change and PASSES (exit 0) on the unmodified tree.

The change must be REALISTIC — the kind of slip a maintainer could make in a refactoring or an "optimisation" (an off-by-one, a
wrong comparison, a dropped or misplaced statement, a condition that is subtly too weak or too strong, two sites that each look fine
alone but interact) — and it must need SOMETHING SPECIFIC TO MANIFEST: a particular multi-step sequence of operations, an unusual
input or bound, a particular ordering of creation/destruction, a particular interleaving, a particular arity or position.  A change
that ordinary use would expose at once (e.g. every call fails) is not wanted, and neither is one that the existing tests catch.
{extra}
How to build and run the existing test suite in your worktree (takes a few minutes; please use -j6, other jobs share the machine):
  cmake -G Ninja -S {wt} -B {wt}/_build -DCMAKE_BUILD_TYPE=RelWithDebInfo -DCMAKE_CXX_FLAGS=-Wno-error -DTROMPELOEIL_BUILD_TESTS=ON
  cmake --build {wt}/_build -j6 --target self_test && {wt}/_build/test/self_test | tail -3
  (expect "All tests passed (1355 assertions in 601 test cases)"; Catch2 v3 is installed system-wide; there is no network.)
Your demonstration must build with:  g++ -std=c++17 -I{wt}/include demo.cpp -o demo   (add -pthread only if you need threads,
-std=c++20 only if the property is about coroutines; a sanitizer flag such as -fsanitize=address or -fsanitize=thread only if the
failure is a memory error or a data race; if you need anything beyond `-std=c++17`, write the complete list of extra/replacement
flags on one line into {out}/flags.txt, e.g. `-std=c++20` or `-pthread -fsanitize=thread -O1 -g`), must use only the public API of the library plus a
reporter it installs itself with trompeloeil::set_reporter, must print which check failed, and must return non-zero iff a check failed.

Deliver, in {out}/ :
  patch.diff  — `git -C {wt} diff` of your change (only files under include/)
  demo.cpp    — the demonstration
  notes.md    — 5-15 lines: what the change does, why the suite does not notice, exactly what is needed for it to manifest
Before you finish, verify (a), (b) and (c) yourself, including running the demo against a clean checkout (git stash or a second
include dir), and leave the worktree with your change applied.  Remove {wt}/_build when you are done.  Report back in a few lines:
what you changed and what it needs in order to manifest.""".format(
        wt=wt, out=out, title=prop['title'], statement=prop['statement'], quant=prop['quantifier']['text'], extra=extra))


if __name__ == '__main__':
    main()
