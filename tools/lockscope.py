#!/usr/bin/env python3
"""lockscope.py — the *lexical* lock coverage of /repo's current source, regenerated on every C12 check into
lean/TrompModel/Gen/LockScopes.lean.

For every function of the three core headers that takes the global lock (`auto lock = get_lock();`), every statement,
declaration-with-initialiser, loop/branch condition and return expression of the function body is listed with a flag:
is it lexically inside the scope of the lock variable (after its declaration, in the same or a nested block)?
`Props/C12.lean` proves over this table that everything outside a lock scope is on a short explicit list of statements that
touch nothing shared.  What the scan cannot see: implicit destructor calls at the end of a scope (member and base
destructors) — those are the dynamic checks' (TSan, hooked accesses) to find."""
import os
import re
import sys

HERE = os.path.dirname(os.path.abspath(__file__))
sys.path.insert(0, HERE)
import cxx2lean  # noqa: E402

FILES = ['include/trompeloeil/mock.hpp', 'include/trompeloeil/sequence.hpp', 'include/trompeloeil/lifetime.hpp']
LOCK_RE = re.compile(r'auto\s+lock\s*=\s*get_lock\s*\(\s*\)\s*;')
CONTROL = {'if', 'for', 'while', 'switch', 'catch'}


def match_open(src, close_idx):
    """index of the '(' or '{' matching the closer at close_idx"""
    opener = {')': '(', '}': '{'}[src[close_idx]]
    depth = 0
    i = close_idx
    while i >= 0:
        c = src[i]
        if c == src[close_idx]:
            depth += 1
        elif c == opener:
            depth -= 1
            if depth == 0:
                return i
        i -= 1
    return -1


def enclosing_open(src, pos):
    """index of the '{' of the innermost block containing pos"""
    depth = 0
    i = pos - 1
    while i >= 0:
        c = src[i]
        if c == '}':
            depth += 1
        elif c == '{':
            if depth == 0:
                return i
            depth -= 1
        i -= 1
    return -1


def is_control_block(src, open_idx):
    pre = src[:open_idx].rstrip()
    if re.search(r'\b(else|try|do)$', pre):
        return True
    if pre.endswith(')'):
        o = match_open(pre, len(pre) - 1)
        kw = re.search(r'(\w+)\s*$', pre[:o])
        if kw and kw.group(1) in CONTROL:
            return True
        if kw and kw.group(1) == 'constexpr' and re.search(r'\bif\s+constexpr\s*$', pre[:o]):
            return True
    return False


def function_body(src, pos):
    """(open, close) of the body of the function containing pos"""
    o = enclosing_open(src, pos)
    while o >= 0 and is_control_block(src, o):
        o = enclosing_open(src, o)
    if o < 0:
        return None
    depth = 0
    j = o
    while j < len(src):
        if src[j] == '{':
            depth += 1
        elif src[j] == '}':
            depth -= 1
            if depth == 0:
                return o, j
        j += 1
    return None


def header_of(src, open_idx):
    pre = src[:open_idx]
    k = max(pre.rfind(';'), pre.rfind('}'), pre.rfind('{'), pre.rfind('#'))
    h = re.sub(r'\s+', ' ', pre[k + 1:]).strip()
    h = re.sub(r'^(public|private|protected)\s*:\s*', '', h)
    h = re.sub(r'^(endif|else)\b.*?(?=\w+::|~|\w+\()', '', h)
    return h


def func_id(h):
    """the function's identifier, from the text in front of its body"""
    # cut a constructor's member-initialiser list
    d = 0
    for k, c in enumerate(h):
        if c in '(<':
            d += 1
        elif c in ')>':
            d -= 1
        elif c == ':' and d == 0 and h[k - 1:k + 2] not in ('::',) and h[k + 1:k + 2] != ':' and h[k - 1:k] != ':':
            h = h[:k]
            break
    h = h.rstrip()
    h = re.sub(r'(\s*(const|noexcept|override|TROMPELOEIL_TRAILING_RETURN_TYPE\([^)]*(\([^)]*\))*[^)]*\)))+$', '', h).rstrip()
    if not h.endswith(')'):
        return canon(h)[-40:]
    o = match_open(h, len(h) - 1)
    m = re.search(r'(~?[A-Za-z_]\w*(?:<[^>]*>)?(?:::~?[A-Za-z_]\w*)*)\s*$', h[:o])
    return m.group(1) if m else canon(h)[-40:]


def canon(text):
    return re.sub(r'\s+', ' ', text).strip()


def canon_expr(text):
    """the text of a condition in one spelling: `x == false` / `!x`, `p == nullptr` / `!p`, a literal on the left of a
    comparison moved to the right (the respellings of tools/cxx2lean.py, §21) — so that a harmless respelling of a condition does
    not change the table.  Text the expression parser does not read is kept as it is."""
    try:
        toks = cxx2lean.tokenize(text)
        p = cxx2lean.Parser(toks)
        e = p.expr()
        if p.peek()[0] != 'eof':
            return text
    except Exception:
        return text

    def norm(e):
        if not isinstance(e, tuple):
            return e
        if e and e[0] in ('num', 'str', 'chr', 'id'):
            return e
        e = tuple(norm(x) if isinstance(x, tuple) else ([norm(y) for y in x] if isinstance(x, list) else x) for x in e)
        e = cxx2lean.canon_bool(e)
        if e[0] == 'bin' and e[1] in ('==', '!='):
            l, r = e[2], e[3]
            if cxx2lean.is_literal(l) and not cxx2lean.is_literal(r):
                l, r = r, l
            if r == ('id', 'nullptr'):
                return ('un', '!', l) if e[1] == '==' else l
            return ('bin', e[1], l, r)
        return e
    try:
        return cxx2lean.cs(norm(e))
    except Exception:
        return text


def scan(body):
    """-> [(text, guarded)] for the statements / conditions of a function body (without its outer braces)"""
    out = []
    i = 0
    n = len(body)
    depth = 0
    lock_depth = None          # block depth at which the lock variable was declared
    cur = ''
    paren = 0

    def guarded():
        return lock_depth is not None and depth >= lock_depth

    while i < n:
        c = body[i]
        if c in '"\'':
            j = i + 1
            while body[j] != c:
                j += 2 if body[j] == '\\' else 1
            cur += body[i:j + 1]
            i = j + 1
            continue
        if c == '(':
            paren += 1
        elif c == ')':
            paren -= 1
        if paren == 0 and c in ';{}':
            t = canon(cur)
            cur = ''
            m = re.match(r'^(if|while|for|switch)\b\s*(constexpr\s*)?\((.*)\)$', t)
            if c == '{' and m:
                out.append(('%s (%s)' % (m.group(1), canon_expr(canon(m.group(3))) if m.group(1) in ('if', 'while') else canon(m.group(3))), guarded()))
            elif c == '{' and t and not re.match(r'^(else|try|do)$', t) and not t.startswith('catch'):
                # `if (c) stmt;` forms are handled below; anything else before '{' is an initialiser list or lambda: keep the text
                cur = t + ' {'
                depth += 1
                i += 1
                # brace-initialisers / lambdas inside an expression: copy through to the matching brace
                d = 1
                while i < n and d > 0:
                    if body[i] == '{':
                        d += 1
                    elif body[i] == '}':
                        d -= 1
                    cur += body[i]
                    i += 1
                depth -= 1
                continue
            elif t:
                m2 = re.match(r'^(if|while)\b\s*\((.*?)\)\s*(.+)$', t)
                if c == ';' and m2 and t.count('(') == t.count(')'):
                    # single-statement form: find the condition by balanced parentheses
                    k = t.index('(')
                    d = 0
                    for q in range(k, len(t)):
                        if t[q] == '(':
                            d += 1
                        elif t[q] == ')':
                            d -= 1
                            if d == 0:
                                break
                    out.append(('%s (%s)' % (m2.group(1), canon_expr(canon(t[k + 1:q]))), guarded()))
                    rest = canon(t[q + 1:])
                    if rest:
                        out.append((rest, guarded()))
                elif not re.match(r'^(else|try|do)$', t):
                    out.append((t, guarded()))
                    if LOCK_RE.match(t + ';'):
                        lock_depth = depth
            if c == '{':
                depth += 1
            elif c == '}':
                depth -= 1
                if lock_depth is not None and depth < lock_depth:
                    lock_depth = None
            i += 1
            continue
        cur += c
        i += 1
    return out


def tables(repo):
    res = []
    for f in FILES:
        raw = open(os.path.join(repo, f)).read()
        src = cxx2lean.strip_comments_keep_lines(raw)
        src = re.sub(r'(?m)^[ \t]*#[^\n]*$', lambda m: ' ' * len(m.group(0)), src)          # preprocessor lines
        seen = set()
        for m in LOCK_RE.finditer(src):
            fb = function_body(src, m.start())
            if not fb or fb in seen:
                continue
            seen.add(fb)
            o, c = fb
            line = src.count('\n', 0, o) + 1
            key = func_id(header_of(src, o))
            site = '%s:%d' % (os.path.basename(f), line)
            # static_assert declarations have no run-time effect: not listed
            res.append((key, site, [(t, g) for t, g in scan(src[o + 1:c]) if not t.startswith('static_assert(')]))
    return res


# the virtual queries of `expectation` (what a user calls on a NAMED_ handle) are the ones marked `override`; the like-named
# members of sequence_handler_base are internal and only reached from callers that hold the lock
QUERY_RE = re.compile(r'\bbool\s+(is_satisfied|is_saturated)\s*\(\s*\)\s*const\s*(?:noexcept\s*)?override\s*\{')


def lock_free_reads(repo):
    """the state queries a user may call while other threads use the library (is_satisfied / is_saturated / is_completed) that do
    NOT take the lock: -> [(function, site, identifier read, declared type of that identifier in the same file)].
    Queries that only forward to another query (`return matcher->is_satisfied()`) read no data member themselves."""
    res = []
    for f in FILES:
        raw = open(os.path.join(repo, f)).read()
        src = cxx2lean.strip_comments_keep_lines(raw)
        for m in QUERY_RE.finditer(src):
            o = m.end() - 1
            depth, j = 0, o
            while j < len(src):
                if src[j] == '{':
                    depth += 1
                elif src[j] == '}':
                    depth -= 1
                    if depth == 0:
                        break
                j += 1
            body = src[o + 1:j]
            if LOCK_RE.search(body):
                continue
            line = src.count('\n', 0, m.start()) + 1
            site = '%s:%d' % (os.path.basename(f), line)
            # enclosing class: the nearest `struct X` / `class X` in front
            cls = re.findall(r'\b(?:struct|class)\s+(\w+)[^;{]*\{', src[:m.start()])
            name = '%s::%s' % (cls[-1] if cls else '?', m.group(1))
            stmts = [canon(t) for t in body.split(';') if canon(t)]
            for st in stmts:
                mm = re.match(r'^return\s+(.*)$', st)
                expr = mm.group(1) if mm else st
                if re.search(r'->\s*is_(satisfied|saturated|completed)\s*\(', expr) or re.search(r'\.\s*is_(satisfied|saturated|completed)\s*\(', expr):
                    continue                                  # forwards to another query
                for ident in sorted(set(re.findall(r'\b[A-Za-z_]\w*\b', expr)) - {'return', 'true', 'false', 'this', 'nullptr'}):
                    d = re.search(r'(?m)^[ \t]*(?!return\b)((?:mutable\s+)?[\w:]+(?:<[^;{}()]*>)?(?:\s*[*&])?)\s+%s\s*(?:\{[^}]*\}|=[^;]*)?;' % re.escape(ident), src)
                    res.append((name, site, ident, canon(d.group(1)) if d else '?'))
    return res


def lock_sources(repo):
    """every definition of get_lock(): (site, the mutex it declares is a function-local static, the lock it returns is taken on
    that very object).  One mutex per process is what makes the lexical lock scopes exclude one another."""
    rel = 'include/trompeloeil/mock.hpp'
    raw = open(os.path.join(repo, rel)).read()
    src = re.sub(r'//[^\n]*', lambda m: ' ' * len(m.group(0)), re.sub(r'/\*.*?\*/', lambda m: re.sub(r'[^\n]', ' ', m.group(0)), raw, flags=re.S))
    res = []
    for m in re.finditer(r'\bget_lock\s*\(\s*\)\s*\{', src):
        d, j = 0, m.end() - 1
        while j < len(src):
            if src[j] == '{':
                d += 1
            elif src[j] == '}':
                d -= 1
                if d == 0:
                    break
            j += 1
        body = re.sub(r'\s+', ' ', src[m.end():j])
        site = 'mock.hpp:%d' % (src.count('\n', 0, m.start()) + 1)
        decl = re.search(r'\bstatic\s+(?:auto|std::unique_ptr<[\w:]+>)\s+(\w+)\s*=', body)
        name = decl.group(1) if decl else ''
        ret = re.search(r'return\s+unique_lock<[\w:]+>\s*\{\s*\*\s*(\w+)\s*\}\s*;', body)
        res.append((site, bool(decl), bool(ret) and ret.group(1) == name and name != ''))
    return res


def lean_str(s):
    return '"' + s.replace('\\', '\\\\').replace('"', '\\"') + '"'


def generate(repo, path):
    tabs = tables(repo)
    lines = ['/- GENERATED by tools/lockscope.py from /repo on every C12 check — do not edit. -/', 'namespace Tromp.Gen',
             '/-- per function that takes the global lock: name, site, (statement / condition, lexically inside the lock\'s scope?) -/',
             'def lockScopes : List (String × String × List (String × Bool)) := [']
    ents = []
    for key, site, sts in tabs:
        body = ',\n'.join('    (%s, %s)' % (lean_str(t), 'true' if g else 'false') for t, g in sts)
        ents.append('  (%s, %s, [\n%s])' % (lean_str(key), lean_str(site), body))
    lines.append(',\n'.join(ents))
    lines += [']', '']
    reads = lock_free_reads(repo)
    lines += ['/-- the state queries that do NOT take the lock: (function, site, data member read, declared type of that member) -/',
              'def lockFreeReads : List (String × String × String × String) := [',
              ',\n'.join('  (%s, %s, %s, %s)' % tuple(lean_str(x) for x in r) for r in reads), ']']
    early = [(key, site, t) for key, site, sts in tabs for t, g in sts
             if re.search(r'\block\s*\.\s*(unlock|release|swap)\s*\(', t) or re.search(r'std::move\(\s*lock\s*\)', t)
             or re.search(r'^lock\s*=', t)]
    lines += ['', '/-- statements of lock-taking functions that give the lock up before the end of its scope (unlock / release / swap / move) -/',
              'def earlyUnlocks : List (String × String × String) := [',
              ',\n'.join('  (%s, %s, %s)' % (lean_str(a), lean_str(b), lean_str(c)) for a, b, c in early), ']']
    srcs = lock_sources(repo)
    lines += ['', '/-- every definition of get_lock(): (site, its mutex is a function-local static, the returned lock is taken on that mutex) -/',
              'def lockSources : List (String × Bool × Bool) := [',
              ',\n'.join('  (%s, %s, %s)' % (lean_str(a), 'true' if b else 'false', 'true' if c else 'false') for a, b, c in srcs), ']']
    lines += ['end Tromp.Gen', '']
    new = '\n'.join(lines)
    old = open(path).read() if os.path.exists(path) else None
    if old != new:
        with open(path, 'w') as fh:
            fh.write(new)
    return tabs


if __name__ == '__main__':
    repo = os.environ.get('VERIF_REPO', '/repo')
    for key, site, sts in tables(repo):
        print(key, '@' + site)
        for t, g in sts:
            print('   %s %s' % ('L' if g else '-', t))
