#!/usr/bin/env python3
"""usage: seed_confirm.py <seed-id> <property> <dir with patch.diff demo.cpp notes.md> [checks...]
Confirms a seeded change independently (scratch worktree outside /repo and /verif): the patch applies and
the suite still passes with it, the demonstration passes on the clean tree and fails with the patch; then
runs the listed checks of /verif against /repo with the patch applied (and undoes it).  Writes
/verif/seeded/<seed-id>/{patch.diff,demo.cpp,notes.md,meta.json}."""
import json
import os
import shutil
import subprocess
import sys
import time

VERIF = os.path.dirname(os.path.dirname(os.path.abspath(__file__)))


def sh(cmd, **kw):
    return subprocess.run(cmd, shell=True, stdout=subprocess.PIPE, stderr=subprocess.STDOUT, universal_newlines=True, **kw)


def main():
    sid, prop, src = sys.argv[1], sys.argv[2], sys.argv[3]
    checks = sys.argv[4:] or [prop]
    out = os.path.join(VERIF, 'seeded', sid)
    os.makedirs(out, exist_ok=True)
    for f in ('patch.diff', 'demo.cpp', 'notes.md', 'flags.txt'):
        if os.path.exists(os.path.join(src, f)) and os.path.abspath(src) != os.path.abspath(out):
            shutil.copy(os.path.join(src, f), os.path.join(out, f))
    flags = '-std=c++17'
    if os.path.exists(os.path.join(out, 'flags.txt')):
        fl = open(os.path.join(out, 'flags.txt')).read().strip()
        flags = fl if '-std=' in fl else '-std=c++17 ' + fl
    meta = dict(id=sid, demo_flags=flags, property=prop, source='independent sub-agent given only the property text and a scratch worktree')
    wt = '/tmp/seedwt_%s' % sid
    recheck = os.environ.get('RECHECK') == '1'       # only re-run our checks against the stored patch
    if recheck:
        meta = json.load(open(os.path.join(out, 'meta.json')))
    sh('git -C /repo worktree remove --force %s' % wt)
    r = sh('git -C /repo worktree add --detach %s HEAD' % wt)
    try:
      if not recheck:
          # demo on the clean tree
          r = sh('g++ %s -I%s/include %s/demo.cpp -o %s/demo_clean && %s/demo_clean' % (flags, wt, out, wt, wt), timeout=600)
          meta['demo_clean_exit'] = r.returncode
          r = sh('git -C %s apply %s/patch.diff' % (wt, out))
          meta['patch_applies'] = r.returncode == 0
          r = sh('g++ %s -I%s/include %s/demo.cpp -o %s/demo_mut && %s/demo_mut' % (flags, wt, out, wt, wt), timeout=600)
          meta['demo_mutated_exit'] = r.returncode
          meta['demo_mutated_tail'] = r.stdout[-400:]
          if os.environ.get('SKIP_SUITE') != '1':
              t0 = time.time()
              r = sh('cmake -G Ninja -S %s -B %s/_build -DCMAKE_BUILD_TYPE=RelWithDebInfo -DCMAKE_CXX_FLAGS=-Wno-error '
                     '-DTROMPELOEIL_BUILD_TESTS=ON >/dev/null 2>&1 && cmake --build %s/_build -j%s >/dev/null 2>&1; %s/_build/test/self_test | tail -2'
                     % (wt, wt, wt, os.environ.get('JOBS', '8'), wt), timeout=3000)
              meta['suite_with_patch'] = r.stdout.strip()[-200:]
              meta['suite_passes'] = 'All tests passed' in r.stdout
              meta['suite_wall_s'] = round(time.time() - t0)
    finally:
        sh('git -C /repo worktree remove --force %s' % wt)
    # our checks against a scratch copy of the tree with the patch applied (VERIF_REPO), evidence and
    # replays redirected (VERIF_OUT) so that nothing of the real tree's results is overwritten
    results = {}
    wt2 = '/tmp/seedrepo_%s' % sid
    outdir = '/tmp/seedout_%s' % sid
    sh('git -C /repo worktree remove --force %s' % wt2)
    shutil.rmtree(outdir, ignore_errors=True)
    sh('git -C /repo worktree add --detach %s HEAD' % wt2)
    r = sh('git -C %s apply %s/patch.diff' % (wt2, out))
    if r.returncode != 0:
        sh('git -C /repo worktree remove --force %s' % wt2)
        print('PATCH DOES NOT APPLY to the current tree: %s\n%s' % (sid, r.stdout))
        return 3
    try:
        for c in checks:
            t0 = time.time()
            r = sh('cd %s && VERIF_SKIP_LEAN=1 VERIF_REPO=%s VERIF_OUT=%s python3 tools/check.py %s --tier quick' % (VERIF, wt2, outdir, c), timeout=3600)
            viol = [l for l in r.stdout.split('\n') if l.startswith('VIOLATION')]
            results[c] = dict(exit=r.returncode, violations=[v.replace(outdir, '<out>') for v in viol[:3]], wall_s=round(time.time() - t0))
            for v in viol[:1]:
                p = v.split('replay=')[1].split()[0]
                if os.path.exists(p):
                    shutil.copy(p, os.path.join(out, 'replay_%s.txt' % c))
    finally:
        sh('git -C /repo worktree remove --force %s' % wt2)
        shutil.rmtree(outdir, ignore_errors=True)
    if recheck:
        old = meta.get('checks', {})
        old.update(results)
        results = old
    meta['checks'] = results
    meta['detected_by'] = [c for c, v in results.items() if v['exit'] != 0]
    json.dump(meta, open(os.path.join(out, 'meta.json'), 'w'), indent=1)
    print(json.dumps(meta, indent=1))
    return 0


if __name__ == '__main__':
    sys.exit(main())
