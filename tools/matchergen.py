#!/usr/bin/env python3
"""Generator of matcher expressions (C10): each tree is emitted as C++ (evaluated by the real
library over a whole value domain) and as model input lines in the same order."""
import re as pyre

INT_DOM = [-2, -1, 0, 1, 2, 3]
STR_DOM = ['', 'a', 'ab', 'b']
CSTR_DOM = [None, '', 'a', 'ab', 'b']
S_DOM = [(a, b) for a in range(3) for b in range(3)]
PATTERNS = [('a', False), ('^a', False), ('b$', False), ('a.', False), ('[ab]b', False), ('a|b', False), ('^$', False),
            ('ab*', False), ('A', True), ('A', False), ('^B', True), ('x', False),
            # match flags (the two-argument and the three-argument form of re()): they reach std::regex_search for every
            # kind of string argument (seeded change C10-m8 dropped them for C strings)
            ('^a', 'nb'), ('b$', 'ne'), ('^a$', 'nb'), ('^a$', 'ne'), ('b', 'mc'), ('a|b', 'mc'), ('^A', 'i+nb'), ('B$', 'i+ne'), ('a', 'nb'),
            ('^$', 'nb'), ('^$', 'ne'), ('b*', False), ('x*', False)]
MATCH_FLAG = {'nb': 'match_not_bol', 'ne': 'match_not_eol', 'mc': 'match_continuous'}


def re_cpp(pat, flags):
    """the C++ spelling of re(pattern [, syntax flags] [, match flags])"""
    esc = pat.replace('\\', '\\\\')
    flags = 'i' if flags is True else (flags or '')
    args = ['"%s"' % esc]
    for f in flags.split('+'):
        if f == 'i':
            args.append('std::regex_constants::icase')
        elif f:
            args.append('std::regex_constants::' + MATCH_FLAG[f])
    return 'trompeloeil::re(%s)' % ', '.join(args)


def re_oracle(pat, flags, val):
    """std::regex_search(val, regex(pat, syntax), match flags) on the pattern subset of PATTERNS (no escapes, no
    anchors inside classes): match_not_bol / match_not_eol make `^` / `$` match nowhere (ECMAScript, no multiline),
    match_continuous anchors the match at the first position"""
    flags = 'i' if flags is True else (flags or '')
    fl = flags.split('+')
    if 'nb' in fl:
        pat = pat.replace('^', '(?!)')
    if 'ne' in fl:
        pat = pat.replace('$', '(?!)')
    rx = pyre.compile(pat, pyre.I if 'i' in fl else 0)
    return bool(rx.match(val) if 'mc' in fl else rx.search(val))

CMPS = ['eq', 'ne', 'lt', 'le', 'gt', 'ge']


class Tree:
    def __init__(self, cpp, toks, pats=None):
        self.cpp = cpp
        self.toks = toks
        self.pats = pats or []


class G:
    def __init__(self, rng):
        self.r = rng
        self.pats = []

    # ---- int-valued matchers (also usable on long)
    def int_leaf(self, allow_plain):
        r = self.r
        q = r.random()
        v = r.choice(INT_DOM)
        if q < 0.2 and allow_plain:
            return str(v), ['val', 'i:%d' % v]
        op = r.choice(CMPS)
        if q > 0.85:
            # an operand of another arithmetic type whose value the parameter type cannot hold: k + 0.5 against an int / long
            # argument.  `x op (k + 0.5)` is compared as double — exactly; over the integers it is the comparison on the right
            k = r.choice(INT_DOM)
            same = {'lt': ['le', 'i:%d' % k], 'le': ['le', 'i:%d' % k], 'gt': ['gt', 'i:%d' % k], 'ge': ['gt', 'i:%d' % k],
                    'eq': ['not', 'any'], 'ne': ['any']}[op]
            return 'trompeloeil::%s(%d.5)' % (op, k) if k >= 0 else 'trompeloeil::%s(%d.5)' % (op, k + 1) if k + 1 < 0 else 'trompeloeil::%s(-0.5)' % op, same
        typed = r.random() < 0.3
        return 'trompeloeil::%s%s(%d)' % (op, '<int>' if typed else '', v), [op, 'i:%d' % v]

    def int_m(self, depth, allow_plain=False):
        r = self.r
        if depth <= 0 or r.random() < 0.35:
            return self.int_leaf(allow_plain)
        q = r.random()
        if q < 0.3:
            c, t = self.int_m(depth - 1, False)
            return '!' + self.paren(c), ['not'] + t
        comb = r.choice(['any_of', 'all_of', 'none_of'])
        n = r.choice([1, 2, 2, 3])
        parts = [self.int_m(depth - 1, True) for _ in range(n)]
        return 'trompeloeil::%s(%s)' % (comb, ', '.join(p[0] for p in parts)), \
            [comb.replace('_', ''), str(n)] + sum((p[1] for p in parts), [])

    @staticmethod
    def paren(c):
        return c if c.startswith('trompeloeil::') and not c.startswith('trompeloeil::_') or c.startswith('(') else '(' + c + ')'

    # ---- std::string
    def str_leaf(self, allow_plain):
        r = self.r
        q = r.random()
        if q < 0.35:
            return self.re_leaf()
        v = r.choice(STR_DOM)
        if q < 0.45 and allow_plain:
            return 'std::string("%s")' % v, ['val', 's:' + v]
        op = r.choice(CMPS)
        return 'trompeloeil::%s(std::string("%s"))' % (op, v), [op, 's:' + v]

    def re_leaf(self):
        r = self.r
        pat, icase = r.choice(PATTERNS)
        k = len(self.pats)
        self.pats.append((pat, icase))
        return re_cpp(pat, icase), ['re', str(k)]

    def comb(self, leaf, depth):
        r = self.r
        if depth <= 0 or r.random() < 0.4:
            return leaf(False)
        q = r.random()
        if q < 0.3:
            c, t = self.comb(leaf, depth - 1)
            return '!' + self.paren(c), ['not'] + t
        comb = r.choice(['any_of', 'all_of', 'none_of'])
        n = r.choice([1, 2, 2, 3])
        parts = [self.comb(leaf, depth - 1) if r.random() < 0.7 else leaf(True) for _ in range(n)]
        return 'trompeloeil::%s(%s)' % (comb, ', '.join(p[0] for p in parts)), \
            [comb.replace('_', ''), str(n)] + sum((p[1] for p in parts), [])

    # ---- const char*
    def cstr_leaf(self, allow_plain):
        r = self.r
        q = r.random()
        if allow_plain and q < 0.4:
            return 'nullptr', ['val', 'cnull']           # a plain nullptr operand: accepts exactly the null argument
        if q < 0.6:
            return self.re_leaf()
        op = r.choice(['eq', 'ne'])
        return 'trompeloeil::%s(nullptr)' % op, [op, 'cnull']

    # ---- pointers to int
    def ptr_leaf(self, allow_plain):
        r = self.r
        q = r.random()
        if allow_plain and q < 0.4:
            return 'nullptr', ['val', 'pnull']
        if q < 0.6:
            c, t = self.int_m(2, False)
            if t[0] == 'any':
                c, t = 'trompeloeil::eq(1)', ['eq', 'i:1']
            return '*' + self.paren(c), ['deref'] + t
        op = r.choice(['eq', 'ne'])
        return 'trompeloeil::%s(nullptr)' % op, [op, 'pnull']

    # ---- struct S
    def s_leaf(self, allow_plain):
        r = self.r
        f = r.choice([0, 1])
        c, t = self.int_m(2, True)
        return 'MEMBER_IS(&hm::S::%s, %s)' % ('ab'[f], c), ['member', str(f)] + t

    def tree(self, ty):
        self.pats = []
        if ty in ('int', 'long'):
            c, t = self.int_m(3, True)
        elif ty in ('str', 'sv'):
            c, t = self.comb(self.str_leaf, 3) if self.r.random() < 0.85 else self.str_leaf(True)
        elif ty == 'cstr':
            c, t = self.comb(self.cstr_leaf, 2)
        elif ty.startswith('ptr'):
            c, t = self.comb(self.ptr_leaf, 2)
        else:
            c, t = self.comb(self.s_leaf, 2)
        return Tree(c, t, list(self.pats))


def value_tokens(ty):
    if ty in ('int', 'long'):
        return ['i:%d' % v for v in INT_DOM], INT_DOM
    if ty in ('str', 'sv'):
        return ['s:' + v for v in STR_DOM], STR_DOM
    if ty == 'cstr':
        return ['cnull' if v is None else 'c:' + v for v in CSTR_DOM], CSTR_DOM
    if ty.startswith('ptr'):
        return ['pnull'] + ['p:%d' % v for v in INT_DOM], [None] + INT_DOM
    return ['S:%d,%d' % v for v in S_DOM], S_DOM


def oracle(pats, val):
    out = []
    for pat, icase in pats:
        if val is None:
            out.append('0')
        else:
            out.append('1' if re_oracle(pat, icase, val) else '0')
    return out


CORPUS = [
    ('ptr_raw', '*!trompeloeil::eq(1)', ['deref', 'not', 'eq', 'i:1'], []),
    ('ptr_unique', '!*trompeloeil::eq(1)', ['not', 'deref', 'eq', 'i:1'], []),
    ('int', 'trompeloeil::all_of(trompeloeil::gt(-2), trompeloeil::lt(3), trompeloeil::ne(0))',
     ['allof', '3', 'gt', 'i:-2', 'lt', 'i:3', 'ne', 'i:0'], []),
    ('int', 'trompeloeil::none_of(1, 2)', ['noneof', '2', 'val', 'i:1', 'val', 'i:2'], []),
    ('int', 'trompeloeil::any_of(trompeloeil::eq(1), !trompeloeil::lt(0))', ['anyof', '2', 'eq', 'i:1', 'not', 'lt', 'i:0'], []),
    ('cstr', 'trompeloeil::re("^a")', ['re', '0'], [('^a', False)]),
    ('cstr', '!trompeloeil::re("A", std::regex_constants::icase)', ['not', 're', '0'], [('A', True)]),
    ('str', 'trompeloeil::re("b$")', ['re', '0'], [('b$', False)]),
    ('S', 'trompeloeil::all_of(MEMBER_IS(&hm::S::a, trompeloeil::gt(0)), MEMBER_IS(&hm::S::b, 2))',
     ['allof', '2', 'member', '0', 'gt', 'i:0', 'member', '1', 'val', 'i:2'], []),
    ('int', '3', ['val', 'i:3'], []),
    ('int', 'trompeloeil::_', ['any'], []),
    ('str', 'trompeloeil::_', ['any'], []),
    ('ptr_raw', 'trompeloeil::_', ['any'], []),
    ('int', 'ANY(int)', ['any'], []),
    ('cstr', 'ANY(char const*)', ['any'], []),
    ('ptr_shared', 'trompeloeil::any_of(*trompeloeil::gt(1), trompeloeil::eq(nullptr))',
     ['anyof', '2', 'deref', 'gt', 'i:1', 'eq', 'pnull'], []),
    # plain nullptr as an operand / as the expected value (seeded change C10-m5)
    ('ptr_raw', 'trompeloeil::any_of(nullptr, *trompeloeil::eq(3))', ['anyof', '2', 'val', 'pnull', 'deref', 'eq', 'i:3'], []),
    ('ptr_unique', 'trompeloeil::none_of(nullptr, *trompeloeil::lt(0))', ['noneof', '2', 'val', 'pnull', 'deref', 'lt', 'i:0'], []),
    ('ptr_shared', 'trompeloeil::all_of(nullptr)', ['allof', '1', 'val', 'pnull'], []),
    ('cstr', 'trompeloeil::any_of(nullptr, trompeloeil::re("^a"))', ['anyof', '2', 'val', 'cnull', 're', '0'], [('^a', False)]),
    ('sv', 'trompeloeil::re("b$")', ['re', '0'], [('b$', False)]),
    ('sv', 'trompeloeil::re("^a$")', ['re', '0'], [('^a$', False)]),
    ('sv', '!trompeloeil::re("ba")', ['not', 're', '0'], [('ba', False)]),
    ('ptr_raw', 'nullptr', ['val', 'pnull'], []),
    ('cstr', 'nullptr', ['val', 'cnull'], []),
    # a null C string is not the empty string: patterns that are found in "" (seeded change C10-m10)
    ('cstr', re_cpp('^$', ''), ['re', '0'], [('^$', '')]),
    ('cstr', '!' + re_cpp('b*', ''), ['not', 're', '0'], [('b*', '')]),
    ('cstr', 'trompeloeil::all_of(trompeloeil::_, ' + re_cpp('x*', '') + ')', ['allof', '2', 'any', 're', '0'], [('x*', '')]),
    ('str', re_cpp('^$', ''), ['re', '0'], [('^$', '')]),
    # match flags on every kind of string argument (seeded change C10-m8)
    ('cstr', re_cpp('^a', 'nb'), ['re', '0'], [('^a', 'nb')]),
    ('cstr', re_cpp('b$', 'ne'), ['re', '0'], [('b$', 'ne')]),
    ('cstr', '!' + re_cpp('b', 'mc'), ['not', 're', '0'], [('b', 'mc')]),
    ('cstr', re_cpp('^A', 'i+nb'), ['re', '0'], [('^A', 'i+nb')]),
    ('str', re_cpp('^a', 'nb'), ['re', '0'], [('^a', 'nb')]),
    ('str', re_cpp('b$', 'ne'), ['re', '0'], [('b$', 'ne')]),
    ('sv', re_cpp('b', 'mc'), ['re', '0'], [('b', 'mc')]),
    ('sv', re_cpp('B$', 'i+ne'), ['re', '0'], [('B$', 'i+ne')]),
]

TYPES = ['int', 'int', 'int', 'long', 'str', 'str', 'sv', 'cstr', 'ptr_raw', 'ptr_unique', 'ptr_shared', 'S']


def reuse_ok(cpp):
    return cpp.startswith('trompeloeil::') and not cpp.startswith('trompeloeil::_') or cpp.startswith('!') or cpp.startswith('*') \
        or cpp.startswith('MEMBER_IS')


LINE2CPP = {}      # model input line -> the C++ expression it stands for (for replays)


def generate(rng, ntrees, ntu=8, drop=frozenset()):
    """-> (files: {name: source}, lines: [model input lines in evaluation order], trees, blocks)
    blocks: {(tu, first line, last line): (block id, C++ text)} — `drop` lists block ids to leave out (expressions
    that no longer compile against the tree under test; the caller reports them)."""
    g = G(rng)
    trees = [(ty, Tree(c, t, p)) for ty, c, t, p in CORPUS]
    for i in range(ntrees):
        ty = TYPES[i % len(TYPES)]
        trees.append((ty, g.tree(ty)))
    lines = []
    blocks = {}
    per_tu = [[] for _ in range(ntu)]
    # evaluation order = TU by TU, tree by tree, value by value
    for i, (ty, tr) in enumerate(trees):
        per_tu[i % ntu].append((ty, tr))
    files = {}
    for t in range(ntu):
        src = ['// generated by tools/matchergen.py — do not edit', '#include "hm.hpp"', 'namespace hm {',
               'void trees_%d() {' % t]
        for bi, (ty, tr) in enumerate(per_tu[t]):
            run = {'int': 'run_int', 'long': 'run_long', 'str': 'run_str', 'sv': 'run_sv', 'cstr': 'run_cstr', 'ptr_raw': 'run_ptr_raw',
                   'ptr_unique': 'run_ptr_unique', 'ptr_shared': 'run_ptr_shared', 'S': 'run_S'}[ty]
            vtoks, vals = value_tokens(ty)
            bid = 't%d.%d' % (t, bi)
            if bid not in drop:
                l0 = len(src) + 1
                src.append('  { auto m = %s; %s([&](auto const& x) { return trompeloeil::param_matches(m, std::ref(x)); }); }'
                           % (tr.cpp, run))
                blocks[(t, l0, len(src))] = (bid, src[-1].strip())
                for vt, v in zip(vtoks, vals):
                    orc = oracle(tr.pats, v if ty in ('str', 'sv', 'cstr') else None)
                    lines.append('%s | %s | %s' % (' '.join(tr.toks), vt, ' '.join(orc) if orc else '-'))
                    texts = LINE2CPP.setdefault(lines[-1], [])
                    t_ = '%s  evaluated on %s by %s' % (tr.cpp, vt, run)
                    if t_ not in texts and len(texts) < 4:
                        texts.append(t_)
            # a matcher held in a named variable, composed (copied, not consumed) and then used again: composing must
            # leave the operand as it was
            if tr.toks[0] not in ('val', 'any', 'not', 'deref') and reuse_ok(tr.cpp) and (len(tr.cpp) % 3 != 0) and (bid + 'r') not in drop:
                l0 = len(src) + 1
                # (operands whose own type is not_matcher<…> or ptr_deref<…> are left out: copying a non-const lvalue of those types
                #  by direct initialisation (`!m0`, any_of(m0, …)) does not compile with the unchanged library — their forwarding
                #  constructor beats the copy constructor.  That is not a subject of C10 or of any other given property.)
                src.append('  { auto m0 = %s; auto c1 = !m0; auto c2 = trompeloeil::any_of(m0, m0); auto c3 = trompeloeil::none_of(m0);' % tr.cpp)
                for var in ('c1', 'c2', 'c3', 'm0'):
                    src.append('    %s([&](auto const& x) { return trompeloeil::param_matches(%s, std::ref(x)); });' % (run, var))
                src.append('  }')
                blocks[(t, l0, len(src))] = (bid + 'r', ' '.join(x.strip() for x in src[l0 - 1:]))
                for toks in (['not'] + tr.toks, ['anyof', '2'] + tr.toks + tr.toks, ['noneof', '1'] + tr.toks, tr.toks):
                    for vt, v in zip(vtoks, vals):
                        orc = oracle(tr.pats, v if ty in ('str', 'sv', 'cstr') else None)
                        lines.append('%s | %s | %s' % (' '.join(toks), vt, ' '.join(orc) if orc else '-'))
        src += ['}', '}']
        files['gen_trees_%d.cpp' % t] = '\n'.join(src) + '\n'
    main = ['#include "hm.hpp"', 'namespace hm { std::vector<char> out;']
    main += ['void trees_%d();' % t for t in range(ntu)]
    main += ['}', 'int main() {']
    main += ['  hm::trees_%d();' % t for t in range(ntu)]
    main += ['  for (char c : hm::out) std::puts(c == \'t\' ? "true" : "false");', '  return 0;', '}']
    files['gen_main.cpp'] = '\n'.join(main) + '\n'
    return files, lines, trees, blocks
