#!/usr/bin/env python3
"""Writes /verif/MANIFEST.json from the table below (kept here so that the manifest is always
regenerated consistently; run after editing)."""
import json
import os

HERE = os.path.dirname(os.path.abspath(__file__))
VERIF = os.path.dirname(HERE)

WORLD_NOTE = ('Trusted: Lean 4.33 kernel; axioms propext/Classical.choice/Quot.sound; the theorem statements in '
              'lean/TrompModel/Props/{id}.lean; the correspondence check (h_world harness driving the real headers of /repo under '
              'ASan+UBSan, generators, report canonicalisation, projection). Modelled, not verified: C++ overload resolution and '
              'routing of expectations to per-function lists, std library, compiler. The world invariant hypotheses of the '
              'single-step theorems (ids on lists denote expectations, no duplicates) are proved for all reachable worlds in Props/C14.')

CLAIMED = {
    'C01': dict(
        text='Theorems (Lean 4, all histories/arguments/user clauses): find() designates exactly the selected candidate '
             '(selected_iff_find); a call is accepted iff that candidate exists and is not a forbid (C01_accept_iff); otherwise exactly '
             'one report, fatal, no action evaluated, no count changed (C01_reject). Tie to /repo: hand-written executable model + '
             'correspondence check (exhaustive small scopes + seeded random scripts run on the real library and on the model).',
        ref='DESIGN.md §4 C01', technique='Lean 4 proof (refinement of the find loop + case analysis of mock_func) + model/implementation correspondence'),
    'C05': dict(
        text='Theorems: sequence cost = number of pending satisfied predecessors (handleCost_eq_some_iff), eligibility characterisation '
             '(eligible_iff), order is the maximum (order_is_max), passed handles never eligible again (passed_never_eligible), '
             'forward-only pending lists after a match (forward_only, predecessors_retired), blocked call = one fatal sequence report and '
             'unchanged world (blocked_call), monitored destruction reports once per violated sequence (monitored_destruction), '
             'independence of unrelated sequences (eligible_congr, other_sequences_untouched). Correspondence: exhaustive scopes over '
             '2-3 expectations (+monitor) x 2 sequences x memberships x bounds x orders, plus random scripts.',
        ref='DESIGN.md §4 C05', technique='Lean 4 proof (refinement of cost/retire_until loops) + model/implementation correspondence'),
    'C06': dict(
        text='Theorems: is_completed answer iff all pending satisfied (completed_iff), teardown reports exactly the pending handles once, '
             'non-fatally, nothing when empty (teardown_report), release/saturation/death leave every sequence (leaves_on_release, '
             'leaves_on_saturation, leaves_on_death). Correspondence as C05 with `completed` after every step and `killseq` at every position.',
        ref='DESIGN.md §4 C06', technique='Lean 4 proof + model/implementation correspondence'),
}

ALL = ['C%02d' % i for i in range(1, 21)]

NOT_YET = 'check not built yet in this session (planned, see DESIGN.md §10)'


def main():
    checks = []
    for pid in ALL:
        if pid not in CLAIMED:
            continue
        c = CLAIMED[pid]
        checks.append(dict(
            property_id=pid,
            quick_cmd='python3 tools/check.py %s --tier quick' % pid,
            thorough_cmd='python3 tools/check.py %s --tier thorough' % pid,
            evidence_file='evidence/%s.json' % pid,
            replay_cmd_template='python3 tools/check.py %s --replay {path}' % pid,
            engine=c.get('engine', 'lean-world'),
            level_claimed=dict(category='proof', text=c['text'], design_ref=c['ref']),
            level_note=c.get('note', WORLD_NOTE.replace('{id}', pid)),
            technique=c['technique'],
        ))
    man = dict(
        version=1,
        setup_cmd='python3 tools/setup.py',
        hooks=dict(guard='TROMPELOEIL_VERIF',
                   enable='checks compile their harnesses with -DTROMPELOEIL_VERIF where a hook is needed (C12 only); no hook is needed for the other properties',
                   baseline_off_cmd='cmake --build /repo/_build -j16 && /repo/_build/test/self_test',
                   source_commits=[], add_only=True),
        engines=[
            dict(name='lean-world', path='lean/', serves_properties=[p for p in ALL if p in CLAIMED and CLAIMED[p].get('engine', 'lean-world') == 'lean-world'],
                 kind_free_text='Lean 4 model of expectations/sequences/lifetimes with property theorems; C++ harness harness/world drives the real headers; tools/check.py compares'),
        ],
        checks=checks,
        notes='See DESIGN.md. Genuine defects found and repaired are listed in known_findings.json (fixed entries suppress nothing).',
        not_applicable=[dict(property_id=p, reason=NOT_YET) for p in ALL if p not in CLAIMED],
    )
    with open(os.path.join(VERIF, 'MANIFEST.json'), 'w') as f:
        json.dump(man, f, indent=1)
        f.write('\n')
    print('claimed:', [c['property_id'] for c in checks])


if __name__ == '__main__':
    main()
