#!/usr/bin/env python3
"""Writes /verif/MANIFEST.json from the table below (kept here so that the manifest is always
regenerated consistently; run after editing)."""
import json
import os

HERE = os.path.dirname(os.path.abspath(__file__))
VERIF = os.path.dirname(HERE)

WORLD_NOTE = ('Two ties to /repo, both re-checked on every run: (1) correspondence of the executable model with the real headers; (2) for the '
              'functions listed in the evidence (`translated_functions`), the translator tools/cxx2lean.py + the tie theorems of lean/TrompModel/Tie. '
              'Trusted: Lean 4.33 kernel; axioms propext/Classical.choice/Quot.sound; the theorem statements in '
              'lean/TrompModel/Props/{id}.lean; the correspondence check (h_world harness driving the real headers of /repo under '
              'ASan+UBSan, generators, report canonicalisation, projection). Modelled, not verified: C++ overload resolution and '
              'routing of expectations to per-function lists, std library, compiler; the translator and its vocabulary (tools/cxxvocab.py: how calls are read '
              'as parameters, four loop idioms over the intrusive lists). The world invariant hypotheses of the '
              'single-step theorems (ids on lists denote expectations, no duplicates) are proved for all reachable worlds in Props/C14.')

CLAIMED = {
    'C01': dict(
        text='Theorems (Lean 4, all histories/arguments/user clauses): find() designates exactly the selected candidate '
             '(selected_iff_find); a call is accepted iff that candidate exists and is not a forbid (C01_accept_iff); otherwise exactly '
             'one report, fatal, no action evaluated, no count changed (C01_reject). Tie to /repo: hand-written executable model + '
             'correspondence check (exhaustive small scopes + seeded random scripts run on the real library and on the model). Second tie (translator): trompeloeil::find, call_matcher::run_actions, can_be_called regenerated from /repo\'s current source by tools/cxx2lean.py on every run and proved equal to the model definitions (find_eq/find_tie, run_actions_order + run_actions_sem: the state after interpreting the translated statement trace is World.runActions; mock_func_sem: the whole call path - the translated mock_func read with the translated find, report_mismatch and run_actions - ends in the world of World.callFn, for every world, object, function and argument list). Re-entrant side effects: Model/Nested.lean (callN), state = the same calls in sequence (callN_world_is_run). Every documented spelling of REQUIRE/ALLOW/FORBID_CALL (C++14, variadic _V, named, unnamed) is run by harness/spelling. Also regenerated and tied (Tie/NoMatch.lean): call_matcher::matches / match_conditions (verdict = parameters and all WITH predicates; exactly the predicates up to and including the first failing one are evaluated, none if a parameter rejects: match_conditions_tie, matches_tie), the member report_mismatch (sets `reported`, names the first failing WITH, evaluates no predicate beyond it: report_mismatch_member_eq/_tie), the free report_mismatch (lists every matching saturated expectation or else a Tried explanation of every active one: report_mismatch_free_eq/_tie), hook_last (newest first).',
        ref='DESIGN.md §4 C01', technique='Lean 4 proof (refinement of the find loop + case analysis of mock_func) + model/implementation correspondence'),
    'C05': dict(
        text='Theorems: sequence cost = number of pending satisfied predecessors (handleCost_eq_some_iff), eligibility characterisation '
             '(eligible_iff), order is the maximum (order_is_max), passed handles never eligible again (passed_never_eligible), '
             'forward-only pending lists after a match (forward_only, predecessors_retired), blocked call = one fatal sequence report and '
             'unchanged world (blocked_call), monitored destruction reports once per violated sequence (monitored_destruction), '
             'independence of unrelated sequences (eligible_congr, other_sequences_untouched). Correspondence: exhaustive scopes over '
             '2-3 expectations (+monitor) x 2 sequences x memberships x bounds x orders, plus random scripts. Second tie (translator): sequence_type::cost / retire_until / validate_match, sequence_matchers<N>::order / validate / retire_predecessors, the sequence_matcher wrappers, run_actions, lifetime_monitor::notify regenerated from /repo\'s current source by tools/cxx2lean.py on every run and proved equal to the model definitions (cost_eq, retire_until_eq, validate_match_eq, order_eq, handle_*_order, all_*_order, run_actions_sem, notify_sem).',
        ref='DESIGN.md §4 C05', technique='Lean 4 proof (refinement of cost/retire_until loops) + model/implementation correspondence'),
    'C06': dict(
        text='Theorems: is_completed answer iff all pending satisfied (completed_iff), teardown reports exactly the pending handles once, '
             'non-fatally, nothing when empty (teardown_report), release/saturation/death leave every sequence (leaves_on_release, '
             'leaves_on_saturation, leaves_on_death). Correspondence as C05 with `completed` after every step and `killseq` at every position. Second tie (translator): sequence_type::is_completed, ~sequence_type, sequence_matcher::retire, sequence_matchers<N>::retire/retire_predecessors, notify regenerated from /repo\'s current source by tools/cxx2lean.py on every run and proved equal to the model definitions (is_completed_eq, seq_dtor_eq (teardown text lists every pending handle in order), handle_retire_order, all_retire_order, notify_sem).',
        ref='DESIGN.md §4 C06', technique='Lean 4 proof + model/implementation correspondence'),
    'C02': dict(
        text='Theorems: find returns the matching expectation of least cost, the most recently created on ties (find_min_newest, '
             'find_eq_some_iff via IsDesignated.unique); without sequences simply the newest match (no_sequences_newest); frame: only '
             'the handler record/count changes, all actions belong to it, other objects and other functions/overloads untouched (C02_frame). '
             'Routing of an expectation to its per-function list is C++ overload resolution: assumed by the model, exercised by the harness '
             '(2 mock classes, 4 functions incl. an overload pair). Second tie (translator): trompeloeil::find, sequence_matchers<N>::order regenerated from /repo\'s current source by tools/cxx2lean.py on every run and proved equal to the model definitions (find_eq, find_tie, order_eq, order_tie).',
        ref='DESIGN.md §4 C02', technique='Lean 4 proof (loop refinement + frame) + model/implementation correspondence'),
    'C03': dict(
        text='Theorems: is_satisfied/is_saturated answers are count>=lo / count=hi (sat_answer, satd_answer, monitor_answers); an accepted '
             'call advances the count by one and moves the handler to the saturated list exactly at count=hi (saturation_step), after which it '
             'is never designated (not_active_not_handler); beyond hi: one fatal report naming exactly the saturated matches (beyond_hi); '
             'inverted RT_TIMES leaves nothing behind (rt_times_inverted*). count<=hi for all reachable worlds: invariant in Props/C14. '
             'Correspondence: all 0<=L<=H<=3, inf, inverted, static forms, alone/stacked. Over whole histories (any script): the counter equals the number of OK reports naming the expectation = accepted calls it handled, and is <= hi (count_eq_handled, Props/C03_History.lean). Second tie (translator): sequence_handler_base::is_satisfied/is_saturated/increment_call regenerated from /repo\'s current source by tools/cxx2lean.py on every run and proved equal to the model definitions (is_satisfied_tie, is_saturated_tie, increment_call_tie). Spelling harness as C01. Tie/Delegates.lean: the public is_satisfied / is_saturated are the handlers answers under the lock (public_is_satisfied_tie, public_is_saturated_tie).',
        ref='DESIGN.md §4 C03', technique='Lean 4 proof + model/implementation correspondence'),
    'C04': dict(
        text='Theorems: release reports exactly one non-fatal unfulfilled iff not reported, attached and count<lo (release_report, '
             'isUnfulfilled_iff), satisfied/reported/detached expectations are silent (satisfied_silent, reported_silent, detached_silent), '
             'mock destruction reports pending ones once and detaches all (decommission_spec), moves are silent, a released expectation '
             'cannot report again (release_once). Over whole histories: at most one shortfall report per expectation whatever the order of releases, kills, moves, calls and listings, and none after it was flagged (shortfall_at_most_once, no_second_shortfall, Props/C04_History.lean). Second tie (translator): ~call_matcher, mock_destroyed, is_unfulfilled, report_missed, call_matcher_list::decommission regenerated from /repo\'s current source by tools/cxx2lean.py on every run and proved equal to the model definitions (*_order, is_unfulfilled_tie, release_sem, decommission_sem: the interpreted statement traces are World.releaseExp / World.decommission). Also regenerated and tied (Tie/NoMatch.lean): call_matcher::matches / match_conditions (verdict = parameters and all WITH predicates; exactly the predicates up to and including the first failing one are evaluated, none if a parameter rejects: match_conditions_tie, matches_tie), the member report_mismatch (sets `reported`, names the first failing WITH, evaluates no predicate beyond it: report_mismatch_member_eq/_tie), the free report_mismatch (lists every matching saturated expectation or else a Tried explanation of every active one: report_mismatch_free_eq/_tie), hook_last (newest first).',
        ref='DESIGN.md §4 C04', technique='Lean 4 proof (induction over the decommission loop) + model/implementation correspondence'),
    'C07': dict(
        text='Theorems: a call designated to a forbid is exactly one fatal forbidden report with that expectation and the arguments, no action, '
             'no OK, no count change (forbid_report, forbid_no_action_no_ok); always satisfied+saturated, silent at end (forbid_flags, '
             'forbid_silent_at_end); the reported flag is invisible to matching/ordering so the n-th forbidden call behaves like the first '
             '(forbid_repeat). The "as if it had never existed" clause is proved for expectations in no sequence, over whole series of calls (Props/C07_Erasure.lean: erasure_call, erasure_calls, erasure_after_lifetime, designated_unaffected - erasing the expectation from the world (no record, on no list) commutes with every call it does not match, and with every call once it is off the lists; the event streams agree up to its own WITH evaluations and its own Tried entry); partial: a forbid placed IN a sequence (possible only through RT_TIMES(0)) is excluded, since a sequence step changes the cost of its successors by design. Second tie (translator): call_matcher::run_actions, sequence_handler_base::is_forbidden regenerated from /repo\'s current source by tools/cxx2lean.py on every run and proved equal to the model definitions (run_actions_order (forbidden flagged and reported before anything else), run_actions_sem, is_forbidden_tie). Spelling harness as C01.',
        ref='DESIGN.md §4 C07', technique='Lean 4 proof + model/implementation correspondence'),
    'C08': dict(
        text='Theorems: WITH clauses evaluated in order up to the first failing (with_short_circuit, matches_iff); side effects once each in '
             'order then RETURN/THROW once, or stop at the first throwing effect (actions_shape); full event log of an accepted call '
             '(eval_log_shape); a throwing call still counts (throwing_call_counts); actions belong to the handler only (C02_frame). Re-entrant side effects (a SIDE_EFFECT calling a mock function): events of the nested call directly after the effect, remaining effects on the world it left, exceptions propagate (reentrant_effect_events); no nesting = plain call (no_reentrancy_is_plain_call). Second tie (translator): trompeloeil::mock_func regenerated from /repo\'s current source by tools/cxx2lean.py on every run and proved equal to the model definitions (mock_func_order: parameters traced before run_actions, return value last). Also regenerated and tied (Tie/NoMatch.lean): call_matcher::matches / match_conditions (verdict = parameters and all WITH predicates; exactly the predicates up to and including the first failing one are evaluated, none if a parameter rejects: match_conditions_tie, matches_tie), the member report_mismatch (sets `reported`, names the first failing WITH, evaluates no predicate beyond it: report_mismatch_member_eq/_tie), the free report_mismatch (lists every matching saturated expectation or else a Tried explanation of every active one: report_mismatch_free_eq/_tie), hook_last (newest first). What the caller receives: harness/retref (19 cases, ASan+UBSan): every way of writing RETURN / LR_RETURN for value, reference, const-reference and pointer returns, the received object identified by address; proof side: the overload set of decay_return_type regenerated as a table and tied (Tie/DecayReturn.lean: an lvalue RETURN expression, const or not, leaves the clause as that very object). Clause plumbing (Tie/ClausePlumbing.lean): the run-time parts of with / sideeffect / handle_return / handle_throw ::action and set_return are regenerated; clauses_registered: the matcher holds the WITH and SIDE_EFFECT clauses in the order written and the functor of its one RETURN or THROW; throw_handler_t (throw_path_tie: the THROW functor is evaluated once, abort if it comes back). The std::exception thrown by clauses of the world harness carries a nested non-std exception for odd ids and the caller must receive it.',
        ref='DESIGN.md §4 C08', technique='Lean 4 proof + model/implementation correspondence'),
    'C13': dict(
        text='Theorems: unexpected destruction iff no live requirement (unexpected_iff_none); with requirements alive nothing but sequence '
             'reports and EACH requirement becomes died (expected_destruction via notify_fold); still-alive once and forgotten by the object '
             '(still_alive, forgotten_by_object); copies/moves do not inherit, assignment keeps (copies_do_not_inherit, assign_keeps). Second tie (translator): ~deathwatched, ~lifetime_monitor regenerated from /repo\'s current source by tools/cxx2lean.py on every run and proved equal to the model definitions (deathwatched_dtor_order, lifetime_monitor_dtor_order, killw_sem, releasemon_sem: the interpreted traces are the model transitions of killw / releasemon). Copies, moves and assignments of watched objects are made through every view of the source (non-const lvalue, const view, rvalue, const rvalue: they select different constructors of deathwatched<T>); the copy / move constructors of null_on_move are translated and tied (a copy or a move of a deathwatched object holds no requirement). Pointer level (Props/C13_MonitorChain.lean over Model/Chain.lean, Lemmas/Chain.lean): for every history the older_monitor pointers from the head of each watched object spell the list of live requirements on it, newest first (monitor_chains_refine_world), so the walk in ~deathwatched tells exactly those (death_walk_visits_requirements); the unlink-this loop of ~lifetime_monitor is proved to be erase on a represented chain (rep_unlinkThis). assignw names its source as lvalue, const lvalue, rvalue and const rvalue in turn. Tie/Delegates.lean: lifetime_monitor::is_satisfied / is_saturated = died (public_monitor_queries_tie).',
        ref='DESIGN.md §4 C13', technique='Lean 4 proof (induction over the monitor chain) + model/implementation correspondence'),
    'C14': dict(
        text='Theorems: the linkage invariant WF (every id on a mock function list denotes a live expectation attached to exactly that '
             'object/function/list; lists duplicate-free and disjoint; dead expectations unlinked; counters agree with the list) is preserved by '
             'every one of the 23 operations, legal or not (WF.step), hence holds after ANY script (reachable_WF) - every order of '
             'release/kill/move/killseq/killw/releasemon/killtracer interleaved with calls and queries; no_dangling_entry, destroyed_is_unlisted, '
             'entry_unique, counters_consistent; move: lists change owner with order kept (move_transfers) and ANY series of calls on the new '
             'object yields the events the same calls on the old object would have (move_preserves_behaviour, by a simulation relation kept by '
             'callFn). Correspondence under ASan+LeakSanitizer+UBSan+TROMPELOEIL_SANITY_CHECKS: random permutations of destruction/move '
             'operations over populations of mocks/expectations/sequences/monitors/watched/tracers interleaved with calls and queries; a '
             'sanitizer abort is a violation. Partial: memory safety is proved for the reference structure of the model; that the C++ keeps no '
             'other pointers is observed by the sanitizers on the explored histories. Re-entrant calls keep every invariant (reentrant_reachable, reentrant_WF). Second tie (translator): ~sequence_type (pending and retired handles detached), sequence_matcher::detach regenerated from /repo\'s current source by tools/cxx2lean.py on every run and proved equal to the model definitions (seq_dtor_eq, handle_detach_order). Layer below the lists (Props/C14_Ring.lean): the intrusive ring itself - list_elem<T>::unlink / ~list_elem / operator=(list_elem&&) / is_linked and list<T,Disposer>::push_front / push_back / begin / end / iterator++ / ~list - is modelled as a heap of next/prev pointers (Model/Ring.lean); for EVERY legal script of ring operations, any number of rings side by side, the heap represents the abstract lists (ring_refines_lists: invariant Rep by induction over the script), iterators see exactly the list forwards and backwards (iteration_is_list), is_linked is membership (isLinked_iff_member), after unlink no other address holds a pointer to the removed element (unlinked_unreferenced), ~list_elem of an unlinked element writes nothing (dtor_of_unlinked_is_noop), list(list&&) transfers the elements in order and leaves the source empty and every other list untouched (move_transfers_ring). Tie: the ten member functions are regenerated from /repo on every run (while loops with explicit fuel) and proved equal to the model operations (Tie/Ring.lean), and harness/ring/h_ring.cpp runs the real ring (ASan+UBSan+SANITY_CHECKS) against `tmodel ring` on systematic and random legal scripts, comparing both traversal directions, empty() and is_linked() after every operation. The caller obligations (an element is pushed only while on no list) follow from well-formedness of the resulting list family (push_legal_of_wf_post, move_legal_of_wf_post), which is what the World invariant WF states after every operation - proved: absWf_of_WF / reachable_lists_wellformed (Props/C14_WorldRing.lean: the mock-function lists of every reachable world, read as a ring family over structured addresses, are well formed) and step_between_reachable_is_legal. For EVERY history of World operations the pointer heap produced by the ring scripts of the library represents the lists of the World: heap_refines_world (mock-function lists, Props/C14_HeapRefines.lean: step_heap for all 24 operations) and seq_heap_refines_world (the pending lists of the sequences, Props/C14_SeqHeapRefines.lean), by induction over the history. Each World operation is carried down to the pointers as a worked instance (expect_heap, release_heap, saturating_call_heap, kill_heap, move_heap; for the sequence lists register_heap, retire_heap, skip_heap, expect_seq_heap, release_seq_heap, accepted_call_seq_heap - Props/C14_WorldRing.lean, Props/C14_SeqRing.lean), and which ring operations the C++ issues is read off the regenerated translations of run_actions, lifetime_monitor::notify, decommission and ~expectations and proved to be those scripts (Tie/RingScripts.lean: run_actions_heap, run_actions_seq_heap, notify_seq_heap, kill_heap_from_cxx); the retired ring of a sequence and the compiler-generated move constructor remain by inspection and sanitizer observation. The retired rings and the seq pointers of the handles are modelled as a machine of their own (Props/C14_HandleMachine.lean: for every script of reg / retire / detach / drop / killSeq the heap represents both rings of every sequence and a handle is attached exactly while it is on one of them: hrun_inv, attached_seq_alive) which every World history drives legally (Props/C14_HandleWorld.lean: machine_follows_world, world_attached_seq_alive); no_dangling_after_history, linked_iff_listed_after_history, pending_walkable, is_completed_on_heap are corollaries at every point of every history.',
        ref='DESIGN.md §4 C14, §14', technique='Lean 4 proof (invariant by induction over all operations; simulation for move; heap-level refinement of the intrusive ring to lists) + sanitizer-instrumented model/implementation correspondence'),
    'C15': dict(
        text='Theorems: every report of a call is fatal, every report of any other operation non-fatal (call_reports_fatal, '
             'destructor_reports_nonfatal: case analysis over all 23 operations); structure of the no-match listing: saturated matches or '
             'else every live expectation newest first with rejecting parameters / first failing WITH (nomatch_listing, tried_entry, '
             'failingParams_spec). Message wording beyond the parsed structure is not compared. Second tie (translator): sequence_type::validate_match regenerated from /repo\'s current source by tools/cxx2lean.py on every run and proved equal to the model definitions (validate_match_eq / validate_tie: silent iff callable, else the listing first-in-line ... first required). Also regenerated and tied (Tie/NoMatch.lean): call_matcher::matches / match_conditions (verdict = parameters and all WITH predicates; exactly the predicates up to and including the first failing one are evaluated, none if a parameter rejects: match_conditions_tie, matches_tie), the member report_mismatch (sets `reported`, names the first failing WITH, evaluates no predicate beyond it: report_mismatch_member_eq/_tie), the free report_mismatch (lists every matching saturated expectation or else a Tried explanation of every active one: report_mismatch_free_eq/_tie), hook_last (newest first).',
        ref='DESIGN.md §4 C15', technique='Lean 4 proof + model/implementation correspondence on parsed reports'),
    'C16': dict(
        text='Theorems: an accepted call yields exactly one OK naming the handler, a rejected one none (ok_exactly_one); no other operation '
             'reports OK (only_calls_report_ok); set_reporter answers the previous reporter and all later events go to the new one '
             '(reporter_exchange, reports_go_to_installed). The OK reporter is a slot of its own: the one-argument set_reporter leaves it installed (reporter_exchange_one, ok_reporter_kept). Second tie (translator): call_matcher::run_actions regenerated from /repo\'s current source by tools/cxx2lean.py on every run and proved equal to the model definitions (run_actions_order: the OK report is sent after the forbidden and sequence checks).',
        ref='DESIGN.md §4 C16', technique='Lean 4 proof + model/implementation correspondence'),
    'C17': dict(
        text='Theorems: accepted call => exactly one trace record to the head of the live-tracer chain with handler, arguments, result '
             '(trace_one_per_accepted); no tracer => no trace (no_tracer_no_trace); non-calls never trace (only_calls_trace); tracer chain '
             'push/remove (tracer_stack, nested_restore). Re-entrant calls: the outer record is the last record of the operation and carries the outer result (reentrant_outer_record_last). Second tie (translator): ~tracer, mock_func regenerated from /repo\'s current source by tools/cxx2lean.py on every run and proved equal to the model definitions (tracer_dtor_tie, mock_func_order). Threads: scenario s9 of harness/conc (tracer constructed on the main thread, accepted calls on 2-8 worker threads, records = accepted calls; a nested tracer made and destroyed first) is part of this check. Tracer lifetimes that begin or end inside a call (tracer constructed by a side effect or a RETURN expression): harness/tracerlife, 16 cases. Pointer level (Props/C17_TracerChain.lean): for every history the previous pointers from tracer_obj() spell the tracer stack of the World, newest first (tracer_chain_refines_world, innermost_is_head).',
        ref='DESIGN.md §4 C17', technique='Lean 4 proof + model/implementation correspondence'),
    'C11': dict(
        text='Theorems (all lengths, duplicates allowed): the element-wise fold / std::equal / std::mismatch loops accept exactly '
             'Forall2-matches of the whole range, a prefix, a suffix (isElements_iff, equal4_iff, startsWithE/R_iff, endsWithE/R_iff); with '
             'plain values: range = list, prefix, suffix (rangeIs_values, startsWith_values, endsWith_values); the first-fit swap-with-last '
             'loop of range_includes under pairwise non-overlapping matchers accepts iff every listed matcher has as many accepted members '
             'as its multiplicity (includesG_iff_counts), for values iff multiset inclusion (includes_values: Subperm); '
             'range_is_permutation = includes + equal length (isPermG_iff), for values iff Perm (permutation_values); all/any/none incl. '
             'empty range (allOf_iff, anyOf_iff, noneOf_iff, empty_range). Overlapping matchers: the model IS the documented first-fit '
             'algorithm; the obligation is the correspondence. Exhaustive correspondence as the property asks. Tie/RangeContainers.lean: the six container / single-matcher checkers (is_range, starts_with_range, ends_with_range, range_all_of / none_of / any_of) are regenerated from range.hpp and proved equal to equal4 / startsWithR / endsWithR / allOf / noneOf / anyOf; with RangeLoops and RangeElements all thirteen checkers are regenerated.',
        ref='DESIGN.md §4 C11', engine='lean-range',
        note='Trusted: Lean kernel; axioms propext/Classical.choice/Quot.sound; Mathlib list Perm/Subperm/count lemmas; statements in '
             'Props/C11.lean; h_range harness (real range matchers evaluated on run-time data through param_matches) and generator. '
             'libstdc++ algorithms (std::equal, std::mismatch, std::find_if, std::all_of...) are modelled by their specification.',
        technique='Lean 4 proof (loop refinement to Forall2 / Subperm / Perm) + exhaustive model/implementation correspondence'),
    'C10': dict(
        text='Theorems (structural, for every nesting and every value): the any_true/all_true folds are exactly exists/forall over the '
             'operands (foldAny_eq, foldAll_eq, anyOf_iff_exists, allOf_iff_forall, noneOf_iff_not_exists); !m = negation (eval_not); *m = '
             'non-null and pointee accepted, null never dereferenced (eval_deref, eval_deref_null); MEMBER_IS (eval_member); re = non-null '
             'and found (re_iff, search is an oracle); the six comparisons on ints and strings, null comparison (cmp_int, cmp_str, cmp_null); '
             'plain value operand = eq (plain_value_operand_int); laws (not_anyOf_eq_noneOf, double_negation, empty_operands, '
             'noneOf_eq_allOf_not). Tie: generated C++ expressions compiled against the real headers, evaluated over whole domains. Proof-side tie (Tie/Compare.lean, regenerated every run): the functor macro and the function table of matcher/compare.hpp, predicate_matcher::matches_, param_matches_impl for matchers and for plain values, the MEMBER_IS functor and any_predicate, composed into eval (compare_matcher_tie: a comparison matcher accepts exactly x op v, argument on the left; param_matches_value_tie). Generated trees include plain nullptr operands and operands of another arithmetic type (k + 0.5 against integer arguments). re() is generated with match flags too (match_not_bol, match_not_eol, match_continuous; two- and three-argument forms) on C strings, std::string and string_view; the regex_check tie requires the single call operator.',
        ref='DESIGN.md §4 C10', engine='lean-matcher',
        note='Trusted: Lean kernel; axioms propext/Classical.choice/Quot.sound; statements in Props/C10.lean; generator + generated harness; '
             'std::regex_search modelled as an oracle (answers from Python re on a common pattern subset); the C++ overload/template '
             'machinery selecting duck-typed vs typed matchers is exercised, not modelled.',
        technique='Lean 4 proof (structural induction over matcher trees) + generated-program correspondence'),
    'C18': dict(
        text='Theorems: print never reaches the streaming of a null pointer at any nesting depth (print_defined, mutual induction over the '
             'value tree; null_prints_nullptr); every leaf (streamable, null, hex-dumped) is rendered independently of the prior stream state '
             'and the state is restored (leaf_default_format_and_restore); with no pending width every value prints as the stateless '
             'structural rendering `{ a, b }`, recursively, and leaves the state unchanged (print_structure); printer<T> wins over operator<< '
             '(printer_wins); hex dump is byte-exact: parsing it back yields every byte in order, for objects of any size '
             '(hexBytes_roundtrip, hexdump_layout). Found and repaired: F14 (null leaf written without the sentry). Tie/IsNull.lean: the overload set of is_null / is_null_redirect regenerated as tables, is_null_sem (null exactly when the type is null-comparable, neither matcher nor array, and equals nullptr). Expected values held by matchers: Tie/Printers.lean (expected_values_go_through_print over the regenerated printer table) and the self-checking family harness/describe. Found and repaired: F15 (range / any_of / all_of / none_of printers streamed held values raw: a null char const* cut the report short).',
        ref='DESIGN.md §4 C18', engine='lean-print',
        note='Trusted: Lean kernel; axioms propext/Classical.choice/Quot.sound; statements in Props/C18.lean; h_print harness; the standard '
             'stream\'s formatting of int/string under default state and its padding of string literals (`pad`) are modelled, not verified; '
             'the SFINAE dispatch (is_output_streamable / is_collection / is_null_comparable) is exercised by a fixed type family, not modelled.',
        technique='Lean 4 proof (mutual structural induction over printable values; hexdump round trip) + model/implementation correspondence'),
    'C09': dict(
        text='Proof over tables regenerated from /repo on every run (tools/translate.py -> Gen/Macros.lean): in each of the 7 clause macros '
             '`_k` is bound to mkarg<k> for k=1..15 (bind_positional), plain macros pass `=` and LR_ macros `&` (capture_modes), '
             'PARAM_LISTn / PARAMSn declare and forward p1..pn positionally for n=0..15 (param_lists, params_forwarded), hence `_k` denotes the '
             'k-th actual argument or an illegal_argument beyond the arity, for all 7 x 16 x 15 combinations (underscore_k_is_kth_argument); '
             'store model of copy vs reference capture (plain_sees_creation_value, lr_sees_call_value). The C++-language part (reference '
             'binding, no copies, [=]/[&] semantics) is VALIDATED, not proved, by a generated self-checking program family over arities, '
             'positions and passing modes incl. const, overloaded and IMPLEMENT_MOCKed functions. The copies of a plain clause are immutable and the same on every call: clauseLambdas table regenerated from the clause macros and pinned (clause_lambdas, no_clause_lambda_is_mutable); the farm names class-type locals as rvalues over several calls and probes that a write to a captured local compiles in an LR_ clause and not in a plain one. For each arity, RETURN and THROW variants take the address of every _k and compare it with the one the side effect saw; the same for CO_RETURN / CO_YIELD / CO_THROW of an eagerly started arity-15 coroutine (harness/covalue).',
        ref='DESIGN.md §4 C09', engine='lean-gen',
        note='Trusted: Lean kernel; axioms propext/Classical.choice/Quot.sound; the translator (macro bodies -> tables); g++ for the '
             'language semantics of references, lambda captures and moves; the program family tools/argsfarm.py (ASan+UBSan).',
        technique='Lean 4 proof over regenerated macro tables (decide on finite tables) + generated-program validation'),
    'C19': dict(
        text='Proof over tables regenerated from /repo on every run: every static_assert of the clause modifiers and of operator+ becomes a '
             'guard (condition over type-state atoms, message); theorems over the generated guards, for clause lists of ANY length and ANY '
             'position of the offending clauses: multiple TIMES/RT_TIMES, multiple IN_SEQUENCE, repeated RETURN, RETURN+THROW in either order, '
             'RETURN on void, inverted TIMES, SIDE_EFFECT/THROW/IN_SEQUENCE/RETURN with TIMES(0) in either order, coroutine clauses on ordinary '
             'functions and vice versa, missing RETURN on non-void are rejected (multiple_times_rejected ... missing_return_rejected); legal forms '
             'accepted (examples); no macro outside TROMPELOEIL_ with TROMPELOEIL_LONG_MACROS (long_macros_clean). Compile farm: the 68 '
             'shipped negative programs with their own pass/exception rules, and every clause list up to length 2 (quick) / 3 (thorough) over 4 '
             'signatures compiled and compared with the model\'s predicted fate and message. Found and repaired: F1. The macro table is the union over every form of defining TROMPELOEIL_LONG_MACROS (-D, empty definition, =0).',
        ref='DESIGN.md §4 C19', engine='lean-gen',
        note='Trusted: Lean kernel; axioms propext/Classical.choice/Quot.sound; the translator tools/translate.py (a condition it cannot '
             'parse or a trait it does not know fails the translation = broken obligation); g++ 12.2 evaluating static_assert as written. '
             'Order-independence of acceptance for all permutations is validated by the farm (all orders up to length 3), not proved. '
             'Misuses that are single static_asserts outside the clause chain (value from matcher, moving a non-movable mock, deathwatched without '
             'virtual destructor, MAKE_MOCKn arity) are covered by the shipped programs.',
        technique='Lean 4 proof over regenerated static_assert/macro tables (translator) + compile-farm validation'),
    'C20': dict(
        text='Theorems (any number of CO_YIELD clauses, lazy and eager start): pulling from the coroutine of an accepted call yields the CO_YIELD '
             'values in declaration order up to the first throwing clause, then the CO_RETURN value / plain completion / exception, then `done` '
             '(coro_values_lazy, coro_values_eager via advance_spec, pulls_spec); the call itself is counted, runs the SIDE_EFFECT and evaluates no '
             'CO_ clause (lazy) or exactly the first (eager) (coro_call_time); no exception reaches the caller of the mock function, it is an item of '
             'a pull (coro_throw_at_await); every call gets its own cursor, so coroutines of one expectation are independent under any interleaving '
             '(coro_independent). Known finding F12 (parameters of the call are dead when deferred clauses run) is excluded by hypothesis and '
             'reported as KNOWN-FINDING while it reproduces. Completion-value family (harness/covalue, 17 cases): lvalue CO_RETURN / CO_YIELD expressions of move-sensitive types, several calls per expectation, resumed in another order than created: every coroutine gets the value and the objects named are left as they were.',
        ref='DESIGN.md §4 C20', engine='lean-coro',
        note='Trusted: Lean kernel; axioms propext/Classical.choice/Quot.sound; statements in Props/C20.lean; the promise types of the harness '
             '(lazy/eager pullers, value/void completion) and g++ 12.2 coroutine codegen; matching/counting/sequence checks at call time are the '
             'World model (C01-C08), only counting and the SIDE_EFFECT are re-observed here.',
        technique='Lean 4 proof (resumable machine vs specification list, induction over pulls) + model/implementation correspondence'),
    'C12': dict(
        text='PARTIAL. Proved (any number of threads, any schedule): in a well-formed trace two accesses by different threads made while '
             'holding the one global lock are separated by a release of the first and a later acquisition by the second thread - no data race '
             '(lock_discipline_drf via handover_both); every execution that touches shared state only under the lock is a concatenation of '
             'single-thread critical sections and ends in the state of running them one at a time in lock-acquisition order - each operation '
             'takes effect atomically (legal_execution_is_serial via cs_contiguous); the lock table observed on this run has no unheld access '
             '(observed_accesses_all_held over the regenerated Gen/LockTable.lean). Observed, not proved: that every execution of the C++ obeys '
             'the discipline - guarded access hooks + the library\'s custom-mutex customisation point give a per-site held/unheld table, 5 '
             'scenarios x seeds x 2-8 threads run under ThreadSanitizer, and the operations of a concurrent run are replayed on the sequential '
             'World model in critical-section order and must give the same handlers, counts, reports and query answers. Found and repaired: '
             'F9, F10, F11 (three unsynchronised accesses). Static complement (third session): tools/lockscope.py regenerates from the current source, for every function that takes the global lock, the list of its statements, declarations, conditions and return expressions with whether each stands lexically inside the lock scope (Gen/LockScopes.lean); proved over it by decide: everything outside a lock scope is the lock declaration itself, the RT_TIMES argument check, or the forbidden-call prologue of run_actions, which runs under the lock of its only caller mock_func (lexical_lock_coverage, run_actions_called_under_lock); the set of lock-taking functions is pinned (lock_takers: a function that loses its lock drops out of the table); the mutating steps are inside a lock scope by name (critical_steps_locked). Not visible to the lexical scan: implicit member/base destructors at scope end - those are TSan\'s. Also over regenerated tables: no_early_unlock (no lock-taking function unlocks / releases / moves the lock before the end of its scope) and lock_free_reads_atomic (the state queries that do not take the lock read only data members declared atomic). Scenario s9: a tracer constructed before the workers start receives one record per accepted call made on any thread. one_global_mutex: every definition of get_lock() hands out a lock on one function-local static mutex (lockSources table). Scenario s10: after each violation path (unexpected destruction, unfulfilled release, no match, forbidden call, mock destroyed first, out-of-sequence call, requirement released early) in one thread, an operation in another thread completes under a 5 s watchdog - the lock was given back.',
        ref='DESIGN.md §4 C12', engine='lean-conc',
        note='Trusted: Lean kernel; axioms propext/Classical.choice/Quot.sound; ThreadSanitizer; the instrumented mutex; that the hooked sites '
             'are all shared accesses. Not covered: schedules not explored, deadlocks against user locks, user-supplied custom mutexes, memory-model '
             'effects below the lock; an expectation statement is linearized at its hook (last critical section) - the two-phase registration '
             'with IN_SEQUENCE is exercised under TSan and the lock table but not replayed against the model.',
        technique='Lean 4 proof of race-freedom and atomicity from the lock discipline + observed lock table (regenerated, re-checked) + TSan + sequential replay'),
}

ALL = ['C%02d' % i for i in range(1, 21)]

NOT_YET = 'check not built yet in this session (planned, see DESIGN.md §10)'


def tie_sentence(pid):
    import vlib
    mods = sorted(m for m, v in vlib.TIES.items() if pid in v['props'])
    if not mods:
        return ''
    n = sum(len(vlib.TIES[m]['theorems']) for m in mods)
    return (' Translator ties re-checked by this check (lean/TrompModel/Tie/<module>.lean, %d theorems over functions regenerated from /repo on every run): %s.'
            % (n, ', '.join(mods)))


def main():
    checks = []
    for pid in ALL:
        if pid not in CLAIMED:
            continue
        c = CLAIMED[pid]
        checks.append(dict(
            property_id=pid,
            quick_cmd='python3 tools/check.py %s --tier quick' % pid,
            thorough_cmd='python3 tools/check.py %s --tier thorough' % pid,
            evidence_file='evidence/%s.json' % pid,
            replay_cmd_template='python3 tools/check.py %s --replay {path}' % pid,
            engine=c.get('engine', 'lean-world'),
            level_claimed=dict(category='proof', text=c['text'] + tie_sentence(pid), design_ref=c['ref']),
            level_note=c.get('note', WORLD_NOTE.replace('{id}', pid)),
            technique=c['technique'],
        ))
    man = dict(
        version=1,
        setup_cmd='python3 tools/setup.py',
        hooks=dict(guard='TROMPELOEIL_VERIF',
                   enable='checks compile their harnesses with -DTROMPELOEIL_VERIF where a hook is needed (C12 only); no hook is needed for the other properties',
                   baseline_off_cmd='cmake --build /repo/_build -j16 && /repo/_build/test/self_test',
                   source_commits=['3d1247c'], add_only=True),
        engines=[
            dict(name='lean-conc', path='lean/TrompModel/Model/Conc.lean', serves_properties=['C12'],
                 kind_free_text='Lean 4 model of lock traces / critical sections + theorems (Props/C12.lean); harness/conc built with TSan and with the '
                                'TROMPELOEIL_VERIF access hooks + instrumented recursive mutex'),
            dict(name='lean-coro', path='lean/TrompModel/Model/Coro.lean', serves_properties=['C20'],
                 kind_free_text='Lean 4 model of co_return_handler_t::call as a resumable machine + theorems (Props/C20.lean); harness/coro (C++20)'),
            dict(name='lean-gen', path='tools/translate.py', serves_properties=['C09', 'C19'],
                 kind_free_text='translator regenerating lean/TrompModel/Gen/{StaticAsserts,Macros}.lean from /repo; theorems in Props/C09, C19; '
                                'tools/farm.py and tools/argsfarm.py compile/run generated programs'),
            dict(name='lean-print', path='lean/TrompModel/Model/Print.lean', serves_properties=['C18'],
                 kind_free_text='Lean 4 model of print/stream_sentry/hexdump + theorems (Props/C18.lean); harness/print calls trompeloeil::print'),
            dict(name='lean-matcher', path='lean/TrompModel/Model/Matcher.lean', serves_properties=['C10'],
                 kind_free_text='Lean 4 model of scalar matchers/combinators + theorems (Props/C10.lean); tools/matchergen.py emits C++ trees'),
            dict(name='lean-range', path='lean/TrompModel/Model/Range.lean', serves_properties=['C11'],
                 kind_free_text='Lean 4 model of the range checkers + theorems (Props/C11.lean); harness/range evaluates the real matchers'),
            dict(name='cxx2lean', path='tools/cxx2lean.py', serves_properties=['C01', 'C02', 'C03', 'C04', 'C05', 'C06', 'C07', 'C08', 'C13', 'C14', 'C15', 'C16', 'C17'],
                 kind_free_text='source translator (C++ subset -> Lean do-blocks, vocabulary in tools/cxxvocab.py) regenerating lean/TrompModel/Gen/Cxx/*.lean '
                                'from /repo on every run; lean/TrompModel/Tie/*.lean proves each translation equal to the model definition (DESIGN.md §12)'),
            dict(name='lean-world', path='lean/', serves_properties=[p for p in ALL if p in CLAIMED and CLAIMED[p].get('engine', 'lean-world') == 'lean-world'],
                 kind_free_text='Lean 4 model of expectations/sequences/lifetimes with property theorems; C++ harness harness/world drives the real headers; tools/check.py compares'),
        ],
        checks=checks,
        notes='See DESIGN.md. Genuine defects found and repaired are listed in known_findings.json (fixed entries suppress nothing).',
        not_applicable=[dict(property_id=p, reason=NOT_YET) for p in ALL if p not in CLAIMED],
    )
    with open(os.path.join(VERIF, 'MANIFEST.json'), 'w') as f:
        json.dump(man, f, indent=1)
        f.write('\n')
    print('claimed:', [c['property_id'] for c in checks])


if __name__ == '__main__':
    main()
