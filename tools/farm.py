#!/usr/bin/env python3
"""Compile farm (C19): validates the translator + clause model against the compiler and searches for
failing inputs.  (1) the shipped compilation_errors/*.cpp with their own `// pass:` / `// exception:`
rules; (2) generated expectation statements for every clause list up to a length, whose fate (compiles /
the exact static_assert message) the Lean model predicts."""
import concurrent.futures as cf
import itertools
import os
import re
import shutil
import subprocess
import tempfile

HERE = os.path.dirname(os.path.abspath(__file__))
VERIF = os.path.dirname(HERE)
REPO = os.environ.get('VERIF_REPO', '/repo')
NPROC = int(os.environ.get('VERIF_JOBS', str(os.cpu_count() or 8)))


def sh(cmd, **kw):
    return subprocess.run(cmd, stdout=subprocess.PIPE, stderr=subprocess.PIPE, universal_newlines=True, **kw)


def get_rule(text, name):
    m = re.search(r'^// %s: (.*)$' % name, text, flags=re.M)
    return m.group(1) if m else None


def grep_basic(pattern, s):
    # `grep -e` basic regular expression: \| is alternation, everything used in the rules is literal otherwise
    alts = pattern.split('\\|')
    return any(re.search(a.replace('+', '\\+'), s) for a in alts)


def run_shipped(levels=('c++14', 'c++17', 'c++20')):
    """-> (results, n_run): results = list of (file, level, verdict, detail)"""
    d = os.path.join(REPO, 'compilation_errors')
    files = sorted(f for f in os.listdir(d) if f.endswith('.cpp'))
    jobs = []
    for f in files:
        text = open(os.path.join(d, f)).read()
        pas = get_rule(text, 'pass')
        exc = get_rule(text, 'exception')
        for lv in levels:
            compiler = 'g++ -std=%s' % lv
            if exc and grep_basic(exc, '{Linux} ' + compiler):
                continue
            jobs.append((f, lv, pas))

    def one(j):
        f, lv, pas = j
        r = sh(['g++', '-std=' + lv, '-fsyntax-only', '-I' + os.path.join(REPO, 'include'), os.path.join(d, f)])
        out = r.stderr
        if r.returncode == 0:
            return (f, lv, 'COMPILES', 'misuse compiled without error')
        if pas is None:
            return (f, lv, 'ok', '')
        if re.search(pas, out):
            return (f, lv, 'ok', '')
        return (f, lv, 'WRONG-MESSAGE', 'expected /%s/ in the diagnostics; got: %s' % (pas, out[:600].replace('\n', ' | ')))
    with cf.ThreadPoolExecutor(NPROC) as ex:
        res = list(ex.map(one, jobs))
    return res, len(jobs)


# ------------------------------------------------------------------------------------------
# generated clause lists

# clause token (model) -> C++ text, per signature
def clause_cpp(tok, sig):
    if tok == 'with':
        return '.WITH(true)'
    if tok == 'fx':
        return '.SIDE_EFFECT((void)n)'
    if tok == 'R1':
        return '.RETURN(1)'
    if tok == 'RS':
        return '.RETURN("x")'
    if tok == 'throw':
        return '.THROW(1)'
    if tok.startswith('times:'):
        _, l, h = tok.split(':')
        return '.TIMES(%s, %s)' % (l, h) if l != h else '.TIMES(%s)' % l
    if tok == 'rt':
        return '.RT_TIMES(1, 2)'
    if tok == 'seq':
        return '.IN_SEQUENCE(s)'
    if tok == 'CR1':
        return '.CO_RETURN(1)'
    if tok == 'CRS':
        return '.CO_RETURN("x")'
    if tok == 'CRV':
        return '.CO_RETURN()'
    if tok == 'cothrow':
        return '.CO_THROW(1)'
    if tok == 'CY1':
        return '.CO_YIELD(1)'
    if tok == 'CYS':
        return '.CO_YIELD("x")'
    raise KeyError(tok)


def clause_model(tok, sig):
    """the attributes the guards will see for this expression form under this signature"""
    if tok == 'R1':
        return 'ret:ok' if sig == 'value' else 'ret:bad'          # is_constructible<void,int> is false
    if tok == 'RS':
        return 'ret:bad'
    if tok == 'CR1':
        return 'coret:ok' if sig == 'corovalue' else 'coret:bad'   # ntask has no return_value
    if tok == 'CRS':
        return 'coret:bad'
    if tok == 'CRV':
        return 'coret:voidok' if sig == 'corovoid' else 'coret:voidbad'
    if tok == 'CY1':
        return 'coyield:ok'
    if tok == 'CYS':
        return 'coyield:bad'
    return tok


SIG_DECL = {'void': 'void()', 'value': 'int()', 'corovoid': 'farm::ntask()', 'corovalue': 'farm::vtask<int>()'}
ALPHA_PLAIN = ['with', 'fx', 'R1', 'RS', 'throw', 'times:0:0', 'times:1:2', 'times:2:1', 'rt', 'seq']
ALPHA_CORO = ['fx', 'R1', 'throw', 'times:0:0', 'rt', 'seq', 'CR1', 'CRS', 'CRV', 'cothrow', 'CY1', 'CYS']


def program(sig, toks, idx):
    body = ''.join('\n      ' + clause_cpp(t, sig) for t in toks)
    return ('static void case_%d()\n{\n  M_%s obj; trompeloeil::sequence s; int n = 0; (void)n;\n'
            '  auto e = NAMED_REQUIRE_CALL(obj, f())%s;\n  (void)e;\n}\n' % (idx, sig, body))


PRELUDE = '''#include <trompeloeil.hpp>
%s
struct M_void { MAKE_MOCK0(f, void()); };
struct M_value { MAKE_MOCK0(f, int()); };
%s
'''


def prelude(coro):
    if coro:
        return PRELUDE % ('#include "mini_coro.hpp"', 'struct M_corovoid { MAKE_MOCK0(f, farm::ntask()); };\n'
                          'struct M_corovalue { MAKE_MOCK0(f, farm::vtask<int>()); };')
    return PRELUDE % ('', '')


def all_lists(alpha, maxlen):
    for n in range(maxlen + 1):
        for t in itertools.product(alpha, repeat=n):
            yield list(t)


def cases(tier, rng):
    q = tier == 'quick'
    out = []
    for sig in ('void', 'value'):
        for l in all_lists(ALPHA_PLAIN, 2 if q else 3):
            out.append((sig, l))
    for sig in ('corovoid', 'corovalue'):
        # a task<void> awaits nothing, so it has no value type to CO_YIELD: only the value task yields
        alpha = ALPHA_CORO if sig == 'corovalue' else [t for t in ALPHA_CORO if not t.startswith('CY')]
        ls = list(all_lists(alpha, 2))
        if not q:
            ls += [rng.sample(alpha, 3) for _ in range(400)]
        for l in ls:
            out.append((sig, l))
    return out


def run_generated(tier, rng, tmodel, workdir):
    """-> (mismatches, stats)"""
    cs = cases(tier, rng)
    lines = ['%s | %s' % (sig, ' '.join(clause_model(t, sig) for t in toks) or '-') for sig, toks in cs]
    p = subprocess.run([tmodel, 'clauses'], input='\n'.join(lines) + '\n', stdout=subprocess.PIPE, universal_newlines=True)
    preds = [l for l in p.stdout.split('\n') if l]
    assert len(preds) == len(cs), (len(preds), len(cs))
    os.makedirs(workdir, exist_ok=True)
    inc = ['-I' + os.path.join(REPO, 'include'), '-I' + os.path.join(VERIF, 'harness', 'farm')]
    # precompiled headers
    pch = {}
    for coro in (False, True):
        std = 'c++20' if coro else 'c++17'
        hp = os.path.join(workdir, 'pre_%s.hpp' % std)
        with open(hp, 'w') as f:
            f.write(prelude(coro))
        r = sh(['g++', '-std=' + std, '-x', 'c++-header'] + inc + [hp, '-o', hp + '.gch'])
        if r.returncode != 0:
            return [('<prelude>', [], 'ok', 'prelude does not compile: ' + r.stderr[:800])], dict(cases=0)
        pch[coro] = (std, hp)

    def compile_src(coro, src, name):
        std, hp = pch[coro]
        path = os.path.join(workdir, name + '.cpp')
        with open(path, 'w') as f:
            f.write(src)
        r = sh(['g++', '-std=' + std, '-fsyntax-only', '-include', hp] + inc + [path])
        return r.returncode, r.stderr

    mism = []
    # legal ones in one TU per signature
    ok_cases = [(i, c) for i, (c, pr) in enumerate(zip(cs, preds)) if pr == 'ok']
    bad_cases = [(i, c) for i, (c, pr) in enumerate(zip(cs, preds)) if pr != 'ok']
    jobs = []
    for sig in ('void', 'value', 'corovoid', 'corovalue'):
        grp = [(i, c) for i, c in ok_cases if c[0] == sig]
        for k in range(0, len(grp), 40):
            chunk = grp[k:k + 40]
            src = ''.join(program(sig, toks, i) for i, (_, toks) in chunk)
            jobs.append(('ok', sig.startswith('coro'), src, 'ok_%s_%d' % (sig, k), chunk))
    for i, (sig, toks) in bad_cases:
        jobs.append(('bad', sig.startswith('coro'), program(sig, toks, i), 'bad_%d' % i, [(i, (sig, toks))]))

    def one(j):
        kind, coro, src, name, chunk = j
        rc, err = compile_src(coro, src, name)
        return j, rc, err
    with cf.ThreadPoolExecutor(NPROC) as ex:
        results = list(ex.map(one, jobs))
    retry = []
    for (kind, coro, src, name, chunk), rc, err in results:
        if kind == 'ok':
            if rc != 0:
                retry.extend(chunk)           # find the culprit(s) individually
        else:
            i, (sig, toks) = chunk[0]
            msg = preds[i][len('error: '):]
            if rc == 0:
                mism.append((sig, toks, preds[i], 'compiles'))
            elif msg not in err:
                first = re.findall(r'static assertion failed: ([^\n]*)', err)
                mism.append((sig, toks, preds[i], 'fails with other diagnostics: %s' % (first[:3] or err[:300])))
    if retry:
        def one2(c):
            i, (sig, toks) = c
            rc, err = compile_src(sig.startswith('coro'), program(sig, toks, i), 'retry_%d' % i)
            return c, rc, err
        with cf.ThreadPoolExecutor(NPROC) as ex:
            for (i, (sig, toks)), rc, err in ex.map(one2, retry):
                if rc != 0:
                    first = re.findall(r'static assertion failed: ([^\n]*)', err)
                    mism.append((sig, toks, 'ok', 'does not compile: %s' % (first[:3] or err[:300])))
    stats = dict(cases=len(cs), predicted_ok=len(ok_cases), predicted_error=len(bad_cases), translation_units=len(jobs) + len(retry))
    return mism, stats


# ------------------------------------------------------------------------------------------
# every documented statement / clause macro once, spelled with the short aliases and with the TROMPELOEIL_ prefix
# under -DTROMPELOEIL_LONG_MACROS (`@` marks a macro name)

FAMILY_PRELUDE = '''%(define)s
#include <trompeloeil.hpp>
#include <string>
#include <vector>
%(coro_inc)s
using trompeloeil::_;
struct I { virtual ~I() = default; virtual int vi(int) = 0; virtual void vc() const = 0; };
struct S { int x; };
struct M : trompeloeil::mock_interface<I> {
  @MAKE_MOCK1(f, int(int));
  @MAKE_CONST_MOCK1(c, int(int));
  @MAKE_MOCK0(v, void());
  @MAKE_MOCK1(sp, void(S));
  @MAKE_MOCK2(g, int(int, int&));
  @IMPLEMENT_MOCK1(vi);
  @IMPLEMENT_CONST_MOCK0(vc);
  @MAKE_MOCK(gm, auto (int) -> int);
  @MAKE_CONST_MOCK(gc, auto (int) -> int);
%(coro_members)s
};
struct D { virtual ~D() = default; };
// docs/CookBook.md, "A not_empty() matcher": duck typed, the predicate's trailing return type makes it SFINAE-friendly
inline auto farm_not_empty()
{
  return trompeloeil::make_matcher<trompeloeil::wildcard>(
    [](auto const& value) -> decltype(!value.empty()) { return !value.empty(); },
    [](std::ostream& os) { os << " is not empty"; });
}
struct O {
  @MAKE_MOCK1(func, void(int));
  @MAKE_MOCK1(func, void(std::string&&));
  @MAKE_MOCK1(func2, void(std::vector<int> const&));
  @MAKE_MOCK1(over, void(int));
  @MAKE_MOCK1(over, void(std::string const&));
  @MAKE_MOCK1(ovp, void(int*));
  @MAKE_MOCK1(ovp, void(char const*));
};
'''

FAMILY = [
    ('require', '@REQUIRE_CALL(m, f(@ANY(int))).@WITH(_1 > 0).@SIDE_EFFECT((void)_1).@RETURN(_1).@TIMES(@AT_LEAST(1)).@IN_SEQUENCE(s);'),
    ('require_lr', '@REQUIRE_CALL(m, g(_, _)).@LR_WITH(_1 > n).@LR_SIDE_EFFECT(n = _1).@LR_SIDE_EFFECT(_2 = n).@LR_RETURN(n).@TIMES(@AT_MOST(2));'),
    ('require_throw', '@REQUIRE_CALL(m, f(1)).@THROW(1).@TIMES(0, 1);'),
    ('require_lr_throw', '@REQUIRE_CALL(m, f(1)).@LR_THROW(n).@RT_TIMES(0, 1);'),
    ('named_require', 'auto e = @NAMED_REQUIRE_CALL(m, c(trompeloeil::gt(1))).@RETURN(0).@TIMES(2); (void)e;'),
    ('allow', '@ALLOW_CALL(m, v());'),
    ('named_allow', 'auto e = @NAMED_ALLOW_CALL(m, vi(_)).@RETURN(1); (void)e;'),
    ('forbid', '@FORBID_CALL(m, f(3));'),
    ('named_forbid', 'auto e = @NAMED_FORBID_CALL(m, v()); (void)e;'),
    ('named_forbid_args', 'auto e = @NAMED_FORBID_CALL(m, f(_)); (void)e;'),
    ('implemented_const', '@REQUIRE_CALL(m, vc());'),
    ('generic_make', '@REQUIRE_CALL(m, gm(1)).@RETURN(2); @ALLOW_CALL(m, gc(_)).@RETURN(0);'),
    ('member_is', '@ALLOW_CALL(m, sp(@MEMBER_IS(&S::x, trompeloeil::eq(1))));'),
    ('require_destruction', 'auto* d = new trompeloeil::deathwatched<D>; { @REQUIRE_DESTRUCTION(*d); delete d; }'),
    # duck-typed matchers on overloaded functions (CookBook: "is not ambiguous"): only the overloads the predicate can handle take part
    ('duck_overload_not_empty', 'O o; @REQUIRE_CALL(o, func(farm_not_empty()));'),
    ('duck_single_not_empty', 'O o; @REQUIRE_CALL(o, func2(farm_not_empty()));'),
    ('duck_overload_eq_string', 'O o; @REQUIRE_CALL(o, over(trompeloeil::eq("foo")));'),
    ('duck_overload_eq_int', 'O o; @ALLOW_CALL(o, over(trompeloeil::gt(3)));'),
    ('typed_overload', 'O o; @ALLOW_CALL(o, over(trompeloeil::eq<int>(3))); @ALLOW_CALL(o, over(@ANY(std::string const&))); @ALLOW_CALL(o, ovp(trompeloeil::re("a")));'),
    ('named_require_destruction', 'auto* d = new trompeloeil::deathwatched<D>; auto r = @NAMED_REQUIRE_DESTRUCTION(*d).@IN_SEQUENCE(s); delete d; (void)r;'),
]
FAMILY_CORO = [
    ('co_value', '@REQUIRE_CALL(m, cv()).@CO_YIELD(1).@CO_YIELD(2).@CO_RETURN(3);'),
    ('co_value_lr', '@REQUIRE_CALL(m, cv()).@LR_CO_YIELD(n).@LR_CO_RETURN(n);'),
    ('co_throw', '@REQUIRE_CALL(m, cv()).@CO_THROW(1);'),
    ('co_throw_lr', '@REQUIRE_CALL(m, cv()).@LR_CO_THROW(n);'),
    ('co_void', '@ALLOW_CALL(m, cn()).@CO_RETURN();'),
]


def family_program(long_macros, coro, only=None):
    pre = 'TROMPELOEIL_' if long_macros else ''
    src = FAMILY_PRELUDE % dict(define='#define TROMPELOEIL_LONG_MACROS' if long_macros else '',
                                coro_inc='#include "mini_coro.hpp"' if coro else '',
                                coro_members='  @MAKE_MOCK0(cv, farm::vtask<int>());\n  @MAKE_MOCK0(cn, farm::ntask());' if coro else '')
    for name, body in FAMILY + (FAMILY_CORO if coro else []):
        if only is not None and name != only:
            continue
        src += 'void case_%s()\n{\n  M m; trompeloeil::sequence s; int n = 0; (void)n;\n  %s\n}\n' % (name, body)
    return src.replace('@', pre)


def run_family(workdir, levels=('c++14', 'c++17', 'c++20')):
    """-> (failures [(level, long?, case name or None, program, diagnostics)], number of programs compiled)"""
    inc = ['-I' + os.path.join(REPO, 'include'), '-I' + os.path.join(VERIF, 'harness', 'farm')]
    os.makedirs(workdir, exist_ok=True)

    def comp(args):
        lv, lm, only = args
        src = family_program(lm, lv == 'c++20', only)
        path = os.path.join(workdir, 'family_%s_%d_%s.cpp' % (lv, lm, only or 'all'))
        with open(path, 'w') as f:
            f.write(src)
        r = sh(['g++', '-std=' + lv, '-fsyntax-only', '-Wno-unused'] + inc + [path])
        return args, src, r.returncode, r.stderr
    jobs = [(lv, lm, None) for lv in levels for lm in (False, True)]
    fails = []
    n = 0
    with cf.ThreadPoolExecutor(NPROC) as ex:
        res = list(ex.map(comp, jobs))
        n += len(jobs)
        for (lv, lm, _), src, rc, err in res:
            if rc == 0:
                continue
            names = [nm for nm, _ in FAMILY + (FAMILY_CORO if lv == 'c++20' else [])]
            sub = list(ex.map(comp, [(lv, lm, nm) for nm in names]))
            n += len(names)
            culprits = [(a[2], s2, e2) for a, s2, rc2, e2 in sub if rc2 != 0]
            if not culprits:
                fails.append((lv, lm, None, src, err))
            for nm, s2, e2 in culprits[:3]:
                fails.append((lv, lm, nm, s2, e2))
    return fails, n


if __name__ == '__main__':
    import random
    import sys
    res, n = run_shipped()
    bad = [r for r in res if r[2] != 'ok']
    print('shipped: %d runs, %d not ok' % (n, len(bad)))
    for b in bad[:10]:
        print(' ', b)
    wd = tempfile.mkdtemp(prefix='farm_')
    try:
        mism, stats = run_generated(sys.argv[1] if len(sys.argv) > 1 else 'quick', random.Random(1),
                                    os.path.join(VERIF, 'lean', '.lake', 'build', 'bin', 'tmodel'), wd)
        print(stats, len(mism))
        for m in mism[:20]:
            print(' ', m)
    finally:
        shutil.rmtree(wd, ignore_errors=True)


# ------------------------------------------------------------------------------------------
# "a parameter index beyond the arity": for every clause macro that binds _1 … _15, every arity n and every index k:
# `int(_k)` compiles iff k <= n; for k > n the diagnostic is "illegal argument".

ARITY_PLAIN = ['WITH', 'LR_WITH', 'SIDE_EFFECT', 'LR_SIDE_EFFECT', 'RETURN', 'LR_RETURN', 'THROW', 'LR_THROW']
ARITY_CORO = ['CO_RETURN', 'LR_CO_RETURN', 'CO_THROW', 'LR_CO_THROW', 'CO_YIELD', 'LR_CO_YIELD']


def arity_prelude(coro):
    lines = ['#include <trompeloeil.hpp>']
    if coro:
        lines.append('#include "mini_coro.hpp"')
    ret = 'farm::vtask<int>' if coro else 'int'
    for n in range(16):
        lines.append('struct A%d {' % n)
        lines.append('  MAKE_MOCK%d(f, %s(%s));' % (n, ret, ', '.join(['int'] * n)))
        lines.append('};')
    return '\n'.join(lines) + '\n'


def arity_clause(macro, k):
    use = 'int(_%d)' % k
    base = macro.replace('LR_', '')
    if base == 'WITH':
        return '.%s(%s == 0).RETURN(0)' % (macro, use)
    if base == 'SIDE_EFFECT':
        return '.%s((void)%s).RETURN(0)' % (macro, use)
    if base in ('RETURN', 'THROW', 'CO_RETURN', 'CO_THROW'):
        return '.%s(%s)' % (macro, use)
    if base == 'CO_YIELD':
        return '.%s(%s).CO_RETURN(0)' % (macro, use)
    raise KeyError(macro)


def arity_case(macro, n, k, idx):
    return ('static void case_%d()\n{\n  A%d obj;\n  auto e = NAMED_REQUIRE_CALL(obj, f(%s))%s;\n  (void)e;\n}\n'
            % (idx, n, ', '.join(['trompeloeil::_'] * n), arity_clause(macro, k)))


def run_beyond_arity(tier, workdir):
    """-> (failures [(macro, n, k, expected, what, source)], number of translation units)"""
    q = tier == 'quick'
    arities = [0, 1, 2, 9, 14] if q else list(range(15))
    inc = ['-I' + os.path.join(REPO, 'include'), '-I' + os.path.join(VERIF, 'harness', 'farm')]
    os.makedirs(workdir, exist_ok=True)
    pch = {}
    for coro in (False, True):
        std = 'c++20' if coro else 'c++17'
        hp = os.path.join(workdir, 'arity_%s.hpp' % std)
        with open(hp, 'w') as f:
            f.write(arity_prelude(coro))
        r = sh(['g++', '-std=' + std, '-x', 'c++-header'] + inc + [hp, '-o', hp + '.gch'])
        if r.returncode != 0:
            return [('<prelude>', 0, 0, 'compiles', 'prelude does not compile: ' + r.stderr[:800], arity_prelude(coro))], 0
        pch[coro] = (std, hp)
    jobs = []
    idx = 0
    for macros, coro in ((ARITY_PLAIN, False), (ARITY_CORO, True)):
        for macro in macros:
            # positives: every legal index of every arity of the tier, one translation unit per macro
            pos = [(n, k) for n in arities for k in ([1, n] if n > 1 else [1] if n == 1 else [])]
            src = ''
            for n, k in sorted(set(pos)):
                idx += 1
                src += arity_case(macro, n, k, idx)
            jobs.append(('ok', coro, macro, None, None, src))
            for n in arities:
                ks = sorted(set([n + 1, 15])) if q else list(range(n + 1, 16))
                for k in ks:
                    idx += 1
                    jobs.append(('bad', coro, macro, n, k, arity_case(macro, n, k, idx)))

    def one(j):
        kind, coro, macro, n, k, src = j
        std, hp = pch[coro]
        path = os.path.join(workdir, 'ar_%s_%s_%s_%s.cpp' % (kind, macro, n, k))
        with open(path, 'w') as f:
            f.write(src)
        r = sh(['g++', '-std=' + std, '-fsyntax-only', '-Wno-unused', '-include', hp] + inc + [path])
        return j, r.returncode, r.stderr
    fails = []
    with cf.ThreadPoolExecutor(NPROC) as ex:
        for (kind, coro, macro, n, k, src), rc, err in ex.map(one, jobs):
            if kind == 'ok' and rc != 0:
                first = re.findall(r'error: [^\n]*', err)[:3]
                fails.append((macro, n, k, 'compiles', 'a legal index does not compile: ' + ' | '.join(first)[:500], arity_prelude(coro) + src))
            elif kind == 'bad' and rc == 0:
                fails.append((macro, n, k, 'error: illegal argument', 'compiles', arity_prelude(coro) + src))
            elif kind == 'bad' and 'illegal argument' not in err:
                first = re.findall(r'error: [^\n]*', err)[:3]
                fails.append((macro, n, k, 'error: illegal argument', 'fails with other diagnostics: ' + ' | '.join(first)[:500],
                              arity_prelude(coro) + src))
    return fails, len(jobs)
