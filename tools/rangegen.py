#!/usr/bin/env python3
"""Input generator for the range-matcher harness (C11): exhaustive small scopes + seeded samples."""
import itertools

KINDS = ['is', 'starts', 'ends', 'includes', 'perm']
TOKS = ['v:0', 'v:1', 'v:2', 'eq:1', 'lt:2', 'gt:0', 'ne:1', '_', 'ge:1', 'le:0']


def all_lists(alphabet, maxlen):
    for n in range(maxlen + 1):
        for t in itertools.product(alphabet, repeat=n):
            yield list(t)


def line(kind, eflav, rflav, es, r):
    return ' '.join([kind, '%s:%s' % (eflav, rflav), 'E'] + es + ['R'] + [str(x) for x in r])


def gen(tier, rng):
    q = tier == 'quick'
    rmax, emax = (4, 3) if q else (5, 4)
    ranges = list(all_lists([0, 1, 2], rmax))
    vlists = list(all_lists(['v:0', 'v:1', 'v:2'], emax))
    out = []
    # (a) plain values, every container flavour on both sides
    for kind in KINDS:
        for es in vlists:
            for r in ranges:
                for eflav in ('vv', 'cvec', 'clist', 'cdeque', 'carr'):
                    if eflav == 'vv' and (len(es) > 4 or (kind == 'perm' and len(es) == 1)):
                        continue
                    if eflav == 'carr' and len(es) > 3:
                        continue
                    rfl = ['vec', 'list', 'deque']
                    if eflav != 'vv':
                        if len(r) <= 4:
                            rfl.append('arr')
                        if 1 <= len(r) <= 4:
                            rfl.append('carr')
                    # full cross product only for the vector/vector pair; others rotate
                    if eflav in ('vv', 'cvec'):
                        use = rfl
                    else:
                        use = [rfl[(len(es) + len(r)) % len(rfl)]]
                    for rf in use:
                        out.append(line(kind, eflav, rf, es, r))
    # (b) homogeneous real matchers in a vector
    for kind in KINDS:
        for (eflav, tok) in (('cgt', 'gt'), ('clt', 'lt'), ('ceq', 'eq'), ('cne', 'ne')):
            for es in all_lists(['%s:0' % tok, '%s:1' % tok, '%s:2' % tok], 3):
                for r in ranges:
                    if len(r) > 4 and q:
                        continue
                    out.append(line(kind, eflav, 'vec' if len(r) % 2 else 'list', es, r))
    # (c) mixed value / matcher elements incl. overlapping ones: sampled
    n = 60000 if q else 600000
    mixed = list(all_lists(TOKS, 3))
    for _ in range(n):
        kind = rng.choice(KINDS)
        es = rng.choice(mixed)
        r = rng.choice(ranges)
        if rng.random() < 0.5:
            if kind == 'perm' and len(es) == 1:
                continue
            out.append(line(kind, 'vv', rng.choice(['vec', 'list', 'deque']), es, r))
        else:
            es2 = [e if not e.startswith('v:') else 'eq:' + e[2:] for e in es]
            out.append(line(kind, 'cm', rng.choice(['vec', 'list', 'deque', 'arr'] if len(r) <= 4 else ['vec', 'list']), es2, r))
    # (d) all / any / none
    for kind in ('all', 'any', 'none'):
        for tok in TOKS:
            for r in ranges:
                for rf in ['vec', 'list', 'deque'] + (['arr'] if len(r) <= 4 else []) + (['carr'] if 1 <= len(r) <= 4 else []):
                    if tok.startswith('v:'):
                        out.append(line(kind, 'sv', rf, [tok], r))
                    else:
                        out.append(line(kind, 'sm', rf, [tok], r))
                        out.append(line(kind, 'sg', rf, [tok], r))
    return out


if __name__ == '__main__':
    import random
    import sys
    ls = gen(sys.argv[1] if len(sys.argv) > 1 else 'quick', random.Random(1))
    print(len(ls))
    print('\n'.join(ls[:5]))
