#!/usr/bin/env python3
"""Rewrites the block between <!-- SEEDED-TABLE-BEGIN --> and <!-- SEEDED-TABLE-END --> of DESIGN.md from
seeded/*/meta.json (+ the `summary` / `needs` fields kept there)."""
import glob
import json
import os
import re

VERIF = os.path.dirname(os.path.dirname(os.path.abspath(__file__)))


def main():
    rows = []
    for p in sorted(glob.glob(os.path.join(VERIF, 'seeded', '*', 'meta.json'))):
        m = json.load(open(p))
        det = ', '.join(m.get('detected_by') or []) or '**missed**'
        how = m.get('caught_how', '')
        rows.append('| %s | %s | %s | %s | %s |' % (m['id'], m['property'], m.get('summary', '').replace('|', '/'),
                                                  m.get('needs', '').replace('|', '/'), det + ((' — ' + how) if how else '')))
    table = ['| seed | breaks | change | needs, to manifest | caught by (quick tier) |', '|---|---|---|---|---|'] + rows
    path = os.path.join(VERIF, 'DESIGN.md')
    s = open(path).read()
    s = re.sub(r'(<!-- SEEDED-TABLE-BEGIN -->\n).*?(<!-- SEEDED-TABLE-END -->)', lambda mm: mm.group(1) + '\n'.join(table) + '\n' + mm.group(2), s, flags=re.S)
    open(path, 'w').write(s)
    print('%d seeds, %d missed' % (len(rows), sum(1 for r in rows if '**missed**' in r)))


if __name__ == '__main__':
    main()
